#!/bin/sh
# usage: ./runmany.sh <tier> ID...   (sequential; output to .build/out/<ID>.<tier>.out)
tier=$1; shift
mkdir -p .build/out
for id in "$@"; do
  ./check $id --tier $tier > .build/out/$id.$tier.out 2>&1
  echo "$id rc=$?" >> .build/out/summary.$tier.txt
done
