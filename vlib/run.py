import os, sys, json, time, re
from . import kani, registry

VERIF = kani.VERIF
KNOWN = os.path.join(VERIF, "known_findings.txt")


def load_known(prop):
    out = []
    if os.path.exists(KNOWN):
        for line in open(KNOWN):
            line = line.strip()
            if line.startswith("known:") and f"property={prop} " in line + " ":
                out.append(line)
    return out


def known_match(known_lines, prop, harness, fail):
    """A known finding line: known: property=<id> harness=<h> check=<key substring> :: <what fails>"""
    key = kani.failure_key(fail)
    for l in known_lines:
        m = re.match(r"known: property=(\S+) harness=(\S+) check=(.*?) :: (.*)$", l)
        if not m:
            continue
        if m.group(1) == prop and m.group(2) == harness and m.group(3) in key:
            return m.group(4)
    return None


def main(prop, tier, only=None, do_replay=True):
    t0 = time.time()
    seed = int(os.environ.get("VERIF_SEED", "0") or 0)
    if prop not in registry.PROPS:
        print(f"unknown or not-applicable property {prop}")
        return 2
    P = registry.PROPS[prop]
    groups = [g for g in P["groups"] if g["tier"] == "quick" or tier == "thorough"]
    if only:
        ng = []
        for g in groups:
            if any(only.startswith(f) or f.startswith(only) for f in g.get("filters", [])):
                g = dict(g); g["filters"] = [only]; ng.append(g)
        groups = ng
    known = load_known(prop)
    ev_groups, samples = [], []
    violations, inconclusive, known_hits = [], [], []
    tot = dict(harnesses=0, ok=0, checks=0, passed=0, covers=0, vccs=0, symex=0.0, solver=0.0, prog=0,
               queries=0, nontrivial=0)
    for gi, g in enumerate(groups):
        if g["engine"] == "kani":
            from . import engine_a
            r = engine_a.run(prop, gi, g, tier, known, do_replay)
        elif g["engine"] == "mirsym":
            from . import engine_b
            r = engine_b.run(prop, gi, g, tier, known, do_replay)
        else:
            from . import engine_misc
            r = engine_misc.run(prop, gi, g, tier, known, do_replay)
        ev_groups.append(r["evidence"])
        samples += r["samples"]
        violations += r["violations"]
        inconclusive += r["inconclusive"]
        known_hits += r["known"]
        for k in tot:
            tot[k] += r["totals"].get(k, 0)
    wall = time.time() - t0
    for kh in known_hits:
        print(f"KNOWN-FINDING: property={prop} {kh}")
    if tot["harnesses"] == 0 and not inconclusive and not violations:
        inconclusive.append("no harness or obligation was run")
    status = "held"
    if violations:
        status = "violated"
    elif inconclusive:
        status = "inconclusive"
    ev = {
        "property_id": prop, "tier": tier, "seed": seed, "level": "model_checking",
        "coverage": {
            "evaluations": max(tot["checks"], 1),
            "distinct_nontrivial": tot["nontrivial"],
            "rule": "one evaluation = one proof obligation decided by the solver for ALL inputs within its harness's / lemma's stated bound "
                    "(a CBMC check of a Kani harness: assertion, overflow, bounds, unwinding, cover; or one engine-B obligation instance on one path / path pair); "
                    "obligations are distinct by (harness or lemma, check id / path); an obligation counts as non-trivial when it was discharged and is not a "
                    "check that CBMC reports as unreachable code (those are counted in 'discharged' but not here); satisfied reachability witnesses count",
            "samples": samples[:12],
            "obligations": tot["checks"], "discharged": tot["passed"],
            "harnesses_run": tot["harnesses"], "harnesses_successful": tot["ok"],
            "reachability_witnesses_satisfied": tot["covers"],
            "vccs_generated": tot["vccs"], "program_expression_size": tot["prog"],
            "smt_queries": tot["queries"],
            "symex_s": round(tot["symex"], 1), "solver_s": round(tot["solver"], 1),
            "groups": ev_groups,
            "status": status,
            "restricted_to": only,
            "exhaustive": False,
        },
        "assumptions": registry.COMMON_ASSUME + P.get("assumptions", []),
        "wall_s": round(wall, 1),
        "violations": len(violations),
    }
    os.makedirs(os.path.join(VERIF, "evidence"), exist_ok=True)
    with open(os.path.join(VERIF, "evidence", f"{prop}.json"), "w") as f:
        json.dump(ev, f, indent=1)
    print(f"[{prop}] tier={tier} harnesses={tot['harnesses']} ok={tot['ok']} checks={tot['passed']}/{tot['checks']} "
          f"covers={tot['covers']} symex={tot['symex']:.0f}s solver={tot['solver']:.0f}s wall={wall:.0f}s status={status}")
    if violations:
        shown = 0
        for v in violations:
            if v["replay"] and shown < 3:
                shown += 1
                print(f"VIOLATION property={prop} replay={v['replay']}")
                print(f"  harness={v['harness']} {v['what'][:700]}")
        rest = len(violations) - shown
        if rest > 0:
            print(f"  ... and {rest} more failing harnesses/obligations: " + ", ".join(v["harness"] for v in violations[shown:shown + 12]))
        return 1
    if inconclusive:
        for i in inconclusive[:6]:
            print(f"INCONCLUSIVE property={prop} {i[:900]}")
        if len(inconclusive) > 6:
            print(f"  ... and {len(inconclusive) - 6} more inconclusive items")
        return 2
    return 0
