"""Engine A driver: run Kani proof harnesses of a harness crate against /repo's current tree,
parse the exported JSON, replay failures natively (concrete playback)."""
import json, os, re, shutil, subprocess, time, resource, hashlib

VERIF = os.path.dirname(os.path.dirname(os.path.abspath(__file__)))
BUILD = os.path.join(VERIF, ".build")
ENV = dict(os.environ, CARGO_NET_OFFLINE="true", CARGO_TERM_COLOR="never")
ENV.pop("RUSTFLAGS", None)
MEM_LIMIT = 24 << 30   # per process virtual memory cap (bytes)


def _limits():
    try:
        resource.setrlimit(resource.RLIMIT_AS, (MEM_LIMIT, MEM_LIMIT))
    except Exception:
        pass
    os.setsid()


class HarnessResult:
    def __init__(self, hid):
        self.id = hid
        self.status = "NotRun"     # Success | Failure | Inconclusive
        self.failed = []           # list of dicts (category, description, function, location)
        self.unsat_covers = []
        self.passed = 0
        self.covers_sat = 0
        self.unreachable = 0
        self.total = 0
        self.duration_s = 0.0
        self.symex_s = 0.0
        self.solver_s = 0.0
        self.vccs = 0
        self.vccs_remaining = 0
        self.prog_size = 0
        self.note = ""

    def to_json(self):
        return {k: getattr(self, k) for k in ("id", "status", "passed", "covers_sat", "unreachable",
                                               "total", "duration_s", "symex_s", "solver_s", "vccs",
                                               "vccs_remaining", "prog_size", "failed", "unsat_covers", "note")}


def run_group(crate, filters, tag, jobs=16, timeout_s=600, cbmc_args=None, features=None,
              exact=False, extra_kani=None, log=print):
    """Run all harnesses of harness crate `crate` whose name contains one of `filters`.
    Returns (results: dict id -> HarnessResult, meta dict). Never raises on verification failure."""
    crate_dir = crate if os.path.isabs(crate) else os.path.join(VERIF, "harness", crate)
    tdir = os.path.join(BUILD, tag)
    os.makedirs(tdir, exist_ok=True)
    out_json = os.path.join(tdir, "result.json")
    out_log = os.path.join(tdir, "kani.log")
    for p in (out_json,):
        if os.path.exists(p):
            os.remove(p)
    cmd = ["cargo", "kani", "--manifest-path", os.path.join(crate_dir, "Cargo.toml"),
           "--target-dir", os.path.join(tdir, "target"),
           "-j", str(jobs), "--output-format", "terse",
           "-Z", "unstable-options", "--export-json", out_json,
           "--harness-timeout", f"{int(timeout_s)}s"]
    if features:
        cmd += ["--features", ",".join(features)]
    if exact:
        cmd += ["--exact"]
    for f in filters:
        cmd += ["--harness", f]
    if extra_kani:
        cmd += list(extra_kani)
    if cbmc_args:
        cmd += ["--cbmc-args"] + list(cbmc_args)
    t0 = time.time()
    # overall wall cap: compile (<=180s) + all harnesses in waves
    with open(out_log, "w") as lf:
        lf.write("$ " + " ".join(cmd) + "\n")
        lf.flush()
        p = subprocess.Popen(cmd, stdout=lf, stderr=subprocess.STDOUT, env=ENV, preexec_fn=_limits,
                             cwd=crate_dir)
        try:
            rc = p.wait(timeout=timeout_s * 4 + 600)
        except subprocess.TimeoutExpired:
            try:
                os.killpg(p.pid, 9)
            except Exception:
                pass
            rc = -9
    wall = time.time() - t0
    meta = {"cmd": " ".join(cmd), "rc": rc, "wall_s": round(wall, 1), "log": out_log, "compile_error": False}
    results = {}
    logtxt = open(out_log, errors="replace").read()
    if not os.path.exists(out_json):
        meta["compile_error"] = True
        meta["error_tail"] = "\n".join([l for l in logtxt.splitlines() if l.startswith("error")][:20]) or logtxt[-2000:]
        return results, meta
    try:
        d = json.load(open(out_json))
    except Exception as e:
        meta["compile_error"] = True
        meta["error_tail"] = f"unreadable kani json: {e}"
        return results, meta
    stats = {c["harness_id"]: (c.get("cbmc_stats") or {}) for c in d.get("cbmc", [])}
    meta["tools"] = d.get("tools", {})
    meta["harness_meta"] = {h["pretty_name"]: h for h in d.get("harness_metadata", [])}
    for h in d.get("harness_metadata", []):
        results[h["pretty_name"]] = HarnessResult(h["pretty_name"])
    for r in d.get("verification_results", {}).get("results", []):
        hid = r["harness_id"]
        hr = results.setdefault(hid, HarnessResult(hid))
        hr.duration_s = r.get("duration_ms", 0) / 1000.0
        st = stats.get(hid) or {}
        hr.symex_s = round(st.get("runtime_symex_s") or 0.0, 2)
        hr.solver_s = round(st.get("runtime_decision_procedure_s") or 0.0, 2)
        hr.vccs = st.get("vccs_generated") or 0
        hr.vccs_remaining = st.get("vccs_remaining") or 0
        hr.prog_size = st.get("size_program_expression") or 0
        checks = r.get("checks", [])
        hr.total = len(checks)
        for c in checks:
            s = c.get("status", "")
            cat = c.get("category", "")
            if s == "Success":
                hr.passed += 1
            elif s == "Satisfied":
                hr.covers_sat += 1
            elif s == "Unreachable":
                hr.unreachable += 1
            elif s in ("Unsatisfiable",):
                hr.unsat_covers.append({"description": c.get("description", ""), "location": _loc(c)})
            elif s == "Failure":
                hr.failed.append({"category": cat, "description": c.get("description", ""),
                                  "function": c.get("function", ""), "location": _loc(c)})
            else:  # Undetermined, Uncovered etc.
                if cat not in ("cover",):
                    hr.note += f"check {c.get('id')} status {s}; "
        if r.get("status") == "Success" and not hr.failed:
            hr.status = "Success"
        elif hr.failed:
            hr.status = "Failure"
        else:
            hr.status = "Inconclusive"
            hr.note += f"kani status={r.get('status')} without failed checks (timeout / out of memory / solver error)"
    for hid, hr in results.items():
        if hr.status == "NotRun":
            hr.status = "Inconclusive"
            hr.note += "no verification result recorded (timeout or crash)"
    return results, meta


def _loc(c):
    l = c.get("location") or {}
    f = l.get("file", "")
    f = re.sub(r"^.*/library/", "library/", f)
    return f"{f}:{l.get('line','')}"


def failure_key(f):
    """Stable identification of a failing check for the known-findings file."""
    return f"{f['category']}|{f['function']}|{f['description']}"


def replay(crate, harness_id, prop, features=None, cbmc_args=None, timeout_s=900, tag=None, log=print):
    """Concrete playback of a failing harness: ask Kani for the solver's counterexample as a unit test
    (--concrete-playback=print), put it into a scratch copy of the harness crate and run it natively against
    the real crate (dev profile = overflow/debug assertions on; and a release-like profile).
    Returns dict(reproduced: bool|None, path, detail)."""
    crate_dir = crate if os.path.isabs(crate) else os.path.join(VERIF, "harness", crate)
    h = hashlib.sha1(harness_id.encode()).hexdigest()[:8]
    work = os.path.join(BUILD, "replay", f"{prop}_{h}")
    shutil.rmtree(work, ignore_errors=True)
    os.makedirs(os.path.dirname(work), exist_ok=True)
    outdir = os.path.join(VERIF, "replays", prop)
    os.makedirs(outdir, exist_ok=True)
    safe = re.sub(r"[^A-Za-z0-9_]", "_", harness_id)
    out_path = os.path.join(outdir, safe + ".rs")
    tdir = os.path.join(BUILD, tag or f"{prop}_replay", "target")
    cmd = ["cargo", "kani", "--manifest-path", os.path.join(crate_dir, "Cargo.toml"),
           "--target-dir", tdir, "--harness", harness_id, "--exact",
           "-Z", "concrete-playback", "--concrete-playback=print"]
    if features:
        cmd += ["--features", ",".join(features)]
    if cbmc_args:
        cmd += ["-Z", "unstable-options", "--cbmc-args"] + list(cbmc_args)
    try:
        r = subprocess.run(cmd, stdout=subprocess.PIPE, stderr=subprocess.STDOUT, env=ENV, cwd=crate_dir,
                           timeout=timeout_s, preexec_fn=_limits, text=True, errors="replace")
    except subprocess.TimeoutExpired:
        return {"reproduced": None, "path": out_path, "detail": "counterexample generation timed out"}
    gen = []
    for m in re.finditer(r"#\[test\]\s*fn (kani_concrete_playback_\w+)\(\)\s*\{.*?\n\}", r.stdout, re.S):
        if m.group(1) not in [g[0] for g in gen]:
            gen.append((m.group(1), m.group(0)))
    if not gen:
        with open(out_path, "w") as f:
            f.write("// no concrete playback test was generated\n/*\n" + r.stdout[-4000:] + "\n*/\n")
        return {"reproduced": None, "path": out_path, "detail": "no playback test generated"}
    short = harness_id.split("::")[-1]
    full = "crate::" + harness_id
    body = ""
    for _, b in gen[:6]:
        b = re.sub(r"concrete_playback_run\(concrete_vals,\s*%s\)" % re.escape(short),
                   "concrete_playback_run(concrete_vals, %s)" % full, b)
        body += b + "\n\n"
    with open(out_path, "w") as f:
        f.write(f"// concrete playback for {prop}, harness {harness_id} of /verif/harness/{crate}\n")
        f.write("// (generated by Kani from the solver's counterexample; each Vec<u8> is one kani::any() value in call order)\n")
        f.write("// replay: add this file as `mod replay_tests;` to a copy of the harness crate, then\n")
        f.write("//   cargo kani playback -Z concrete-playback -- kani_concrete_playback\n")
        f.write(body)
    shutil.copytree(crate_dir, work, ignore=shutil.ignore_patterns("target", "Cargo.lock"))
    with open(os.path.join(work, "src", "replay_tests.rs"), "w") as f:
        f.write("#![allow(unused)]\n" + body)
    with open(os.path.join(work, "src", "lib.rs"), "a") as f:
        f.write("\n#[cfg(kani)]\nmod replay_tests;\n")
    verdicts = {}
    for profile in ("dev", "release-like"):
        env = dict(ENV)
        env["CARGO_TARGET_DIR"] = os.path.join(work, "target")
        if profile != "dev":
            env.update(CARGO_PROFILE_DEV_OPT_LEVEL="3", CARGO_PROFILE_DEV_OVERFLOW_CHECKS="false",
                       CARGO_PROFILE_DEV_DEBUG_ASSERTIONS="false", CARGO_PROFILE_TEST_OPT_LEVEL="3",
                       CARGO_PROFILE_TEST_OVERFLOW_CHECKS="false", CARGO_PROFILE_TEST_DEBUG_ASSERTIONS="false")
        cmd = ["cargo", "kani", "playback", "-Z", "concrete-playback", "--manifest-path",
               os.path.join(work, "Cargo.toml")]
        if features:
            cmd += ["--features", ",".join(features)]
        cmd += ["--", "kani_concrete_playback"]
        try:
            pr = subprocess.run(cmd, stdout=subprocess.PIPE, stderr=subprocess.STDOUT, env=env, cwd=work,
                                timeout=300, text=True, errors="replace", preexec_fn=os.setsid)
            failed = re.search(r"test result: FAILED", pr.stdout) is not None
            passed = re.search(r"test result: ok", pr.stdout) is not None
            verdicts[profile] = "fails" if failed else ("passes" if passed else "error")
            if failed:
                m = re.search(r"panicked at[^\n]*\n[^\n]*", pr.stdout)
                if m:
                    verdicts[profile + "_panic"] = m.group(0)[:300]
            if not failed and not passed:
                verdicts[profile + "_tail"] = pr.stdout[-1500:]
        except subprocess.TimeoutExpired:
            verdicts[profile] = "timeout"
    shutil.rmtree(work, ignore_errors=True)
    rep = verdicts.get("dev") in ("fails", "timeout") or verdicts.get("release-like") in ("fails", "timeout")
    with open(out_path, "a") as f:
        f.write(f"// native replay verdicts: {json.dumps(verdicts)}\n")
    return {"reproduced": rep, "path": out_path, "detail": json.dumps(verdicts)}


def replay_file(path):
    """re-run a saved Kani concrete-playback test natively against /repo's current tree; returns (reproduced, text)"""
    txt = open(path).read()
    m = re.search(r"// concrete playback for (\w+), harness (\S+) of /verif/harness/(\S+)", txt)
    if not m:
        return None, "not a Kani playback file"
    prop, hid, crate = m.groups()
    crate_dir = os.path.join(VERIF, "harness", crate)
    work = os.path.join(BUILD, "replay", "manual_" + hashlib.sha1(path.encode()).hexdigest()[:8])
    shutil.rmtree(work, ignore_errors=True)
    shutil.copytree(crate_dir, work, ignore=shutil.ignore_patterns("target", "Cargo.lock"))
    body = "\n".join(l for l in txt.splitlines() if not l.startswith("//"))
    with open(os.path.join(work, "src", "replay_tests.rs"), "w") as f:
        f.write("#![allow(unused)]\n" + body)
    with open(os.path.join(work, "src", "lib.rs"), "a") as f:
        f.write("\n#[cfg(kani)]\nmod replay_tests;\n")
    env = dict(ENV, CARGO_TARGET_DIR=os.path.join(work, "target"))
    pr = subprocess.run(["cargo", "kani", "playback", "-Z", "concrete-playback", "--manifest-path", os.path.join(work, "Cargo.toml"), "--", "kani_concrete_playback"],
                        stdout=subprocess.PIPE, stderr=subprocess.STDOUT, env=env, cwd=work, text=True, errors="replace")
    shutil.rmtree(work, ignore_errors=True)
    failed = "test result: FAILED" in pr.stdout
    return failed, pr.stdout[-3000:]
