"""prints a markdown table of the seeded changes under /verif/seeded and the verdicts of the checks that were run against them"""
import json, os, glob, re
VERIF = os.path.dirname(os.path.dirname(os.path.abspath(__file__)))

def main():
    rows = []
    for d in sorted(glob.glob(os.path.join(VERIF, "seeded", "*"))):
        mp = os.path.join(d, "meta.json")
        if not os.path.exists(mp):
            continue
        m = json.load(open(mp))
        name = os.path.basename(d)
        conf = m.get("confirmation", {}).get("confirmed")
        summ = (m.get("summary") or m.get("needs_to_manifest") or "")
        summ = re.sub(r"\s+", " ", summ)[:170]
        v = m.get("checks_run_against_it", {})
        cells = []
        for p, x in v.items():
            how = ""
            for l in x.get("output", []):
                mm = re.search(r"replay=\S*/([^/\s]+)$", l)
                if l.startswith("VIOLATION") and mm:
                    how = mm.group(1)[:60]
                    break
            verdict = "caught" if x.get("detected") else ("inconclusive (exit 2)" if x.get("exit") == 2 else "missed")
            cells.append(f"{p} quick: {verdict}" + (f" ({how})" if how else ""))
        rows.append(f"| {name} | {'yes' if conf else 'NO'} | {summ} | {'; '.join(cells) or 'not run'} |")
    print("| seeded change | confirmed | what it does | verdict of the property's quick check on the changed tree |")
    print("|---|---|---|---|")
    print("\n".join(rows))

if __name__ == "__main__":
    main()
