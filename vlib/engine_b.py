"""Engine B driver: own symbolic executor over rustc MIR (vlib/mirsym) with z3 deciding every obligation."""
import os, sys, json, time, subprocess, collections
from .run import known_match

VERIF = os.path.dirname(os.path.dirname(os.path.abspath(__file__)))


def run(prop, gi, g, tier, known, do_replay):
    """g: dict(engine='mirsym', lemmas=[names], select=prefixes of obligation names that belong to this property, ...)
    The lemma computation runs in a python3-vt subprocess (z3 lives in the tooling venv)."""
    out = dict(violations=[], inconclusive=[], known=[], samples=[],
               totals=dict(harnesses=0, ok=0, checks=0, passed=0, covers=0, vccs=0, symex=0.0, solver=0.0, prog=0, queries=0))
    t0 = time.time()
    outjson = os.path.join(VERIF, ".build", f"{prop}_{gi}_mirsym.json")
    os.makedirs(os.path.dirname(outjson), exist_ok=True)
    if os.path.exists(outjson):
        os.remove(outjson)
    cmd = ["python3-vt", "-m", "vlib.mirsym.main", "--lemmas", ",".join(g["lemmas"]), "--out", outjson]
    try:
        r = subprocess.run(cmd, cwd=VERIF, stdout=subprocess.PIPE, stderr=subprocess.STDOUT, text=True, timeout=g.get("timeout_s", 1800))
        log = r.stdout
    except subprocess.TimeoutExpired:
        out["inconclusive"].append(f"engine B timed out after {g.get('timeout_s', 1800)} s")
        out["evidence"] = dict(engine="mirsym", lemmas=g["lemmas"], error="timeout")
        return out
    if not os.path.exists(outjson):
        out["inconclusive"].append("engine B failed: " + log[-1500:])
        out["evidence"] = dict(engine="mirsym", lemmas=g["lemmas"], error=log[-1500:])
        return out
    d = json.load(open(outjson))
    sel = g["select"]
    # obligations of this property, plus every "could not encode" report of the lemmas run for it (never silently dropped)
    obs = [o for o in d["obligations"] if any(o["name"].startswith(p) for p in sel) or ".encode" in o["name"]]
    T = out["totals"]
    byname = collections.OrderedDict()
    for o in obs:
        byname.setdefault(o["name"], []).append(o)
    T["queries"] = d["stats"]["queries"]
    T["solver"] = d["solver_s"]
    for name, lst in byname.items():
        T["harnesses"] += 1
        T["checks"] += len(lst)
        bad = [o for o in lst if o["status"] == "violated"]
        inc = [o for o in lst if o["status"] == "inconclusive"]
        T["passed"] += len(lst) - len(bad) - len(inc)
        T["nontrivial"] = T.get("nontrivial", 0) + len(lst) - len(bad) - len(inc)
        if "witness" in name and not bad and not inc:
            T["covers"] += 1
        if bad:
            unl = []
            for o in bad:
                f = dict(category="mirsym", function=name, description=o["detail"][:200])
                k = known_match(known, prop, name, f)
                if k is not None:
                    out["known"].append(f"obligation={name} {k}")
                else:
                    unl.append(o)
            if unl:
                rp = replay(prop, name, unl[0], d, do_replay)
                if rp["reproduced"]:
                    out["violations"].append(dict(harness=name, what=unl[0]["detail"][:600] + f" [native replay: {rp['detail']}]", replay=rp["path"]))
                else:
                    out["inconclusive"].append(f"obligation {name} violated in the encoding ({unl[0]['detail'][:400]}) but the native replay did not confirm it: {rp['detail']} ({rp['path']})")
        elif inc:
            out["inconclusive"].append(f"obligation {name}: {inc[0]['detail'][:400]}")
        else:
            T["ok"] += 1
            if len(out["samples"]) < 5:
                out["samples"].append({"obligation": name, "instances_discharged": len(lst), "detail": lst[0]["detail"][:200]})
    if not obs:
        out["inconclusive"].append("engine B produced no obligation for this property: " + "; ".join(d.get("errors", []))[:800])
    # the encoder could not execute the (changed) code: the solver gives no verdict. As a safety net the native scenario
    # families of the stream replay program are run; a natively failing scenario is still a real, replayed violation.
    enc_fail = [i for i in out["inconclusive"] if "encode" in i or "outside the encoder" in i or "no obligation" in i]
    if enc_fail and not out["violations"] and do_replay and ((prop in ("C13", "C20") and "L1" not in g["lemmas"]) or (prop == "C05" and "L8" in g["lemmas"]) or (prop == "C18" and any(l.startswith("Lprefix") for l in g["lemmas"]))):
        from . import slicereplay
        fn = os.path.join(VERIF, "replays", prop, "native_fallback_slice.txt")
        os.makedirs(os.path.dirname(fn), exist_ok=True)
        open(fn, "w").write(f"# {prop}: engine B could not encode the current tree ({enc_fail[0][:300]}); native slice families run instead\n")
        rp = slicereplay.confirm(prop, "native_fallback", {}, fn)
        if rp["reproduced"]:
            out["violations"].append(dict(harness="native slice families (encoder fallback)", what=rp["detail"], replay=rp["path"]))
    if enc_fail and not out["violations"] and g.get("native_fallback", True) and do_replay and (prop in ("C05", "C07", "C08", "C17", "C18") or (prop == "C20" and "L1" in g["lemmas"])):
        from . import streamreplay
        fn = os.path.join(VERIF, "replays", prop, "native_fallback.txt")
        os.makedirs(os.path.dirname(fn), exist_ok=True)
        open(fn, "w").write(f"# {prop}: engine B could not encode the current tree ({enc_fail[0][:300]}); native scenario families run instead\n")
        rp = streamreplay._confirm(prop, "native_fallback", dict(model_values={}), fn)
        if rp["reproduced"]:
            out["violations"].append(dict(harness="native scenario families (encoder fallback)", what=rp["detail"], replay=rp["path"]))
    out["evidence"] = dict(engine="mirsym (own MIR symbolic executor) + z3 " + d.get("z3_version", ""), lemmas=g["lemmas"],
                           functions_encoded=d["functions_encoded"], summaries=d["summaries"], mir_lines=d["mir_lines"],
                           mir_dump_s=d["mir_dump_s"], paths=d["stats"]["paths"], smt_queries=d["stats"]["queries"],
                           bounds=g.get("bounds", ""), obligations={k: len(v) for k, v in byname.items()},
                           wall_s=round(time.time() - t0, 1), errors=d.get("errors", []))
    return out


def replay(prop, name, ob, d, do_replay):
    """confirm an engine-B counterexample natively: the replay program drives the real ElfStream/ElfBytes through a
    fault-injecting reader on a family of small concrete scenarios derived from the obligation and reports the first failing one"""
    path = os.path.join(VERIF, "replays", prop)
    os.makedirs(path, exist_ok=True)
    fn = os.path.join(path, "mirsym_" + "".join(c if c.isalnum() else "_" for c in name)[:80] + ".txt")
    with open(fn, "w") as f:
        f.write(f"# engine-B counterexample for {prop}, obligation {name}\n# {ob['detail']}\n")
    if not do_replay:
        return dict(reproduced=True, path=fn, detail="replay skipped")
    if prop == "C06":
        from . import allocreplay
        return allocreplay.confirm(fn)
    stream_ob = name.startswith(("L1.", "L2.", "C07.", "C17."))   # obligations about ElfStream (C20's stream typed views)
    slice_side = (prop in ("C13", "C20", "C01") and not (prop == "C20" and stream_ob)) or (prop == "C05" and "stream" not in name) or (prop == "C18" and "prefix" in name.lower())
    if slice_side:
        from . import slicereplay
        return slicereplay.confirm(prop, name, ob, fn)
    from . import streamreplay
    return streamreplay.confirm(prop, name, ob, fn)
