import os, json
from . import kani
from .run import known_match


def is_harness_arith(f, crate):
    """an overflow / index / division check that fails in the harness crate's own source (not in /repo, not in core/std)"""
    loc = f.get("location", "")
    desc = f.get("description", "")
    in_harness = loc.startswith("src/") and not loc.startswith("/repo") and not f.get("function", "").startswith(("elf::", "<elf::"))
    arith = desc.startswith("attempt to ") or "index out of bounds" in desc or "out of range for slice" in desc
    unwind = f.get("category") == "unwind" or desc.startswith("unwinding assertion")   # a loop of the harness itself needs a larger bound
    return in_harness and (arith or unwind)


def run(prop, gi, g, tier, known, do_replay):
    tag = f"{prop}_{gi}"
    if g.get("gen"):
        try:
            g["gen"]()          # regenerate generated harness sources from /repo's current tree
        except Exception as ex:
            return dict(violations=[], inconclusive=[f"harness generation failed: {ex}"], known=[], samples=[],
                        totals=dict(harnesses=0, ok=0, checks=0, passed=0, covers=0, vccs=0, symex=0.0, solver=0.0, prog=0),
                        evidence=dict(engine="kani", crate=g["crate"], error=str(ex)))
    jobs = min(g["jobs"], int(os.environ.get("VERIF_JOBS", g["jobs"]) or g["jobs"]))
    results, meta = kani.run_group(g["crate"], g["filters"], tag, jobs=jobs, timeout_s=g["timeout_s"],
                                   cbmc_args=g["cbmc_args"], features=g["features"], extra_kani=g["extra_kani"])
    # Harnesses that ended without a verdict well before their timeout were killed (memory exhaustion when several large CBMC
    # processes run side by side, or a loaded machine): re-run exactly those, one or two at a time, before calling them inconclusive.
    retried = []
    if results and not meta["compile_error"]:
        lost = [hid for hid, hr in results.items()
                if hr.status == "Inconclusive" and not hr.failed and hr.duration_s < 0.9 * g["timeout_s"]]
        if lost and len(lost) <= 12:
            r2, m2 = kani.run_group(g["crate"], lost, tag + "_retry", jobs=max(1, min(2, jobs // 4)), timeout_s=g["timeout_s"],
                                    cbmc_args=g["cbmc_args"], features=g["features"], extra_kani=g["extra_kani"], exact=True)
            meta["wall_s"] = round(meta["wall_s"] + m2["wall_s"], 1)
            for hid in lost:
                if hid in r2 and r2[hid].status != "Inconclusive":
                    r2[hid].note += "verdict from a sequential re-run (first attempt was killed without a verdict); "
                    results[hid] = r2[hid]
                    retried.append(hid)
    out = dict(violations=[], inconclusive=[], known=[], samples=[],
               totals=dict(harnesses=0, ok=0, checks=0, passed=0, covers=0, vccs=0, symex=0.0, solver=0.0, prog=0))
    evg = dict(engine="kani (CBMC 6.11 + CaDiCaL)", crate=g["crate"], filters=g["filters"], functions_encoded=g["functions"],
               bounds=g["bounds"], stubs=g["stubs"], cbmc_args=g["cbmc_args"], features=g["features"],
               per_harness_timeout_s=g["timeout_s"], wall_s=meta["wall_s"], harnesses=[], retried_sequentially=retried)
    out["evidence"] = evg
    if meta["compile_error"] or not results:
        out["inconclusive"].append(f"group {g['filters']}: harness crate did not build or no harness matched: "
                                   f"{meta.get('error_tail','')[:600]} (log {meta['log']})")
        return out
    T = out["totals"]
    hm = meta.get("harness_meta", {})
    for hid in sorted(results):
        hr = results[hid]
        T["harnesses"] += 1
        T["checks"] += hr.total
        T["passed"] += hr.passed + hr.unreachable + hr.covers_sat
        T["nontrivial"] = T.get("nontrivial", 0) + hr.passed + hr.covers_sat
        T["covers"] += hr.covers_sat
        T["vccs"] += hr.vccs
        T["symex"] += hr.symex_s
        T["solver"] += hr.solver_s
        T["prog"] += hr.prog_size
        j = hr.to_json()
        evg["harnesses"].append(j)
        if g.get("expect_fail"):
            # reachability witness group: the harness MUST fail with the named check (shows the stub/oracle bites)
            hit = [f for f in hr.failed if g["expect_fail"] in f["description"]]
            if hr.status == "Failure" and hit:
                T["ok"] += 1
                T["covers"] += 1
                j["witness"] = "failed as required: " + hit[0]["description"]
            else:
                out["inconclusive"].append(f"witness harness {hid} did not fail with '{g['expect_fail']}' (status {hr.status}): the stub is not effective")
            continue
        if hr.status == "Success":
            if hr.unsat_covers:
                out["inconclusive"].append(f"harness {hid}: reachability witness unsatisfiable (vacuous?): "
                                           f"{hr.unsat_covers[0]['description']}")
            else:
                T["ok"] += 1
                if len(out["samples"]) < 4:
                    out["samples"].append({"harness": hid, "bound": g["bounds"], "checks_discharged": hr.passed,
                                           "witnesses_satisfied": hr.covers_sat, "vccs": hr.vccs,
                                           "symex_s": hr.symex_s, "solver_s": hr.solver_s})
        elif hr.status == "Failure":
            unlisted = []
            harness_bugs = [f for f in hr.failed if is_harness_arith(f, g["crate"])]
            genuine = [f for f in hr.failed if not is_harness_arith(f, g["crate"])]
            if harness_bugs and not genuine:
                out["inconclusive"].append(f"harness {hid}: arithmetic/index/unwinding failure inside the harness code itself ({harness_bugs[0]['description']} at {harness_bugs[0]['location']}): harness bug, not a finding")
                continue
            # failures of the harness's own arithmetic never count; property assertions and checks inside the crate do (after replay)
            for f in genuine:
                k = known_match(known, prop, hid, f)
                if k is not None:
                    out["known"].append(f"harness={hid} {k}")
                else:
                    unlisted.append(f)
            if not unlisted:
                continue
            what = "; ".join(f"{f['category']}: {f['description']} in {f['function']} ({f['location']})" for f in unlisted[:4])
            nrep = sum(1 for h in evg["harnesses"] if "replay" in h)
            if do_replay and nrep >= 2 and out["violations"]:
                out["violations"].append(dict(harness=hid, what=what + " [not replayed: replay cap of 2 per group reached]",
                                              replay=None))
                continue
            if do_replay:
                rp = kani.replay(g["crate"], hid, prop, features=g["features"], cbmc_args=g["cbmc_args"], tag=tag)
            else:
                rp = {"reproduced": True, "path": meta["log"], "detail": "replay skipped"}
            j["replay"] = rp
            only_unwind = all(f["category"] == "unwind" for f in unlisted)
            if rp["reproduced"] is not True and any("heap allocation reached" in f["description"] for f in unlisted):
                # C06: the allocator stub fired; Kani has no symbolic input to play back, so confirm with the counting-allocator program
                from . import allocreplay
                rp = allocreplay.confirm(rp["path"])
                j["replay"] = rp
            in_repo = all(("/repo/" in f["location"] or f["function"].startswith(("elf::", "<elf::"))) for f in unlisted)
            if rp["reproduced"]:
                out["violations"].append(dict(harness=hid, what=what + f" [native replay: {rp['detail']}]", replay=rp["path"]))
            elif rp["reproduced"] is None:
                # The solver decided the failure (a panic/overflow/index/unwinding check inside the crate, or a property assertion of the
                # harness) on the compiled code, but Kani could not emit a concrete playback test (trace generation ran out of memory or
                # the harness has no symbolic input): still reported, marked as not natively replayed. Arithmetic/index failures inside
                # the harness code itself were filtered out above (harness bugs).
                with open(rp["path"], "a") as fh:
                    fh.write("// Kani/CBMC reported these failing checks inside the crate under test (no concrete playback test could be generated):\n")
                    for f in unlisted:
                        fh.write(f"//   {f['category']}: {f['description']} in {f['function']} ({f['location']})\n")
                out["violations"].append(dict(harness=hid, what=what + f" [solver verdict; no native playback: {rp['detail']}]", replay=rp["path"]))
            else:
                out["inconclusive"].append(f"harness {hid}: solver counterexample did not reproduce natively "
                                           f"({rp['detail']}); failing checks: {what}; see {rp['path']}")
        else:
            out["inconclusive"].append(f"harness {hid}: {hr.note}")
    return out
