"""Native confirmation of engine-B counterexamples: builds /verif/harness/streamreplay (plain cargo, std) against /repo's
working tree and runs its scenario families (real ElfStream vs ElfBytes through a scripted fault-injecting Read+Seek)."""
import os, subprocess, json, re

VERIF = os.path.dirname(os.path.dirname(os.path.abspath(__file__)))
CRATE = os.path.join(VERIF, "harness", "streamreplay")
TDIR = os.path.join(VERIF, ".build", "streamreplay")


def build():
    env = dict(os.environ, CARGO_NET_OFFLINE="true", CARGO_TARGET_DIR=TDIR)
    env.pop("RUSTFLAGS", None)
    r = subprocess.run(["cargo", "build", "--offline", "--release", "--manifest-path", os.path.join(CRATE, "Cargo.toml")],
                       stdout=subprocess.PIPE, stderr=subprocess.STDOUT, text=True, env=env)
    if r.returncode != 0:
        return None, r.stdout[-1500:]
    return os.path.join(TDIR, "release", "streamreplay"), ""


_memo = {}


def confirm(prop, name, ob, fn):
    mvk = json.dumps(ob.get("model_values", {}), sort_keys=True)
    if len(_memo) >= 3 and mvk not in _memo:
        # the native families do not depend on much more than the hints: reuse the first verdict after three runs
        r = dict(next(iter(_memo.values())))
        r["path"] = fn
        with open(fn, "a") as f:
            f.write("# native replay verdict reused from an earlier obligation of this run: " + str(r["detail"]) + "\n")
        return r
    if mvk in _memo:
        r = dict(_memo[mvk]); r["path"] = fn
        return r
    r = _confirm(prop, name, ob, fn)
    _memo[mvk] = r
    return r


def _confirm(prop, name, ob, fn):
    exe, err = build()
    if exe is None:
        return dict(reproduced=None, path=fn, detail="replay program did not build: " + err)
    mv = ob.get("model_values", {})
    args = [exe, "--prop", prop]
    for k in ("range_start", "range_end", "file_len", "arg.sh_offset", "arg.sh_size", "arg.p_offset", "arg.p_filesz"):
        if k in mv and re.match(r"^\d+$", mv[k]):
            args += [f"--hint", f"{k}={mv[k]}"]
    try:
        r = subprocess.run(args, stdout=subprocess.PIPE, stderr=subprocess.STDOUT, text=True, timeout=600)
    except subprocess.TimeoutExpired:
        return dict(reproduced=None, path=fn, detail="replay program timed out")
    with open(fn, "a") as f:
        f.write("# native replay: " + " ".join(args) + "\n" + r.stdout[-6000:] + "\n")
    accept = {"C05": ("C05", "C07"), "C07": ("C07", "C05"), "C08": ("C08",), "C17": ("C17",), "C18": ("C18", "C07", "C05"), "C20": ("C20", "C07")}.get(prop, (prop,))
    ms = list(re.finditer(r"^FAIL (C\d\d(?:/C\d\d)*) .*$", r.stdout, re.M))
    if r.returncode == 1 and ms:
        for m in ms:
            if any(l in accept for l in m.group(1).split("/")):
                return dict(reproduced=True, path=fn, detail=m.group(0)[:500])
        return dict(reproduced=False, path=fn, detail="native families fail, but for another property: " + ms[0].group(0)[:300])
    if r.returncode in (-6, 134, -11, 139):
        return dict(reproduced=True, path=fn, detail="the native run aborted (allocation refused / memory exhausted) -- an unbounded allocation")
    if r.returncode == 0:
        return dict(reproduced=False, path=fn, detail="all native scenarios passed")
    return dict(reproduced=None, path=fn, detail=f"replay program exit {r.returncode}: {r.stdout[-300:]}")
