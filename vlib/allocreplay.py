"""Native confirmation for C06: builds /verif/harness/allocreplay against /repo's working tree (counting global allocator)."""
import os, subprocess, re
VERIF = os.path.dirname(os.path.dirname(os.path.abspath(__file__)))
CRATE = os.path.join(VERIF, "harness", "allocreplay")
TDIR = os.path.join(VERIF, ".build", "allocreplay")


def confirm(fn):
    env = dict(os.environ, CARGO_NET_OFFLINE="true", CARGO_TARGET_DIR=TDIR)
    env.pop("RUSTFLAGS", None)
    b = subprocess.run(["cargo", "build", "--offline", "--release", "--manifest-path", os.path.join(CRATE, "Cargo.toml")],
                       stdout=subprocess.PIPE, stderr=subprocess.STDOUT, text=True, env=env)
    if b.returncode != 0:
        return dict(reproduced=None, path=fn, detail="alloc replay program did not build: " + b.stdout[-600:])
    r = subprocess.run([os.path.join(TDIR, "release", "allocreplay")], stdout=subprocess.PIPE, stderr=subprocess.STDOUT, text=True, timeout=300)
    with open(fn, "a") as f:
        f.write("// native replay: harness/allocreplay (counting global allocator over the slice-parser API)\n" + "\n".join("// " + l for l in r.stdout.splitlines()[-20:]) + "\n")
    m = re.search(r"^FAIL C06 .*$", r.stdout, re.M)
    if r.returncode == 1 and m:
        return dict(reproduced=True, path=fn, detail=m.group(0)[:400])
    return dict(reproduced=False, path=fn, detail="no allocation observed natively: " + r.stdout[-200:])
