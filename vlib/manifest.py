"""Regenerates MANIFEST.json from the registry (run: python3 -m vlib.manifest)."""
import json, os
from . import registry
VERIF = os.path.dirname(os.path.dirname(os.path.abspath(__file__)))

def main():
    checks = []
    for pid in sorted(registry.PROPS):
        P = registry.PROPS[pid]
        checks.append({
            "property_id": pid,
            "quick_cmd": f"./check {pid} --tier quick",
            "thorough_cmd": f"./check {pid} --tier thorough",
            "evidence_file": f"/verif/evidence/{pid}.json",
            "replay_cmd_template": "./check --replay {path}",
            "engine": P.get("engine", "kani"),
            "level_claimed": {"category": "model_checking", "text": P["level_text"], "design_ref": P.get("design_ref", "DESIGN.md §3 " + pid)},
            "level_note": P["level_note"],
            "technique": P["technique"],
        })
    na = [{"property_id": k, "reason": v} for k, v in sorted(registry.NOT_APPLICABLE.items()) if k not in registry.PROPS]
    m = {
        "version": 1,
        "setup_cmd": "./setup.sh",
        "hooks": {"guard": "cfg(kani)", "enable": "none needed: harness crates under /verif/harness depend on /repo by path; no source hooks are present in /repo",
                  "baseline_off_cmd": "cd /repo && cargo test --workspace --no-fail-fast --offline",
                  "source_commits": [], "add_only": True},
        "engines": [
            {"name": "kani", "path": "/verif/harness, /verif/vlib/kani.py", "serves_properties": [p for p in sorted(registry.PROPS) if registry.PROPS[p].get("engine", "kani") in ("kani", "kani+mirsym")],
             "kind_free_text": "bounded model checking of the compiled crate (Kani 0.68 / CBMC 6.11 / CaDiCaL) through #[kani::proof] harnesses with symbolic inputs"},
            {"name": "mirsym", "path": "/verif/vlib/mirsym", "serves_properties": [p for p in sorted(registry.PROPS) if "mirsym" in registry.PROPS[p].get("engine", "kani")],
             "kind_free_text": "own symbolic executor over rustc's MIR dump of /repo (regenerated each run) with z3 as the deciding solver"},
        ],
        "checks": checks,
        "not_applicable": na,
        "notes": "Every check rebuilds from /repo's working tree. Exit 0 held / 1 VIOLATION (replayed natively) / 2 inconclusive. See DESIGN.md.",
    }
    with open(os.path.join(VERIF, "MANIFEST.json"), "w") as f:
        json.dump(m, f, indent=1)

if __name__ == "__main__":
    main()
