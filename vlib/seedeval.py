"""Confirm a seeded change and run checks against it.
usage: python3 -m vlib.seedeval <seed_dir> <name> <PROP> [more PROPs to run ...]
 1. copies <seed_dir> to /verif/seeded/<name>/ (patch.diff, demo.rs|demo.sh, meta.json)
 2. confirms in a scratch worktree under /tmp: patch applies, suite result unchanged (239 passed; 2 failed), demo fails with / passes without
 3. applies the patch to /repo, runs ./check <PROP> --tier quick for each listed property, reverts /repo, records the verdicts in meta.json"""
import sys, os, subprocess, json, shutil, re, time

VERIF = os.path.dirname(os.path.dirname(os.path.abspath(__file__)))


def sh(cmd, cwd=None, timeout=3600, env=None):
    r = subprocess.run(cmd, shell=True, cwd=cwd, stdout=subprocess.PIPE, stderr=subprocess.STDOUT, text=True, timeout=timeout, env=env)
    return r.returncode, r.stdout


def suite(wt):
    rc, out = sh("cargo test --offline 2>&1 | grep -E '^test result' | head -1", cwd=wt, env=dict(os.environ, CARGO_TARGET_DIR=os.path.join(wt, "target")))
    m = re.search(r"(\d+) passed; (\d+) failed", out)
    return (int(m.group(1)), int(m.group(2))) if m else None


def demo(wt, seed):
    env = dict(os.environ, CARGO_TARGET_DIR=os.path.join(wt, "target"))
    if os.path.exists(os.path.join(seed, "demo.rs")):
        os.makedirs(os.path.join(wt, "tests"), exist_ok=True)
        shutil.copy(os.path.join(seed, "demo.rs"), os.path.join(wt, "tests", "demo.rs"))
        rc, out = sh("cargo test --offline --test demo 2>&1 | tail -5", cwd=wt, env=env)
        ok = "test result: ok" in out
        shutil.rmtree(os.path.join(wt, "tests"), ignore_errors=True)
        return ok, out[-300:]
    if os.path.exists(os.path.join(seed, "demo.sh")):
        rc, out = sh(f"bash {os.path.join(seed, 'demo.sh')} 2>&1", cwd=wt, env=env)
        return rc == 0, out[-300:]
    return None, "no demo"


def main():
    seed_src, name = sys.argv[1], sys.argv[2]
    props = sys.argv[3:]
    dst = os.path.join(VERIF, "seeded", name)
    os.makedirs(dst, exist_ok=True)
    for f in os.listdir(seed_src):
        if os.path.isfile(os.path.join(seed_src, f)):
            shutil.copy(os.path.join(seed_src, f), os.path.join(dst, f))
    meta = {}
    mp = os.path.join(dst, "meta.json")
    if os.path.exists(mp):
        try:
            meta = json.load(open(mp))
        except Exception:
            meta = {"raw_meta": open(mp).read()[:2000]}
    patch = os.path.join(dst, "patch.diff")
    wt = f"/tmp/confirm_{name}"
    sh(f"git -C /repo worktree remove --force {wt}")
    rc, out = sh(f"git -C /repo worktree add -q {wt} HEAD")
    conf = {}
    try:
        conf["demo_passes_without_change"], _ = demo(wt, dst)
        rc, out = sh(f"git apply {patch}", cwd=wt)
        conf["patch_applies"] = rc == 0
        if rc == 0:
            conf["suite_with_change"] = suite(wt)
            ok, tail = demo(wt, dst)
            conf["demo_fails_with_change"] = (ok is False)
            conf["demo_tail_with_change"] = tail
            rc2, _ = sh("cargo check --offline --no-default-features 2>&1 | tail -1", cwd=wt, env=dict(os.environ, CARGO_TARGET_DIR=os.path.join(wt, "target")))
    finally:
        sh(f"git -C /repo worktree remove --force {wt}")
        shutil.rmtree(wt, ignore_errors=True)
    conf["confirmed"] = bool(conf.get("patch_applies") and conf.get("suite_with_change") == (239, 2) and conf.get("demo_fails_with_change") and conf.get("demo_passes_without_change"))
    meta["confirmation"] = conf
    verdicts = {}
    if conf["confirmed"] and props:
        rc, out = sh(f"git -C /repo status --porcelain")
        if out.strip():
            print("refusing: /repo working tree is not clean"); sys.exit(3)
        rc, out = sh(f"git -C /repo apply {patch}")
        try:
            for p in props:
                t0 = time.time()
                rc, out = sh(f"./check {p} --tier quick", cwd=VERIF, timeout=7200)
                lines = [l for l in out.splitlines() if l.startswith(("VIOLATION", "[", "INCONCLUSIVE", "KNOWN"))]
                verdicts[p] = dict(exit=rc, wall_s=round(time.time() - t0), detected=(rc == 1 and any(l.startswith("VIOLATION") for l in lines)), output=[l[:400] for l in lines[:6]])
        finally:
            sh("git -C /repo checkout -- .")
    meta["checks_run_against_it"] = verdicts
    meta["what_i_ran"] = ["git worktree add /tmp/confirm_<name>; demo without change; git apply patch.diff; cargo test --offline; demo with change",
                          "git -C /repo apply patch.diff; ./check <ID> --tier quick; git -C /repo checkout -- ."]
    json.dump(meta, open(mp, "w"), indent=1)
    print(json.dumps(dict(name=name, confirmation=conf, verdicts={k: (v["exit"], v["detected"]) for k, v in verdicts.items()}), indent=1))


if __name__ == "__main__":
    main()
