"""Native confirmation of engine-B counterexamples on the slice parser: builds /verif/harness/slicereplay against /repo's
working tree and runs its families (real ElfBytes vs an independent reference reader)."""
import os, subprocess, re

VERIF = os.path.dirname(os.path.dirname(os.path.abspath(__file__)))
CRATE = os.path.join(VERIF, "harness", "slicereplay")
TDIR = os.path.join(VERIF, ".build", "slicereplay")
ACCEPT = {"C05": ("C05",), "C13": ("C13", "C05"), "C20": ("C20",), "C01": ("C01",), "C03": ("C03",), "C18": ("C18",)}
_memo = {}


def run_families():
    if "r" in _memo:
        return _memo["r"]
    env = dict(os.environ, CARGO_NET_OFFLINE="true", CARGO_TARGET_DIR=TDIR)
    env.pop("RUSTFLAGS", None)
    b = subprocess.run(["cargo", "build", "--offline", "--release", "--manifest-path", os.path.join(CRATE, "Cargo.toml")],
                       stdout=subprocess.PIPE, stderr=subprocess.STDOUT, text=True, env=env)
    if b.returncode != 0:
        _memo["r"] = (None, "replay program did not build: " + b.stdout[-1200:])
        return _memo["r"]
    try:
        r = subprocess.run([os.path.join(TDIR, "release", "slicereplay")], stdout=subprocess.PIPE, stderr=subprocess.STDOUT, text=True, timeout=600)
    except subprocess.TimeoutExpired:
        _memo["r"] = (None, "replay program timed out")
        return _memo["r"]
    _memo["r"] = (r.returncode, r.stdout)
    return _memo["r"]


def confirm(prop, name, ob, fn):
    rc, out = run_families()
    with open(fn, "a") as f:
        f.write("# native replay: harness/slicereplay (real ElfBytes vs reference reader on generated file families)\n" + (out or "")[-4000:] + "\n")
    if rc is None:
        return dict(reproduced=None, path=fn, detail=out[:300])
    ms = list(re.finditer(r"^FAIL (C\d\d(?:/C\d\d)*) .*$", out, re.M))
    if rc == 1 and ms:
        for m in ms:
            if any(l in ACCEPT.get(prop, (prop,)) for l in m.group(1).split("/")):
                return dict(reproduced=True, path=fn, detail=m.group(0)[:500])
        return dict(reproduced=False, path=fn, detail="native families fail, but for another property: " + ms[0].group(0)[:300])
    if rc == 0:
        return dict(reproduced=False, path=fn, detail="all native slice scenarios agree with the reference reader")
    return dict(reproduced=None, path=fn, detail=f"replay program exit {rc}: {out[-300:]}")
