"""Build obligations (C06 feature matrix): no symbolic variable; reported as such in the evidence."""
import os, subprocess, itertools, time, re, shutil

VERIF = os.path.dirname(os.path.dirname(os.path.abspath(__file__)))


def run(prop, gi, g, tier, known, do_replay):
    out = dict(violations=[], inconclusive=[], known=[], samples=[],
               totals=dict(harnesses=0, ok=0, checks=0, passed=0, covers=0, vccs=0, symex=0.0, solver=0.0, prog=0))
    t0 = time.time()
    tdir = os.path.join(VERIF, ".build", "features")
    env = dict(os.environ, CARGO_NET_OFFLINE="true", CARGO_TARGET_DIR=tdir)
    env.pop("RUSTFLAGS", None)
    feats = ["alloc", "std", "to_str"]
    results = []
    T = out["totals"]
    for r in range(len(feats) + 1):
        for sub in itertools.combinations(feats, r):
            cmd = ["cargo", "check", "--offline", "--lib", "--no-default-features", "--manifest-path", "/repo/Cargo.toml"]
            if sub:
                cmd += ["--features", ",".join(sub)]
            p = subprocess.run(cmd, stdout=subprocess.PIPE, stderr=subprocess.STDOUT, text=True, env=env)
            T["harnesses"] += 1
            T["checks"] += 1
            ok = p.returncode == 0
            results.append(dict(features=list(sub), compiles=ok))
            if ok:
                T["ok"] += 1
                T["passed"] += 1
                T["nontrivial"] = T.get("nontrivial", 0) + 1
            else:
                path = os.path.join(VERIF, "replays", prop)
                os.makedirs(path, exist_ok=True)
                fn = os.path.join(path, "features_" + ("_".join(sub) or "none") + ".txt")
                open(fn, "w").write("$ " + " ".join(cmd) + "\n" + p.stdout[-6000:])
                out["violations"].append(dict(harness="features:" + ",".join(sub), what="the crate does not compile with this feature subset: " +
                                              " | ".join(l for l in p.stdout.splitlines() if l.startswith("error"))[:400], replay=fn))
    # no_std / no alloc dependency of the --no-default-features build
    cmd = ["cargo", "+nightly", "build", "--offline", "--lib", "--no-default-features", "--manifest-path", "/repo/Cargo.toml"]
    env2 = dict(env, CARGO_TARGET_DIR=os.path.join(tdir, "nightly"))
    p = subprocess.run(cmd, stdout=subprocess.PIPE, stderr=subprocess.STDOUT, text=True, env=env2)
    T["harnesses"] += 1
    T["checks"] += 1
    deps = None
    if p.returncode == 0:
        rlib = os.path.join(tdir, "nightly", "debug", "libelf.rlib")
        q = subprocess.run(["rustc", "+nightly", "-Zls=root", rlib], stdout=subprocess.PIPE, stderr=subprocess.STDOUT, text=True)
        m = re.search(r"=External Dependencies=\n(.*?)(\n\n|\Z)", q.stdout, re.S)
        if m:
            deps = [re.match(r"\d+ ([A-Za-z_0-9]+)-", l).group(1) for l in m.group(1).splitlines() if re.match(r"\d+ ", l)]
    if deps is None:
        out["inconclusive"].append("could not list the external crates of the --no-default-features rlib: " + p.stdout[-300:])
    else:
        bad = [d for d in deps if d in ("std", "alloc")]
        if bad:
            path = os.path.join(VERIF, "replays", prop)
            os.makedirs(path, exist_ok=True)
            fn = os.path.join(path, "no_default_features_deps.txt")
            open(fn, "w").write("cargo +nightly build --lib --no-default-features; rustc +nightly -Zls=root libelf.rlib\nexternal crates: " + ", ".join(deps) + "\n")
            out["violations"].append(dict(harness="features:no_std", what=f"with default features disabled the crate links {bad} (external crates: {deps})", replay=fn))
        else:
            T["ok"] += 1
            T["passed"] += 1
    out["samples"].append({"obligation": "feature subsets compile", "subsets": results[:8], "no_default_features_external_crates": deps})
    out["evidence"] = dict(engine="build obligations (cargo check per feature subset; rustc -Zls on the no-default-features rlib) — not a solver verdict",
                           subsets=results, no_default_features_external_crates=deps, wall_s=round(time.time() - t0, 1))
    return out
