"""Symbolic executor over parsed MIR bodies. Values are Python objects whose leaves are z3 terms.
Forking is done by deterministic re-execution under a recorded decision prefix (no state copying)."""
import re
import z3
from . import mir

U64 = 64


class IntV:
    __slots__ = ("e", "signed")

    def __init__(self, e, signed=False):
        self.e = e
        self.signed = signed

    def __repr__(self):
        return f"Int({z3.simplify(self.e)})"


class Agg:
    """struct / tuple / array: mutable list of fields"""
    __slots__ = ("f", "ty")

    def __init__(self, fields, ty=""):
        self.f = list(fields)
        self.ty = ty

    def __repr__(self):
        return f"Agg<{self.ty}>({self.f})"


class Enum:
    __slots__ = ("variant", "f", "ty")

    def __init__(self, variant, fields=(), ty=""):
        self.variant = variant
        self.f = list(fields)
        self.ty = ty

    def __repr__(self):
        return f"{self.variant}({', '.join(map(repr, self.f))})"


class Ref:
    """reference to a cell: container (list or dict) + key"""
    __slots__ = ("c", "k")

    def __init__(self, c, k):
        self.c = c
        self.k = k

    def load(self):
        return self.c[self.k]

    def store(self, v):
        self.c[self.k] = v

    def __repr__(self):
        return f"&{self.c[self.k]!r}"


class Buffer:
    """a heap byte buffer (Box<[u8]> / Vec<u8> contents) or the input file"""
    _n = 0

    def __init__(self, length, kind, fstart=None, label=""):
        Buffer._n += 1
        self.id = Buffer._n
        self.len = length       # z3 BV64
        self.kind = kind        # 'file' | 'zeros' | 'fileslice' | 'arbitrary'
        self.fstart = fstart    # z3 BV64: file position of byte 0 when kind == 'fileslice' / 'file'(0)
        self.label = label

    def __repr__(self):
        return f"Buf#{self.id}[{self.kind} {self.label}]"


class Slice:
    """&[u8] view: buffer + start + len (z3 BV64)"""
    __slots__ = ("buf", "start", "len")

    def __init__(self, buf, start, length):
        self.buf = buf
        self.start = start
        self.len = length

    def file_pos(self):
        """absolute file position of the first byte (None if not file-backed)"""
        if self.buf.kind in ("file", "fileslice"):
            return self.buf.fstart + self.start
        return None

    def __repr__(self):
        return f"Slice({self.buf!r}, {z3.simplify(self.start)}, {z3.simplify(self.len)})"


class Opaque:
    def __init__(self, label, data=None):
        self.label = label
        self.data = data

    def __repr__(self):
        return f"<{self.label}>"


UNIT = Agg([], "()")

VARIANT_INDEX = {
    "Ok": 0, "Err": 1, "None": 0, "Some": 1, "Continue": 0, "Break": 1,
    "ELF32": 0, "ELF64": 1, "Little": 0, "Big": 1, "Start": 0, "End": 1, "Current": 2,
    "GnuAbiTag": 0, "GnuBuildId": 1, "Unknown": 2,
}
PARSE_ERROR_VARIANTS = ["BadMagic", "UnsupportedElfClass", "UnsupportedElfEndianness", "UnsupportedVersion", "BadOffset",
                        "StringTableMissingNul", "BadEntsize", "UnexpectedSectionType", "UnexpectedSegmentType",
                        "UnexpectedAlignment", "SliceReadError", "IntegerOverflow", "Utf8Error", "TryFromSliceError",
                        "TryFromIntError", "IOError"]
for _i, _v in enumerate(PARSE_ERROR_VARIANTS):
    VARIANT_INDEX[_v] = _i


class Infeasible(Exception):
    pass


class PathEnd(Exception):
    """path terminated abnormally (panic)"""

    def __init__(self, kind, msg):
        self.kind = kind
        self.msg = msg


class Unsupported(Exception):
    pass


INT_TYPES = {"u8": (8, False), "u16": (16, False), "u32": (32, False), "u64": (64, False), "usize": (64, False),
             "i8": (8, True), "i16": (16, True), "i32": (32, True), "i64": (64, True), "isize": (64, True),
             "u128": (128, False), "i128": (128, True)}


def bv(v, w=64):
    return z3.BitVecVal(v, w)


class Ctx:
    """one path execution: decision prefix, path condition, event trace"""

    def __init__(self, prog, decisions, solver, stats, tag="p"):
        self.prog = prog
        self.tag = tag
        self.decisions = list(decisions)
        self.taken = []          # decisions actually taken
        self.alts = []           # sibling prefixes discovered
        self.pc = []             # list of z3 Bool
        self.events = []         # trace
        self.solver = solver
        self.stats = stats
        self.steps = 0
        self.env = {}            # model state shared by summaries (reader, map, ...)
        self.fresh_n = 0

    def fresh(self, name, w=64):
        self.fresh_n += 1
        return z3.BitVec(f"{self.tag}.{name}!{self.fresh_n}", w)

    def fresh_bool(self, name):
        self.fresh_n += 1
        return z3.Bool(f"{self.tag}.{name}!{self.fresh_n}")

    def feasible(self, extra=None):
        self.stats["queries"] += 1
        cs = self.pc + ([extra] if extra is not None else [])
        r = self.solver.check(*cs)
        if r == z3.unknown:
            raise Unsupported("solver returned unknown in a feasibility check")
        return r == z3.sat

    def assume(self, c):
        c = z3.simplify(c)
        if z3.is_false(c):
            raise Infeasible()
        if not z3.is_true(c):
            self.pc.append(c)

    def choose(self, options):
        """options: list of (label, condition or None). Picks per decision prefix among the feasible ones; registers siblings."""
        d = len(self.taken)
        if d < len(self.decisions):
            # replaying a recorded prefix: this alternative was found feasible when it was registered
            pick = self.decisions[d]
            self.taken.append(pick)
            lab, cond = options[pick]
            if cond is not None:
                self.assume(cond)
            return pick
        feas = []
        for i, (lab, cond) in enumerate(options):
            if cond is None:
                feas.append(i)
                continue
            c = z3.simplify(cond)
            if z3.is_false(c):
                continue
            if z3.is_true(c) or self.feasible(c):
                feas.append(i)
        if not feas:
            raise Infeasible()
        d = len(self.taken)
        if d < len(self.decisions):
            pick = self.decisions[d]
            if pick not in feas:
                raise Infeasible()
        else:
            pick = feas[0]
            for o in feas[1:]:
                self.alts.append(self.taken + [o])
        self.taken.append(pick)
        lab, cond = options[pick]
        if cond is not None:
            self.assume(cond)
        return pick

    def event(self, *ev):
        self.events.append(ev)


class Program:
    def __init__(self, fns, consts, src_root):
        self.fns = fns
        self.by_key = {}
        for f in fns:
            self.by_key.setdefault(f.key, []).append(f)
        self.consts = consts
        self.src_root = src_root
        self.summaries = []      # list of (regex, handler)
        self.encoded = set()     # names of crate functions actually executed
        self.summarised = set()

    def find(self, key):
        c = self.by_key.get(key)
        return c[0] if c else None


# ---------------------------------------------------------------------------------------------------------
# place / operand / rvalue evaluation


def find_matching(s, i):
    depth = 0
    for j in range(i, len(s)):
        if s[j] == "(":
            depth += 1
        elif s[j] == ")":
            depth -= 1
            if depth == 0:
                return j
    raise Unsupported("unbalanced: " + s)


class Frame:
    def __init__(self, fn):
        self.fn = fn
        self.locals = {}


def parse_place(s):
    """returns nested tuple AST: ('local', n) | ('deref', p) | ('field', p, idx) | ('downcast', p, variant) | ('index', p, localno)"""
    s = s.strip()
    if s.startswith("("):
        j = find_matching(s, 0)
        inner = s[1:j]
        rest = s[j + 1:]
        if inner.startswith("*"):
            node = ("deref", parse_place(inner[1:]))
        else:
            m = re.match(r"^(.*) as (\w+)$", inner)
            if m and balanced(m.group(1)):
                node = ("downcast", parse_place(m.group(1)), m.group(2))
            else:
                # (P.N: T)
                k = find_field_split(inner)
                if k is None:
                    raise Unsupported("place: " + s)
                pstr, idx = k
                node = ("field", parse_place(pstr), idx)
    else:
        m = re.match(r"^_(\d+)", s)
        if not m:
            raise Unsupported("place: " + s)
        node = ("local", int(m.group(1)))
        rest = s[m.end():]
    while rest:
        m = re.match(r"^\[_(\d+)\]", rest)
        if m:
            node = ("index", node, int(m.group(1)))
            rest = rest[m.end():]
            continue
        m = re.match(r"^\[(\d+) of (\d+)\]", rest)
        if m:
            node = ("constindex", node, int(m.group(1)))
            rest = rest[m.end():]
            continue
        raise Unsupported("place suffix: " + rest)
    return node


def balanced(s):
    d = 0
    for c in s:
        if c == "(":
            d += 1
        elif c == ")":
            d -= 1
            if d < 0:
                return False
    return d == 0


def find_field_split(inner):
    depth = 0
    i = 0
    while i < len(inner):
        c = inner[i]
        if c == "(":
            depth += 1
        elif c == ")":
            depth -= 1
        elif c == "." and depth == 0:
            m = re.match(r"^\.(\d+): ", inner[i:])
            if m:
                return inner[:i], int(m.group(1))
        i += 1
    return None


class Exec:
    def __init__(self, prog, ctx):
        self.prog = prog
        self.ctx = ctx
        self.depth = 0

    # ---- places
    def cell(self, fr, node):
        """resolve a place AST to (container, key)"""
        k = node[0]
        if k == "local":
            return fr.locals, node[1]
        if k == "deref":
            c, key = self.cell(fr, node[1])
            v = c[key]
            if isinstance(v, Ref):
                return v.c, v.k
            if isinstance(v, (Slice, Buffer, Agg, Enum, Opaque)):
                # reference to an aggregate modelled by the object itself
                return [v], 0
            raise Unsupported(f"deref of {v!r}")
        if k == "field":
            c, key = self.cell(fr, node[1])
            v = c[key]
            if isinstance(v, (Agg, Enum)):
                return v.f, node[2]
            raise Unsupported(f"field {node[2]} of {v!r}")
        if k == "downcast":
            c, key = self.cell(fr, node[1])
            v = c[key]
            if isinstance(v, Enum):
                if v.variant != node[2]:
                    raise Unsupported(f"downcast {node[2]} of {v!r}")
                return c, key
            raise Unsupported(f"downcast of {v!r}")
        raise Unsupported(f"place kind {k}")

    def load(self, fr, pstr):
        c, k = self.cell(fr, parse_place(pstr))
        try:
            return c[k]
        except (KeyError, IndexError):
            raise Unsupported(f"read of uninitialised place {pstr} in {fr.fn.path}")

    def store(self, fr, pstr, v):
        c, k = self.cell(fr, parse_place(pstr))
        if isinstance(c, list) and isinstance(k, int) and k >= len(c):
            while len(c) <= k:
                c.append(None)
        c[k] = v

    # ---- operands
    def operand(self, fr, s):
        s = s.strip()
        if s.startswith("copy ") or s.startswith("move "):
            return self.load(fr, s[5:])
        if s.startswith("no_retag "):
            return self.operand(fr, s[9:])
        if s.startswith("const "):
            return self.const(s[6:].strip())
        if re.match(r"^[A-Za-z_<][\w<>:&' ,\[\]]*::\w+$", s):
            # a function item passed as a value (e.g. `.map(StringTable::new)`): called through call_closure
            return Opaque("fnitem", data=s)
        raise Unsupported("operand: " + s)

    def const(self, c):
        if c == "()":
            return UNIT
        if c in ("true", "false"):
            return z3.BoolVal(c == "true")
        m = re.match(r"^(-?\d[\d_]*)_(u8|u16|u32|u64|usize|i8|i16|i32|i64|isize|u128|i128)$", c)
        if m:
            w, sg = INT_TYPES[m.group(2)]
            return IntV(bv(int(m.group(1).replace("_", "")), w), sg)
        if c.startswith('"') or c.startswith("b\""):
            return Opaque("str:" + c)
        if c.startswith("ZeroSized:"):
            return Agg([], "ZeroSized")
        if "promoted[" in c:
            # promoted constants in the bodies we execute are empty arrays / slices (`&[]`)
            return Slice(Buffer(bv(0), "zeros", label="promoted"), bv(0), bv(0))
        m = re.match(r"^(?:\w+::)*(\w+)$", c)
        if m and m.group(1) in self.prog.consts:
            v, ty = self.prog.consts[m.group(1)]
            w, sg = INT_TYPES[ty]
            return IntV(bv(v, w), sg)
        m = re.match(r"^(?:\w+::)*(\w+)::(\w+)$", c)
        if m and m.group(2) in VARIANT_INDEX:
            return Enum(m.group(2), [], m.group(1))
        if c.startswith("ParseError::") or c.startswith("parse::ParseError::"):
            return Enum(c.split("::")[-1], [], "ParseError")
        raise Unsupported("const: " + c)

    # ---- rvalues
    def rvalue(self, fr, s, dest_ty):
        s = s.strip()
        ctx = self.ctx
        if s.startswith("&raw const ") or s.startswith("&raw mut "):
            s2 = s.split(" ", 2)[2]
            return self.make_ref(fr, s2)
        if s.startswith("&mut "):
            return self.make_ref(fr, s[5:])
        if s.startswith("&"):
            return self.make_ref(fr, s[1:])
        m = re.match(r"^discriminant\((.*)\)$", s)
        if m:
            v = self.load(fr, m.group(1))
            if isinstance(v, Enum):
                return IntV(bv(VARIANT_INDEX[v.variant], 64), True)
            raise Unsupported(f"discriminant of {v!r}")
        m = re.match(r"^(\w+)\((.*)\)$", s)
        if m and m.group(1) in BINOPS:
            a, b = mir.split_top(m.group(2))
            return self.binop(m.group(1), self.operand(fr, a), self.operand(fr, b))
        if m and m.group(1) in ("Not", "Neg"):
            a = self.operand(fr, m.group(2))
            if m.group(1) == "Not":
                if isinstance(a, IntV):
                    return IntV(~a.e, a.signed)
                return z3.Not(a)
            return IntV(-a.e, a.signed)
        if m and m.group(1) in ("Len", "PtrMetadata"):
            v = self.operand(fr, m.group(2)) if m.group(1) == "PtrMetadata" else self.load(fr, m.group(2))
            if isinstance(v, Slice):
                return IntV(v.len)
            if isinstance(v, Ref):
                v = v.load()
                if isinstance(v, Slice):
                    return IntV(v.len)
            raise Unsupported(f"Len of {v!r}")
        # casts: "<operand> as <type> (<Kind>)"
        m = re.match(r"^(.*) as (.+?) \((\w+)(?:\(.*\))?\)$", s)
        if m and (m.group(1).startswith(("copy ", "move ", "const "))):
            v = self.operand(fr, m.group(1))
            kind = m.group(3)
            ty = m.group(2)
            if kind == "IntToInt":
                if isinstance(v, Enum):       # fieldless enum as integer
                    v = IntV(bv(VARIANT_INDEX[v.variant], 64), True)
                w, sg = INT_TYPES[ty]
                sw = v.e.size()
                if w == sw:
                    e = v.e
                elif w < sw:
                    e = z3.Extract(w - 1, 0, v.e)
                else:
                    e = z3.SignExt(w - sw, v.e) if v.signed else z3.ZeroExt(w - sw, v.e)
                return IntV(e, sg)
            if kind in ("Transmute", "PtrToPtr", "PointerCoercion"):
                return v
            raise Unsupported("cast kind " + kind)
        if s.startswith(("copy ", "move ", "const ", "no_retag ")):
            return self.operand(fr, s)
        return self.aggregate(fr, s, dest_ty)

    def make_ref(self, fr, pstr):
        node = parse_place(pstr)
        # &(*p) re-borrow: reference to the same target
        if node[0] == "deref":
            c, k = self.cell(fr, node[1])
            v = c[k]
            if isinstance(v, Ref):
                return v
            return v  # Slice / aggregate modelled by object
        c, k = self.cell(fr, node)
        return Ref(c, k)

    def binop(self, op, a, b):
        if op in ("Eq", "Ne") and isinstance(a, Enum) and isinstance(b, Enum):
            r = z3.BoolVal(a.variant == b.variant)
            return r if op == "Eq" else z3.Not(r)
        if isinstance(a, IntV) and isinstance(b, IntV):
            x, y, sg = a.e, b.e, a.signed
            if op == "Eq":
                return x == y
            if op == "Ne":
                return x != y
            if op == "Lt":
                return (x < y) if sg else z3.ULT(x, y)
            if op == "Le":
                return (x <= y) if sg else z3.ULE(x, y)
            if op == "Gt":
                return (x > y) if sg else z3.UGT(x, y)
            if op == "Ge":
                return (x >= y) if sg else z3.UGE(x, y)
            if op in ("Add", "AddUnchecked"):
                return IntV(x + y, sg)
            if op in ("Sub", "SubUnchecked"):
                return IntV(x - y, sg)
            if op == "Mul":
                return IntV(x * y, sg)
            if op == "BitAnd":
                return IntV(x & y, sg)
            if op == "BitOr":
                return IntV(x | y, sg)
            if op == "BitXor":
                return IntV(x ^ y, sg)
            if op == "Shl":
                return IntV(x << adapt(y, x.size()), sg)
            if op == "Shr":
                yy = adapt(y, x.size())
                return IntV((x >> yy) if sg else z3.LShR(x, yy), sg)
            if op == "Div":
                return IntV((x / y) if sg else z3.UDiv(x, y), sg)
            if op == "Rem":
                return IntV(z3.SRem(x, y) if sg else z3.URem(x, y), sg)
            if op in ("AddWithOverflow", "SubWithOverflow", "MulWithOverflow"):
                w = x.size()
                if op == "AddWithOverflow":
                    r = x + y
                    ov = z3.Not(z3.BVAddNoOverflow(x, y, sg)) if not sg else z3.Or(z3.Not(z3.BVAddNoOverflow(x, y, True)), z3.Not(z3.BVAddNoUnderflow(x, y)))
                elif op == "SubWithOverflow":
                    r = x - y
                    ov = z3.Not(z3.BVSubNoUnderflow(x, y, sg)) if not sg else z3.Or(z3.Not(z3.BVSubNoOverflow(x, y)), z3.Not(z3.BVSubNoUnderflow(x, y, True)))
                else:
                    r = x * y
                    ov = z3.Not(z3.BVMulNoOverflow(x, y, sg))
                return Agg([IntV(r, sg), ov], "(int,bool)")
        if isinstance(a, z3.BoolRef) and isinstance(b, z3.BoolRef):
            if op == "Eq":
                return a == b
            if op == "Ne":
                return a != b
            if op == "BitAnd":
                return z3.And(a, b)
            if op == "BitOr":
                return z3.Or(a, b)
        raise Unsupported(f"binop {op} on {a!r}, {b!r}")

    def aggregate(self, fr, s, dest_ty):
        # tuple
        if s.startswith("(") and s.endswith(")") and find_matching(s, 0) == len(s) - 1:
            parts = mir.split_top(s[1:-1])
            return Agg([self.operand(fr, p) for p in parts], "tuple")
        if s.startswith("[") and s.endswith("]"):
            parts = mir.split_top(s[1:-1])
            return Agg([self.operand(fr, p) for p in parts], "array")
        # struct: Path { f: op, ... }
        m = re.match(r"^(.+?) \{ (.*) \}$", s)
        if m:
            name = mir.strip_generics(m.group(1)).split("::")[-1]
            fields = []
            for p in mir.split_top(m.group(2)):
                fm = re.match(r"^(\w+): (.*)$", p)
                fields.append(self.operand(fr, fm.group(2)))
            return Agg(fields, name)
        m = re.match(r"^(.+?) \{\s*\}$", s)
        if m:
            return Agg([], mir.strip_generics(m.group(1)).split("::")[-1])
        # enum variant with payload: Path::Variant(op, ...)
        if s.endswith(")"):
            cal, argstr = split_call(s)
            path = mir.strip_generics(cal)
            var = path.split("::")[-1]
            ops = [self.operand(fr, p) for p in mir.split_top(argstr)]
            if var in VARIANT_INDEX:
                return Enum(var, ops, path)
            return Agg(ops, var)      # tuple struct
        # fieldless variant / unit struct: Path::Variant
        path = mir.strip_generics(s)
        var = path.split("::")[-1]
        if var in VARIANT_INDEX:
            return Enum(var, [], path)
        if re.match(r"^[\w:]+$", path):
            return Agg([], var)
        raise Unsupported("rvalue: " + s)

    # ---- function execution
    def call_fn(self, fn, args):
        fr = Frame(fn)
        for (n, _t), a in zip(fn.params, args):
            fr.locals[n] = a
        self.prog.encoded.add(fn.path)
        self.depth += 1
        if self.depth > 40:
            raise Unsupported("call depth")
        bb = "bb0"
        while True:
            self.ctx.steps += 1
            if self.ctx.steps > 20000:
                raise Unsupported("step budget exceeded (loop?) in " + fn.path)
            stmts, term, cleanup = fn.blocks[bb]
            for st in stmts:
                self.stmt(fr, st)
            nxt = self.terminator(fr, term)
            if nxt is None:
                self.depth -= 1
                return fr.locals.get(0, UNIT)
            bb = nxt

    def stmt(self, fr, st):
        if st.startswith(("StorageLive", "StorageDead", "nop", "FakeRead", "PlaceMention", "Retag", "AscribeUserType", "Coverage", "ConstEvalCounter", "BackwardIncompatibleDropHint")):
            return
        if st.startswith("Deinit(") or st.startswith("set_discriminant") or st.startswith("discriminant("):
            raise Unsupported("stmt: " + st)
        m = re.match(r"^(.+?) = (.*);$", st)
        if not m:
            raise Unsupported("stmt: " + st)
        lhs, rhs = m.group(1), m.group(2)
        dest_ty = ""
        lm = re.match(r"^_(\d+)$", lhs)
        if lm:
            dest_ty = fr.fn.locals.get(int(lm.group(1)), "")
        v = self.rvalue(fr, rhs, dest_ty)
        self.store(fr, lhs, v)

    def terminator(self, fr, t):
        ctx = self.ctx
        if t is None:
            raise Unsupported("missing terminator in " + fr.fn.path)
        if t == "return;":
            return None
        m = re.match(r"^goto -> (bb\d+);$", t)
        if m:
            return m.group(1)
        if t == "unreachable;":
            raise Unsupported("reached `unreachable` in " + fr.fn.path)
        m = re.match(r"^drop\((.*)\) -> \[return: (bb\d+), unwind.*\];$", t)
        if m:
            return m.group(2)
        m = re.match(r"^switchInt\((.*)\) -> \[(.*)\];$", t)
        if m:
            v = self.operand(fr, m.group(1))
            targets = []
            other = None
            for part in m.group(2).split(", "):
                k, bbn = part.split(": ")
                if k == "otherwise":
                    other = bbn
                else:
                    targets.append((int(k), bbn))
            if isinstance(v, z3.BoolRef):
                sv = z3.simplify(v)
                opts = []
                for k, bbn in targets:
                    opts.append((bbn, sv if k != 0 else z3.Not(sv)))
                if other is not None:
                    vals = [k for k, _ in targets]
                    if 0 in vals and 1 not in vals:
                        opts.append((other, sv))
                    elif 1 in vals and 0 not in vals:
                        opts.append((other, z3.Not(sv)))
                i = ctx.choose(opts)
                return opts[i][0]
            if isinstance(v, IntV):
                e = z3.simplify(v.e)
                w = e.size()
                opts = [(bbn, e == bv(k & ((1 << w) - 1), w)) for k, bbn in targets]
                if other is not None:
                    opts.append((other, z3.And([e != bv(k & ((1 << w) - 1), w) for k, _ in targets])))
                i = ctx.choose(opts)
                return opts[i][0]
            raise Unsupported(f"switchInt on {v!r}")
        m = re.match(r"^assert\((!?)(.*?), \"(.*?)\".*\) -> \[success: (bb\d+), unwind.*\];$", t)
        if m:
            c = self.operand(fr, m.group(2))
            if m.group(1) == "!":
                c = z3.Not(c)
            i = ctx.choose([("ok", c), ("panic", z3.Not(c))])
            if i == 1:
                ctx.event("panic", "assert: " + m.group(3), fr.fn.path)
                raise PathEnd("panic", m.group(3))
            return m.group(4)
        m = re.match(r"^(.+?) = (.*) -> \[return: (bb\d+), unwind.*\];$", t)
        if m:
            lhs, calltxt, nxt = m.groups()
            callee, argstr = split_call(calltxt)
            args = [self.operand(fr, a) for a in mir.split_top(argstr)] if argstr.strip() else []
            dest_ty = ""
            lm = re.match(r"^_(\d+)$", lhs)
            if lm:
                dest_ty = fr.fn.locals.get(int(lm.group(1)), "")
            v = self.call(callee, args, dest_ty, fr)
            self.store(fr, lhs, v)
            return nxt
        m = re.match(r"^(.+?) = (.*) -> unwind.*;$", t)
        if m:
            callee, argstr = split_call(m.group(2))
            ctx.event("panic", "diverging call " + callee, fr.fn.path)
            raise PathEnd("panic", callee)
        raise Unsupported("terminator: " + t)

    def call(self, callee, args, dest_ty, fr):
        prog = self.prog
        # generic parameter P of ParsingTable/ParsingIterator bodies: substitute the concrete entry type of the enclosing call
        if "<P as " in callee and getattr(self, "p_stack", None):
            callee = callee.replace("<P as ", f"<{self.p_stack[-1]} as ")
        pm = re.search(r"Parsing(?:Table|Iterator)(?:::)?<'_, E, (\w+)>", callee)
        if pm and pm.group(1) != "P":
            if not hasattr(self, "p_stack"):
                self.p_stack = []
            self.p_stack.append(pm.group(1))
            try:
                return self._call(callee, args, dest_ty, fr)
            finally:
                self.p_stack.pop()
        return self._call(callee, args, dest_ty, fr)

    def _call(self, callee, args, dest_ty, fr):
        prog = self.prog
        norm = mir.strip_generics(callee)
        for rx, h in prog.summaries:
            if rx.search(callee) or rx.search(norm):
                prog.summarised.add(norm)
                return h(self, callee, args, dest_ty)
        key = mir.callee_key(callee)
        fn = prog.find(key)
        if fn is None and key[0] == "Self":
            # trait default method called on Self: resolve through the concrete Self of the enclosing call
            st = getattr(self, "self_ty", None)
            if st:
                fn = prog.find((st, key[1]))
            if fn is None and fr is not None:
                fn = prog.find((fr.fn.key[0], key[1]))
        if fn is None:
            # trait default method (e.g. ParseAt::validate_entsize): definition keyed by trait name
            for (ty, meth), lst in prog.by_key.items():
                if meth == key[1] and ty in ("ParseAt", None) and "ParseAt" in lst[0].path:
                    fn = lst[0]
                    break
        if fn is None:
            raise Unsupported(f"no summary and no MIR body for callee {callee} (key {key})")
        return self.call_fn_generic(fn, args, callee)

    def call_fn_generic(self, fn, args, callee):
        # remember the concrete Self type for trait default methods
        saved = getattr(self, "self_ty", None)
        m = re.match(r"^<(.+) as (.+)>::", callee)
        if m:
            self.self_ty = mir.strip_generics(m.group(1)).split("::")[-1]
        try:
            return self.call_fn(fn, args)
        finally:
            self.self_ty = saved


def split_call(calltxt):
    """'callee(args)' -> (callee, args) using the last balanced parenthesis group"""
    calltxt = calltxt.strip()
    if not calltxt.endswith(")"):
        raise Unsupported("call text: " + calltxt)
    depth = 0
    for j in range(len(calltxt) - 1, -1, -1):
        if calltxt[j] == ")":
            depth += 1
        elif calltxt[j] == "(":
            depth -= 1
            if depth == 0:
                return calltxt[:j], calltxt[j + 1:-1]
    raise Unsupported("call text: " + calltxt)


def adapt(y, w):
    if y.size() == w:
        return y
    if y.size() < w:
        return z3.ZeroExt(w - y.size(), y)
    return z3.Extract(w - 1, 0, y)


BINOPS = {"Eq", "Ne", "Lt", "Le", "Gt", "Ge", "Add", "Sub", "Mul", "BitAnd", "BitOr", "BitXor", "Shl", "Shr", "Div", "Rem",
          "AddWithOverflow", "SubWithOverflow", "MulWithOverflow", "AddUnchecked", "SubUnchecked"}


def explore(prog, run_path, solver, stats, max_paths=2000, tag="p"):
    """run_path(ctx) executes one path and returns a result object; explores all decision prefixes."""
    work = [[]]
    results = []
    while work:
        dec = work.pop()
        ctx = Ctx(prog, dec, solver, stats, tag)
        try:
            r = run_path(ctx)
            status = "ok"
        except Infeasible:
            work.extend(ctx.alts)
            continue
        except PathEnd as pe:
            r = None
            status = "panic:" + pe.msg
        work.extend(ctx.alts)
        stats["paths"] += 1
        results.append(dict(status=status, value=r, pc=ctx.pc, events=ctx.events, env=ctx.env, decisions=ctx.taken))
        if len(results) > max_paths:
            raise Unsupported("too many paths")
    return results
