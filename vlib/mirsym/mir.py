"""Parser for rustc's `-Zunpretty=mir` text (the subset of MIR vocabulary that occurs in the bodies we execute)."""
import re, os


class Fn:
    def __init__(self, header, body):
        self.header = header
        self.body = body
        self.name = None
        self.params = []      # [(local_no, type)]
        self.ret = None
        self.locals = {}      # no -> type
        self.blocks = {}      # 'bbN' -> (stmts, term)  ; cleanup blocks are kept but never executed
        self.key = None       # (TypeName or None, method)
        self.path = None


def split_top(s, sep=","):
    """split on sep at bracket depth 0"""
    out, depth, cur = [], 0, ""
    i = 0
    instr = False
    while i < len(s):
        c = s[i]
        if instr:
            cur += c
            if c == "\\":
                cur += s[i + 1]
                i += 1
            elif c == '"':
                instr = False
        elif c == '"':
            instr = True
            cur += c
        elif c in "([{<":
            # '<' only counts as bracket inside type/path contexts; comparison operators never appear in MIR text
            depth += 1
            cur += c
        elif c in ")]}>":
            if c == ">" and i > 0 and s[i - 1] == "-":   # '->'
                cur += c
            else:
                depth -= 1
                cur += c
        elif c == sep and depth == 0:
            out.append(cur.strip())
            cur = ""
        else:
            cur += c
        i += 1
    if cur.strip():
        out.append(cur.strip())
    return out


def strip_generics(s):
    """remove every ::<...> and <...> group (balanced) from a path"""
    out, depth = "", 0
    i = 0
    while i < len(s):
        c = s[i]
        if c == "<":
            depth += 1
        elif c == ">" and not (i > 0 and s[i - 1] == "-"):
            depth -= 1
        elif depth == 0:
            out += c
        i += 1
    out = out.replace("::::", "::")
    while out.endswith("::"):
        out = out[:-2]
    return out


HEADER_RE = re.compile(r"^fn (.+?)\((.*)\) -> (.+?) \{$")


def parse_functions(text, src_root):
    fns = []
    chunks = re.split(r"\n(?=fn )", text)
    for ch in chunks:
        if not ch.startswith("fn "):
            continue
        lines = ch.split("\n")
        hdr = lines[0]
        m = HEADER_RE.match(hdr)
        if not m:
            continue
        f = Fn(hdr, ch)
        f.path = m.group(1)
        for p in split_top(m.group(2)):
            pm = re.match(r"^(?:mut )?_(\d+): (.*)$", p)
            if pm:
                f.params.append((int(pm.group(1)), pm.group(2)))
        f.ret = m.group(3)
        cur = None
        for ln in lines[1:]:
            if ln == "}":
                break          # end of this fn; promoted constants / allocs printed after it are not part of the body
            s = ln.strip()
            lm = re.match(r"^let (?:mut )?_(\d+): (.*);$", s)
            if lm:
                f.locals[int(lm.group(1))] = lm.group(2)
                continue
            bm = re.match(r"^(bb\d+)( \(cleanup\))?: \{$", s)
            if bm:
                cur = bm.group(1)
                f.blocks[cur] = ([], None, bool(bm.group(2)))
                continue
            if cur is None:
                continue
            if s == "}":
                cur = None
                continue
            if not s or s.startswith("//"):
                continue
            stmts, term, cl = f.blocks[cur]
            # terminators
            if (s.startswith("goto ->") or s.startswith("switchInt(") or s in ("return;", "unreachable;", "resume;")
                    or s.startswith("drop(") or s.startswith("assert(") or "-> [return:" in s or "-> unwind" in s
                    or s.startswith("falseEdge") or s.startswith("falseUnwind") or s.endswith("-> bb0;") and False):
                f.blocks[cur] = (stmts, s, cl)
            else:
                stmts.append(s)
        for n, t in f.params:
            f.locals[n] = t
        f.locals[0] = f.ret
        f.key = fn_key(f.path, src_root)
        fns.append(f)
    return fns


_impl_cache = {}


def impl_type(src_root, file, line):
    k = (file, line)
    if k in _impl_cache:
        return _impl_cache[k]
    res = (None, None)
    try:
        lines = open(os.path.join(src_root, file)).read().split("\n")
        txt = lines[line - 1]
        if txt.lstrip().startswith("#[derive"):
            # derived impl: the item it is attached to follows
            for k in range(line, min(line + 6, len(lines))):
                dm = re.match(r"\s*pub(?:\([\w:]+\))?\s+(?:struct|enum)\s+(\w+)", lines[k])
                if dm:
                    _impl_cache[(file, line)] = (dm.group(1), "derive")
                    return _impl_cache[(file, line)]
        # may span lines; join a few
        j = line
        while "{" not in txt and j < len(lines):
            txt += " " + lines[j]
            j += 1
        txt = strip_generics(txt)
        txt = re.sub(r"&\s*'\w+\s*", "&", txt)
        if re.search(r"for\s+&?(mut )?\[u8\]", txt):
            txt = re.sub(r"for\s+&?(mut )?\[u8\]", "for SliceU8", txt)
        m = re.match(r"\s*impl\s+(?:(\w+(?:::\w+)*)\s+for\s+)?&?(\w+(?:::\w+)*)", txt)
        if m:
            trait = m.group(1).split("::")[-1] if m.group(1) else None
            res = (m.group(2).split("::")[-1], trait)
    except Exception:
        pass
    _impl_cache[k] = res
    return res


def fn_key(path, src_root):
    """(TypeName|None, method) for a definition header path"""
    m = re.search(r"<impl at (src/[\w/]+\.rs):(\d+):\d+: \d+:\d+>::(\w+)$", path)
    if m:
        ty, trait = impl_type(src_root, m.group(1), int(m.group(2)))
        return (ty, m.group(3))
    m = re.search(r"<impl at (src/[\w/]+\.rs):(\d+):\d+: \d+:\d+>::(\w+)::\{closure#(\d+)\}$", path)
    if m:
        return ("closure", f"{m.group(1)}:{m.group(3)}#{m.group(4)}")
    p = strip_generics(path)
    parts = p.split("::")
    if len(parts) >= 2 and parts[-2][:1].isupper():
        return (parts[-2], parts[-1])
    return (None, parts[-1])


def callee_key(callee):
    """(TypeName|None, method) for a call-site callee text"""
    c = callee.strip()
    m = re.match(r"^<(.+) as (.+)>::(\w+)", c)
    if m:
        # <Type as Trait>::method
        ty = strip_generics(m.group(1)).strip()
        ty = re.sub(r"&\s*('\w+\s*)?", "", ty).replace("mut ", "").strip()
        if ty == "[u8]":
            ty = "SliceU8"
        ty = ty.split("::")[-1]
        return (ty, m.group(3))
    p = strip_generics(c)
    parts = p.split("::")
    if len(parts) >= 2:
        return (parts[-2], parts[-1])
    return (None, parts[-1])
