"""Summaries (trusted stubs) for std / leaf callees and the symbolic state model of CachingReader."""
import re
import z3
from .sym import (IntV, Agg, Enum, Ref, Buffer, Slice, Opaque, UNIT, Unsupported, PathEnd, Infeasible, bv, VARIANT_INDEX)

BV64 = z3.BitVecSort(64)
BV128 = z3.BitVecSort(128)


def key128(s, e):
    return z3.Concat(s, e)


def as_slice(v):
    if isinstance(v, Ref):
        v = v.load()
    if isinstance(v, Buffer):
        return Slice(v, bv(0), v.len)
    if isinstance(v, Slice):
        return v
    if isinstance(v, Agg) and v.ty == "Box":
        return as_slice(v.f[0].f[0])
    raise Unsupported(f"not a slice: {v!r}")


class MapModel:
    """HashMap<(usize,usize), Box<[u8]>> as a finite map: symbolic pre-state presence array + concrete list of overrides."""

    def __init__(self, tag, empty=False):
        self.present0 = z3.Array(f"cache_present0", BV128, z3.BoolSort())
        self.empty0 = empty
        self.over = []     # [(s, e, boxAgg)] later entries shadow earlier ones
        self.cleared = False

    def pre_present(self, s, e):
        if self.empty0 or self.cleared:
            return z3.BoolVal(False)
        return z3.Select(self.present0, key128(s, e))


LEN_NAME = "file_len"      # name of the symbol for the input length; the prefix lemma (C18) runs a second execution under another name


def reader_env(ctx, fault_free=False, inv=True):
    env = ctx.env
    env["file_len"] = z3.BitVec(LEN_NAME, 64)
    env["pos"] = z3.BitVec("reader_pos0", 64)
    env["fault_free"] = fault_free
    env["inv"] = inv
    env["io_errors"] = 0
    env["file"] = Buffer(env["file_len"], "file", fstart=bv(0), label="input file")
    return env


def mk_caching_reader(ctx, empty_cache=False):
    env = ctx.env
    m = MapModel(ctx.tag, empty=empty_cache)
    env["map"] = m
    stream_len = z3.BitVec("stream_len", 64)
    env["stream_len"] = stream_len
    if env["inv"]:
        ctx.assume(stream_len == env["file_len"])
    return Agg([Opaque("reader"), IntV(stream_len), m], "CachingReader")


# ---------------------------------------------------------------------------------------------------------
# summaries


def s_try_branch(ex, callee, args, dest_ty):
    v = args[0]
    if not isinstance(v, Enum):
        raise Unsupported(f"Try::branch on {v!r}")
    if v.variant in ("Ok", "Some"):
        return Enum("Continue", [v.f[0]], "ControlFlow")
    if v.variant == "Err":
        return Enum("Break", [Enum("Err", [v.f[0]], "Result<Infallible>")], "ControlFlow")
    if v.variant == "None":
        return Enum("Break", [Enum("None", [], "Option<Infallible>")], "ControlFlow")
    raise Unsupported(f"Try::branch on {v!r}")


def convert_err(e):
    if isinstance(e, Opaque) and e.label.startswith("io::Error"):
        return Enum("IOError", [e], "ParseError")
    if isinstance(e, Opaque) and e.label.startswith("TryFromIntError"):
        return Enum("TryFromIntError", [e], "ParseError")
    return e


def s_from_residual(ex, callee, args, dest_ty):
    r = args[0]
    if isinstance(r, Enum) and r.variant == "Err":
        return Enum("Err", [convert_err(r.f[0])], "Result")
    if isinstance(r, Enum) and r.variant == "None":
        return Enum("None", [], "Option")
    raise Unsupported(f"from_residual on {r!r}")


def s_try_into_usize(ex, callee, args, dest_ty):
    v = args[0]
    e = v.e
    if e.size() < 64:
        e = z3.ZeroExt(64 - e.size(), e)
    # usize is 64 bits: u64 -> usize and u32 -> usize never fail
    return Enum("Ok", [IntV(e)], "Result")


def concretise_if_unique(ex, e):
    """replace a term by its value when the path condition forces a single value (keeps multiplications linear)"""
    e = z3.simplify(e)
    if z3.is_bv_value(e):
        return e
    ctx = ex.ctx
    ctx.stats["queries"] += 1
    if ctx.solver.check(*ctx.pc) != z3.sat:
        return e
    v = ctx.solver.model().eval(e, model_completion=True)
    ctx.stats["queries"] += 1
    if ctx.solver.check(*(ctx.pc + [e != v])) == z3.unsat:
        return v
    return e


def s_checked(op):
    def h(ex, callee, args, dest_ty):
        a, b = args[0].e, args[1].e
        if op == "mul":
            a = concretise_if_unique(ex, a)
            b = concretise_if_unique(ex, b)
        if op == "add":
            no_ov = z3.BVAddNoOverflow(a, b, False)
            r = a + b
        elif op == "mul":
            ca, cb = z3.is_bv_value(a), z3.is_bv_value(b)
            if ca or cb:
                c, o = (a, b) if ca else (b, a)
                cv = c.as_long()
                w = c.size()
                # x*c fits in w bits iff x <= (2^w - 1) / c  (c != 0); exact, and linear for the solver
                no_ov = z3.BoolVal(True) if cv == 0 else z3.ULE(o, bv(((1 << w) - 1) // cv, w))
                r = o * c
            else:
                no_ov = z3.BVMulNoOverflow(a, b, False)
                r = a * b
        else:
            no_ov = z3.BVSubNoUnderflow(a, b, False)
            r = a - b
        i = ex.ctx.choose([("some", no_ov), ("none", z3.Not(no_ov))])
        if i == 0:
            return Enum("Some", [IntV(r)], "Option")
        return Enum("None", [], "Option")
    return h


def s_ok_or(ex, callee, args, dest_ty):
    o, err = args
    if o.variant == "Some":
        return Enum("Ok", [o.f[0]], "Result")
    return Enum("Err", [err], "Result")


def s_expect(ex, callee, args, dest_ty):
    o = args[0]
    if o.variant in ("Some", "Ok"):
        return o.f[0]
    ex.ctx.event("panic", f"{callee} on {o.variant}", "")
    raise PathEnd("panic", f"{callee} on {o.variant}")


def s_is(variant, neg=False):
    def h(ex, callee, args, dest_ty):
        o = args[0]
        if isinstance(o, Ref):
            o = o.load()
        r = (o.variant == variant)
        return z3.BoolVal(r != neg)
    return h


def s_range_len(ex, callee, args, dest_ty):
    r = args[0]
    if isinstance(r, Ref):
        r = r.load()
    s, e = r.f[0].e, r.f[1].e
    return IntV(z3.If(z3.ULE(s, e), e - s, bv(0)))


def s_from_elem(ex, callee, args, dest_ty):
    n = args[1].e
    ex.ctx.event("alloc", n)
    b = Buffer(n, "zeros", label="vec![0; n]")
    return Agg([b], "VecU8")


def s_into_boxed(ex, callee, args, dest_ty):
    v = args[0]
    return Agg([Agg([v.f[0]], "Unique")], "Box")


def io_error(ex, what):
    ex.ctx.env["io_errors"] += 1
    return Opaque(f"io::Error#{ex.ctx.env['io_errors']}({what})")


def s_seek(ex, callee, args, dest_ty):
    env = ex.ctx.env
    sf = args[1]
    ff = env["fault_free"]
    if sf.variant == "Start":
        p = sf.f[0].e
        opts = [("ok", None)] + ([] if ff else [("err", None)])
        i = ex.ctx.choose(opts)
        if i == 0:
            env["pos"] = p
            ex.ctx.event("seek", "start", p, "ok")
            return Enum("Ok", [IntV(p)], "Result")
        env["pos"] = ex.ctx.fresh("pos_after_failed_seek")
        ex.ctx.event("seek", "start", p, "err")
        return Enum("Err", [io_error(ex, "seek")], "Result")
    if sf.variant == "End":
        opts = [("ok", None)] + ([] if ff else [("err", None)])
        i = ex.ctx.choose(opts)
        if i == 0:
            env["pos"] = env["file_len"] + sf.f[0].e
            ex.ctx.event("seek", "end", sf.f[0].e, "ok")
            return Enum("Ok", [IntV(env["pos"])], "Result")
        env["pos"] = ex.ctx.fresh("pos_after_failed_seek")
        ex.ctx.event("seek", "end", sf.f[0].e, "err")
        return Enum("Err", [io_error(ex, "seek")], "Result")
    raise Unsupported("seek " + sf.variant)


def s_read_exact(ex, callee, args, dest_ty):
    """std contract: Ok(()) iff the stream holds len more bytes at the current position (then buf == file[pos..pos+len]);
    any error (incl. UnexpectedEof, after short reads / Interrupted retries inside read_exact) leaves buf unspecified."""
    env = ex.ctx.env
    sl = as_slice(args[1])
    if not (z3.is_bv_value(z3.simplify(sl.start)) and z3.simplify(sl.start).as_long() == 0):
        raise Unsupported("read_exact into a sub-slice")
    buf = sl.buf
    n = sl.len
    pos = env["pos"]
    fl = env["file_len"]
    fits = z3.And(z3.ULE(pos, fl), z3.ULE(n, fl - pos))
    if env["fault_free"]:
        opts = [("ok", fits), ("eof", z3.Not(fits))]
    else:
        opts = [("ok", fits), ("err", None)]
    i = ex.ctx.choose(opts)
    if i == 0:
        buf.kind = "fileslice"
        buf.fstart = pos
        env["pos"] = pos + n
        ex.ctx.event("read_exact", buf.id, pos, n, "ok")
        return Enum("Ok", [UNIT], "Result")
    buf.kind = "arbitrary"
    env["pos"] = ex.ctx.fresh("pos_after_failed_read")
    ex.ctx.event("read_exact", buf.id, pos, n, "err")
    return Enum("Err", [io_error(ex, "read_exact")], "Result")


def s_read_other(ex, callee, args, dest_ty):
    raise Unsupported("the stream parser calls a Read method other than read_exact (" + callee + "): no contract summary; "
                      "short reads would have to be handled by the caller")


def _tuple_key(v):
    if isinstance(v, Ref):
        v = v.load()
    return v.f[0].e, v.f[1].e


def s_map_default(ex, callee, args, dest_ty):
    m = MapModel(ex.ctx.tag, empty=True)
    ex.ctx.env["map"] = m
    return m


def _map_lookup(ex, m, s, e):
    """fork over: which override matches (latest first) / pre-state entry / miss. Returns box Agg or None."""
    opts = []
    not_prev = []
    for (os_, oe, box) in reversed(m.over):
        c = z3.And(s == os_, e == oe, *not_prev)
        opts.append((("over", box), c))
        not_prev.append(z3.Not(z3.And(s == os_, e == oe)))
    pre = m.pre_present(s, e)
    opts.append((("pre", None), z3.And(pre, *not_prev)))
    opts.append((("miss", None), z3.And(z3.Not(pre), *not_prev)))
    i = ex.ctx.choose([(str(k[0]), c) for k, c in opts])
    kind, box = opts[i][0]
    if kind == "over":
        return box
    if kind == "pre":
        if ex.ctx.env["inv"]:
            # representation invariant of the cache: an entry (s,e) holds file[s..e], s <= e <= file_len
            ex.ctx.assume(z3.And(z3.ULE(s, e), z3.ULE(e, ex.ctx.env["file_len"])))
            b = Buffer(e - s, "fileslice", fstart=s, label="cached (pre-state, Inv)")
        else:
            b = Buffer(ex.ctx.fresh("cached_len"), "arbitrary", label="cached (pre-state, no Inv)")
        return Agg([Agg([b], "Unique")], "Box")
    return None


def s_map_contains(ex, callee, args, dest_ty):
    m = args[0].load() if isinstance(args[0], Ref) else args[0]
    s, e = _tuple_key(args[1])
    box = _map_lookup(ex, m, s, e)
    ex.ctx.event("map_contains", s, e, box is not None)
    return z3.BoolVal(box is not None)


def s_map_get(ex, callee, args, dest_ty):
    m = args[0].load() if isinstance(args[0], Ref) else args[0]
    s, e = _tuple_key(args[1])
    box = _map_lookup(ex, m, s, e)
    ex.ctx.event("map_get", s, e, box is not None)
    if box is None:
        return Enum("None", [], "Option")
    return Enum("Some", [Ref([box], 0)], "Option")


def s_map_insert(ex, callee, args, dest_ty):
    m = args[0].load() if isinstance(args[0], Ref) else args[0]
    k = args[1]
    s, e = k.f[0].e, k.f[1].e
    box = args[2]
    m.over.append((s, e, box))
    ex.ctx.event("map_insert", s, e, box.f[0].f[0])
    return Enum("None", [], "Option")


def s_map_clear(ex, callee, args, dest_ty):
    m = args[0].load() if isinstance(args[0], Ref) else args[0]
    m.over = []
    m.cleared = True
    ex.ctx.event("map_clear")
    return UNIT


def s_slice_get_range(ex, callee, args, dest_ty):
    """<[u8]>::get(Range / RangeFrom): Some(sub-slice) iff in bounds."""
    sl = as_slice(args[0])
    r = args[1]
    if r.ty == "Range":
        s, e = r.f[0].e, r.f[1].e
        ok = z3.And(z3.ULE(s, e), z3.ULE(e, sl.len))
    elif r.ty == "RangeFrom":
        s = r.f[0].e
        e = sl.len
        ok = z3.ULE(s, sl.len)
    elif r.ty == "RangeTo":
        s = bv(0)
        e = r.f[0].e
        ok = z3.ULE(e, sl.len)
    else:
        raise Unsupported("slice get with " + r.ty)
    i = ex.ctx.choose([("some", ok), ("none", z3.Not(ok))])
    if sl.buf.kind == "file":
        ex.ctx.event("slice", s, e, i == 0)
    if i == 0:
        return Enum("Some", [Slice(sl.buf, sl.start + s, e - s)], "Option")
    return Enum("None", [], "Option")


# ---- uninterpreted leaf parsers (their contracts are what engine A proves in C02/C10)
def F(name, *sorts):
    return z3.Function(name, *sorts)


CLASS_SIZES = {"SectionHeader": (40, 64), "ProgramHeader": (32, 56), "CompressionHeader": (12, 24), "SysVHashHeader": (8, 8),
               "GnuHashHeader": (16, 16), "Symbol": (16, 24), "Dyn": (8, 16), "VersionIndex": (2, 2)}
PHDR_FIELDS = [("p_type", 32), ("p_offset", 64), ("p_vaddr", 64), ("p_paddr", 64), ("p_filesz", 64), ("p_memsz", 64),
               ("p_flags", 32), ("p_align", 64)]
SYSV_FIELDS = [("nbucket", 32), ("nchain", 32)]
GNUH_FIELDS = [("nbucket", 32), ("table_start_idx", 32), ("nbloom", 32), ("nshift", 32)]
FIELDS_OF = {}
SHDR_FIELDS = [("sh_name", 32), ("sh_type", 32), ("sh_flags", 64), ("sh_addr", 64), ("sh_offset", 64), ("sh_size", 64),
               ("sh_link", 32), ("sh_info", 32), ("sh_addralign", 64), ("sh_entsize", 64)]
CHDR_FIELDS = [("ch_type", 32), ("ch_size", 64), ("ch_addralign", 64)]
EHDR_FIELDS = [("version", 32), ("osabi", 8), ("abiversion", 8), ("e_type", 16), ("e_machine", 16), ("e_entry", 64),
               ("e_phoff", 64), ("e_shoff", 64), ("e_flags", 32), ("e_ehsize", 16), ("e_phentsize", 16), ("e_phnum", 16),
               ("e_shentsize", 16), ("e_shnum", 16), ("e_shstrndx", 16)]


def class_index(c):
    if isinstance(c, Ref):
        c = c.load()
    if isinstance(c, Enum):
        return VARIANT_INDEX[c.variant]
    raise Unsupported(f"class {c!r}")


def s_parse_at(tyname, fields):
    def h(ex, callee, args, dest_ty):
        endian, cls, offref, data = args
        ci = class_index(cls)
        size = CLASS_SIZES[tyname][ci]
        sl = as_slice(data)
        off = offref.load().e
        fits = z3.And(z3.ULE(off, sl.len), z3.ULE(bv(size), sl.len - off))
        i = ex.ctx.choose([("ok", fits), ("err", z3.Not(fits))])
        if i == 1:
            return Enum("Err", [Enum("SliceReadError", [Agg([IntV(off), IntV(off + size)])], "ParseError")], "Result")
        fp = sl.file_pos()
        if fp is None:
            raise Unsupported(f"{tyname}::parse_at on bytes that are not file-backed ({sl!r})")
        absf = fp + off
        offref.store(IntV(off + size))
        return Enum("Ok", [record_at(tyname, fields, ci, absf)], "Result")
    return h


# gABI layouts (byte offset, on-disk width) per class, in the crate's field order; engine A (C02) decides that the real
# parsers implement exactly these layouts, so struct-level summaries may be phrased over the read-level primitive rd().
LAYOUT = {
    "SectionHeader": ([(0, 32), (4, 32), (8, 32), (12, 32), (16, 32), (20, 32), (24, 32), (28, 32), (32, 32), (36, 32)],
                      [(0, 32), (4, 32), (8, 64), (16, 64), (24, 64), (32, 64), (40, 32), (44, 32), (48, 64), (56, 64)]),
    "ProgramHeader": ([(0, 32), (4, 32), (8, 32), (12, 32), (16, 32), (20, 32), (24, 32), (28, 32)],
                      [(0, 32), (8, 64), (16, 64), (24, 64), (32, 64), (40, 64), (4, 32), (48, 64)]),
    "CompressionHeader": ([(0, 32), (4, 32), (8, 32)], [(0, 32), (8, 64), (16, 64)]),
    "SysVHashHeader": ([(0, 32), (4, 32)], [(0, 32), (4, 32)]),
    "GnuHashHeader": ([(0, 32), (4, 32), (8, 32), (12, 32)], [(0, 32), (4, 32), (8, 32), (12, 32)]),
}


def rd(w, absf, signed=False):
    """the w-bit integer the file holds at absolute position absf (in the file's byte order): uninterpreted"""
    return F(f"file_{'i' if signed else 'u'}{w}_at", BV64, z3.BitVecSort(w))(absf)


def field_term(tyname, idx, ci, absf, dest_w):
    off, w = LAYOUT[tyname][ci][idx]
    t = rd(w, absf + off)
    if w < dest_w:
        t = z3.ZeroExt(dest_w - w, t)
    return t


def record_at(tyname, fields, ci, absf):
    vals = []
    for i, (fname, w) in enumerate(fields):
        vals.append(IntV(field_term(tyname, i, ci, absf, w)))
    return Agg(vals, tyname)


def s_parse_int(w, signed):
    def h(ex, callee, args, dest_ty):
        endian, offref, data = args
        sl = as_slice(data)
        off = offref.load().e
        n = w // 8
        fits = z3.And(z3.ULE(off, sl.len), z3.ULE(bv(n), sl.len - off))
        i = ex.ctx.choose([("ok", fits), ("err", z3.Not(fits))])
        if i == 1:
            return Enum("Err", [Enum("SliceReadError", [Agg([IntV(off), IntV(off + n)])], "ParseError")], "Result")
        fp = sl.file_pos()
        if fp is None:
            raise Unsupported("integer read from bytes that are not file-backed")
        offref.store(IntV(off + n))
        return Enum("Ok", [IntV(rd(w, fp + off, False), signed)], "Result")
    return h


def closure_fn(prog, text):
    m = re.search(r"\{closure@[^}]*\}", text)
    if not m:
        raise Unsupported("no closure in " + text)
    tag = m.group(0)
    for f in prog.fns:
        if "{closure#" in f.path and f.params and tag in f.params[0][1]:
            return f
    raise Unsupported("closure body not found: " + tag)


class VecIter:
    """std::slice::Iter over a Collected vec"""

    def __init__(self, vec):
        self.vec = vec
        self.idx = 0


def vec_len(v):
    if v.tyname == "empty":
        return bv(0)
    return z3.UDiv(v.sl.len, bv(CLASS_SIZES[v.tyname][class_index(v.cls)]))


def vec_elem(ex, v, i):
    """element i (z3 BV64) of a Collected vec: the ABI record at sl.file_pos + i*entsize"""
    ci = class_index(v.cls)
    es = CLASS_SIZES[v.tyname][ci]
    fields = {"SectionHeader": SHDR_FIELDS, "ProgramHeader": PHDR_FIELDS}[v.tyname]
    return record_at(v.tyname, fields, ci, v.sl.file_pos() + i * es)


def iter_next(ex, it_ref):
    it = it_ref.load() if isinstance(it_ref, Ref) else it_ref
    if isinstance(it, VecIter):
        n = vec_len(it.vec)
        k = ex.ctx.choose([("some", z3.ULT(bv(it.idx), n)), ("none", z3.UGE(bv(it.idx), n))])
        if k == 1:
            return Enum("None", [], "Option")
        e = vec_elem(ex, it.vec, bv(it.idx))
        it.idx += 1
        return Enum("Some", [Ref([e], 0)], "Option")
    if isinstance(it, Agg) and it.ty == "ParsingIterator":
        fn = ex.prog.find(("ParsingIterator", "next"))
        return ex.call_fn(fn, [it_ref])
    raise Unsupported(f"next on {it!r}")


def s_iter_next(ex, callee, args, dest_ty):
    return iter_next(ex, args[0])


def s_iter_find(ex, callee, args, dest_ty):
    it_ref, clos = args
    cf = closure_fn(ex.prog, callee)
    for _ in range(8):
        o = iter_next(ex, it_ref)
        if o.variant == "None":
            return o
        item = o.f[0]
        # closure takes &Item (for slice::Iter the item is itself a reference)
        arg = item if isinstance(item, Ref) and "&&" in cf.params[1][1] else item
        if "&&" in cf.params[1][1]:
            arg = Ref([item], 0)
        elif not isinstance(item, Ref):
            arg = Ref([item], 0)
        r = ex.call_fn(cf, [Ref([clos], 0), arg])
        k = ex.ctx.choose([("match", r), ("skip", z3.Not(r))])
        if k == 0:
            return Enum("Some", [item], "Option")
    raise Unsupported("Iterator::find: more than 8 items (table bound missing)")


def s_identity(ex, callee, args, dest_ty):
    return args[0]


def s_u8slice_is_empty(ex, callee, args, dest_ty):
    sl = as_slice(args[0])
    k = ex.ctx.choose([("empty", sl.len == 0), ("nonempty", sl.len != 0)])
    return z3.BoolVal(k == 0)


def s_vec_is_empty(ex, callee, args, dest_ty):
    v = args[0].load() if isinstance(args[0], Ref) else args[0]
    n = vec_len(v)
    k = ex.ctx.choose([("empty", n == 0), ("nonempty", n != 0)])
    return z3.BoolVal(k == 0)


def s_vec_deref(ex, callee, args, dest_ty):
    return args[0].load() if isinstance(args[0], Ref) else args[0]


def s_tslice_iter(ex, callee, args, dest_ty):
    v = args[0].load() if isinstance(args[0], Ref) else args[0]
    return VecIter(v)


def s_tslice_get(ex, callee, args, dest_ty):
    v = args[0].load() if isinstance(args[0], Ref) else args[0]
    i = args[1].e
    n = vec_len(v)
    k = ex.ctx.choose([("some", z3.ULT(i, n)), ("none", z3.UGE(i, n))])
    if k == 1:
        return Enum("None", [], "Option")
    return Enum("Some", [Ref([vec_elem(ex, v, i)], 0)], "Option")


def s_tslice_first(ex, callee, args, dest_ty):
    v = args[0].load() if isinstance(args[0], Ref) else args[0]
    n = vec_len(v)
    k = ex.ctx.choose([("some", n != 0), ("none", n == 0)])
    if k == 1:
        return Enum("None", [], "Option")
    return Enum("Some", [Ref([vec_elem(ex, v, bv(0))], 0)], "Option")


def s_vec_len(ex, callee, args, dest_ty):
    v = args[0].load() if isinstance(args[0], Ref) else args[0]
    return IntV(vec_len(v))


def s_vec_index(ex, callee, args, dest_ty):
    v = args[0].load() if isinstance(args[0], Ref) else args[0]
    i = args[1].e
    n = vec_len(v)
    k = ex.ctx.choose([("ok", z3.ULT(i, n)), ("oob", z3.UGE(i, n))])
    if k == 1:
        ex.ctx.event("panic", "index out of bounds on Vec", callee)
        raise PathEnd("panic", "Vec index out of bounds")
    return Ref([vec_elem(ex, v, i)], 0)


def s_result_ok(ex, callee, args, dest_ty):
    r = args[0]
    if r.variant == "Ok":
        return Enum("Some", [r.f[0]], "Option")
    return Enum("None", [], "Option")


def s_size_of(ex, callee, args, dest_ty):
    m = re.search(r"size_of::<(\w+)>", callee)
    sizes = {"u8": 1, "u16": 2, "u32": 4, "u64": 8, "usize": 8, "i32": 4, "i64": 8}
    if not m or m.group(1) not in sizes:
        raise Unsupported("size_of " + callee)
    return IntV(bv(sizes[m.group(1)]))


def call_closure(ex, callee, clos, cargs):
    if isinstance(clos, Opaque) and clos.label == "fnitem":
        return ex.call(clos.data, list(cargs), "", None)
    cf = closure_fn(ex.prog, callee)
    first = cf.params[0][1]
    env = clos if not first.startswith("&") else Ref([clos], 0)
    return ex.call_fn(cf, [env] + list(cargs))


def s_opt_or(ex, callee, args, dest_ty):
    a, b = args
    return a if a.variant == "Some" else b


def s_opt_and(ex, callee, args, dest_ty):
    a, b = args
    return b if a.variant == "Some" else Enum("None", [], "Option")


def s_opt_map(ex, callee, args, dest_ty):
    o, clos = args
    if o.variant in ("None",):
        return o
    if o.variant == "Err":
        return o
    r = call_closure(ex, callee, clos, [o.f[0]])
    return Enum(o.variant, [r], o.ty)


def s_res_map_err(ex, callee, args, dest_ty):
    o, clos = args
    if o.variant == "Ok":
        return o
    r = call_closure(ex, callee, clos, [o.f[0]])
    return Enum("Err", [r], "Result")


def s_and_then(ex, callee, args, dest_ty):
    o, clos = args
    if o.variant in ("None", "Err"):
        return o
    return call_closure(ex, callee, clos, [o.f[0]])


def s_or_else(ex, callee, args, dest_ty):
    o, clos = args
    if o.variant in ("Some", "Ok"):
        return o
    return call_closure(ex, callee, clos, [] if o.variant == "None" else [o.f[0]])


def s_ok_or_else(ex, callee, args, dest_ty):
    o, clos = args
    if o.variant == "Some":
        return Enum("Ok", [o.f[0]], "Result")
    return Enum("Err", [call_closure(ex, callee, clos, [])], "Result")


def s_unwrap_or(ex, callee, args, dest_ty):
    o, d = args
    return o.f[0] if o.variant in ("Some", "Ok") else d


def s_unwrap_or_else(ex, callee, args, dest_ty):
    o, clos = args
    if o.variant in ("Some", "Ok"):
        return o.f[0]
    return call_closure(ex, callee, clos, [] if o.variant == "None" else [o.f[0]])


def s_opt_as_ref(ex, callee, args, dest_ty):
    o = args[0].load() if isinstance(args[0], Ref) else args[0]
    if o.variant == "None":
        return o
    return Enum(o.variant, [Ref(o.f, 0)], o.ty)


def s_opt_copied(ex, callee, args, dest_ty):
    o = args[0]
    if o.variant == "None":
        return o
    v = o.f[0]
    return Enum("Some", [v.load() if isinstance(v, Ref) else v], o.ty)


def s_opt_take(ex, callee, args, dest_ty):
    r = args[0]
    o = r.load()
    r.store(Enum("None", [], "Option"))
    return o


def s_minmax(which):
    def h(ex, callee, args, dest_ty):
        a, b = args[0], args[1]
        if isinstance(a, Ref):
            a = a.load()
        if isinstance(b, Ref):
            b = b.load()
        lt = (a.e < b.e) if a.signed else z3.ULT(a.e, b.e)
        if which == "min":
            return IntV(z3.If(lt, a.e, b.e), a.signed)
        return IntV(z3.If(lt, b.e, a.e), a.signed)
    return h


def s_intop(op):
    def h(ex, callee, args, dest_ty):
        a = args[0]
        b = args[1] if len(args) > 1 else None
        x = a.e
        y = b.e if b is not None else None
        if op == "saturating_sub":
            return IntV(z3.If(z3.ULT(x, y), bv(0, x.size()), x - y), a.signed)
        if op == "saturating_add":
            return IntV(z3.If(z3.BVAddNoOverflow(x, y, False), x + y, bv((1 << x.size()) - 1, x.size())), a.signed)
        if op == "wrapping_add":
            return IntV(x + y, a.signed)
        if op == "wrapping_sub":
            return IntV(x - y, a.signed)
        if op == "wrapping_mul":
            return IntV(x * y, a.signed)
        if op == "is_power_of_two":
            return z3.And(x != 0, (x & (x - 1)) == 0)
        if op == "trailing_zeros":
            w = x.size()
            r = bv(w, 32)
            for i in range(w - 1, -1, -1):
                r = z3.If(z3.Extract(i, i, x) == 1, bv(i, 32), r)
            return IntV(r)
        if op == "count_ones":
            w = x.size()
            return IntV(z3.Sum([z3.ZeroExt(31, z3.Extract(i, i, x)) for i in range(w)]))
        raise Unsupported("int op " + op)
    return h


def s_vec_with_capacity(ex, callee, args, dest_ty):
    m = re.search(r"Vec::<(\w+)>::with_capacity", callee)
    ty = m.group(1) if m else "u8"
    elem = {"u8": 1, "SectionHeader": 64, "ProgramHeader": 56}.get(ty, 8)
    n = args[0].e
    # one allocation of n * size_of::<T>() bytes (capacity overflow panics)
    ok = z3.ULE(n, bv(((1 << 63) - 1) // elem))
    k = ex.ctx.choose([("ok", ok), ("capacity overflow", z3.Not(ok))])
    if k == 1:
        ex.ctx.event("panic", "capacity overflow", callee)
        raise PathEnd("panic", "capacity overflow in Vec::with_capacity")
    ex.ctx.event("alloc", n * elem)
    if ty == "u8":
        return Agg([Buffer(n, "zeros", label="Vec::with_capacity")], "VecU8")
    return Collected("empty", Slice(Buffer(bv(0), "zeros"), bv(0), bv(0)), None, None)


def s_vec_extend(ex, callee, args, dest_ty):
    vref, it = args
    v = vref.load() if isinstance(vref, Ref) else vref
    if isinstance(it, Agg) and it.ty == "ParsingIterator" and isinstance(v, Collected) and v.tyname == "empty":
        m = re.search(r"ParsingIterator<'_, E, (\w+)>", callee)
        ty = m.group(1) if m else "?"
        nv = Collected(ty, as_slice(it.f[2]), it.f[1], it.f[0])
        if isinstance(vref, Ref):
            vref.store(nv)
        return UNIT
    raise Unsupported("Vec::extend in this form")


def s_slice_len(ex, callee, args, dest_ty):
    return IntV(as_slice(args[0]).len)


def s_slice_index_range(ex, callee, args, dest_ty):
    sl = as_slice(args[0])
    r = args[1]
    if r.ty == "Range":
        s_, e_ = r.f[0].e, r.f[1].e
    elif r.ty == "RangeFrom":
        s_, e_ = r.f[0].e, sl.len
    elif r.ty == "RangeTo":
        s_, e_ = bv(0), r.f[0].e
    else:
        raise Unsupported("slice index with " + r.ty)
    ok = z3.And(z3.ULE(s_, e_), z3.ULE(e_, sl.len))
    k = ex.ctx.choose([("ok", ok), ("oob", z3.Not(ok))])
    if k == 1:
        ex.ctx.event("panic", "slice index out of range", callee)
        raise PathEnd("panic", "slice index out of range")
    return Slice(sl.buf, sl.start + s_, e_ - s_)


class StrVal:
    """an abstract &str: either the caller's query or the string a StringTable holds at (abs position, table end)"""

    def __init__(self, ident):
        self.ident = ident     # z3 BV64 term identifying the string's content

    def __repr__(self):
        return f"Str({z3.simplify(self.ident)})"


def s_strtab_get(ex, callee, args, dest_ty):
    """StringTable::get(offset): contract decided by engine A (C15): Ok(the NUL-terminated string at offset, if valid UTF-8) or Err;
    content and validity are uninterpreted functions of where the bytes are (absolute position, end of the table)"""
    st = args[0].load() if isinstance(args[0], Ref) else args[0]
    sl = as_slice(st.f[0])
    off = args[1].e
    fp = sl.file_pos()
    if fp is None:
        raise Unsupported("StringTable::get on non file-backed bytes")
    inside = z3.ULT(off, sl.len)
    absf = fp + off
    end = fp + sl.len
    okf = F("strtab_entry_is_terminated_utf8", BV64, BV64, z3.BoolSort())
    k = ex.ctx.choose([("ok", z3.And(inside, okf(absf, end))), ("err", z3.Not(z3.And(inside, okf(absf, end))))])
    if k == 1:
        return Enum("Err", [Enum("BadOffset", [IntV(off)], "ParseError")], "Result")
    return Enum("Ok", [StrVal(F("strtab_entry_content", BV64, BV64, BV64)(absf, end))], "Result")


def s_str_eq(ex, callee, args, dest_ty):
    def val(v):
        while isinstance(v, Ref):
            v = v.load()
        return v
    a, b = val(args[0]), val(args[1])
    if isinstance(a, StrVal) and isinstance(b, StrVal):
        return a.ident == b.ident
    raise Unsupported(f"str eq on {a!r}, {b!r}")


def s_default_none(ex, callee, args, dest_ty):
    return Enum("None", [], "Option")


def s_parse_ident(ex, callee, args, dest_ty):
    sl = as_slice(args[0])
    fp = sl.file_pos()
    if fp is None:
        raise Unsupported("parse_ident on non file-backed bytes")
    # contract (engine A, C10/C01): Err if fewer than 16 bytes; otherwise a function of the 16 bytes
    short = z3.ULT(sl.len, bv(16))
    okf = F("ident_ok", BV64, z3.BitVecSort(8))
    is32 = F("ident_is_elf32", BV64, z3.BitVecSort(8))
    i = ex.ctx.choose([("short", short), ("ok32", z3.And(z3.Not(short), okf(fp) == 1, is32(fp) == 1)),
                       ("ok64", z3.And(z3.Not(short), okf(fp) == 1, is32(fp) != 1)), ("bad", z3.And(z3.Not(short), okf(fp) != 1))])
    if i in (0, 3):
        return Enum("Err", [Enum("BadMagic", [Opaque("ident error")], "ParseError")], "Result")
    cls = Enum("ELF32" if i == 1 else "ELF64", [], "Class")
    e = Opaque("endian", data=("ident", fp))
    osabi = IntV(F("ident_osabi", BV64, z3.BitVecSort(8))(fp))
    abiv = IntV(F("ident_abiversion", BV64, z3.BitVecSort(8))(fp))
    ex.ctx.event("parse_ident", fp, sl.len)
    return Enum("Ok", [Agg([e, cls, osabi, abiv], "tuple")], "Result")


def s_parse_tail(ex, callee, args, dest_ty):
    ident, data = args
    sl = as_slice(data)
    fp = sl.file_pos()
    if fp is None:
        raise Unsupported("parse_tail on non file-backed bytes")
    ci = class_index(ident.f[1])
    size = (36, 48)[ci]
    fits = z3.UGE(sl.len, bv(size))
    i = ex.ctx.choose([("ok", fits), ("err", z3.Not(fits))])
    if i == 1:
        return Enum("Err", [Enum("SliceReadError", [Opaque("tail")], "ParseError")], "Result")
    vals = {}
    for (fname, w) in EHDR_FIELDS:
        if fname in ("osabi", "abiversion"):
            continue
        vals[fname] = IntV(F(f"ehdr.{fname}@{'32' if ci == 0 else '64'}", BV64, z3.BitVecSort(w))(fp))
    ex.ctx.event("parse_tail", fp, sl.len)
    hdr = Agg([ident.f[1], ident.f[0], vals["version"], ident.f[2], ident.f[3], vals["e_type"], vals["e_machine"],
                            vals["e_entry"], vals["e_phoff"], vals["e_shoff"], vals["e_flags"], vals["e_ehsize"],
                vals["e_phentsize"], vals["e_phnum"], vals["e_shentsize"], vals["e_shnum"], vals["e_shstrndx"]], "FileHeader")
    ex.ctx.env["last_ehdr"] = hdr
    return Enum("Ok", [hdr], "Result")


class Collected:
    """Vec<T> produced by ParsingIterator::collect over a file-backed slice (entries = the whole records of that range)."""

    def __init__(self, tyname, sl, cls, endian):
        self.tyname = tyname
        self.sl = sl
        self.cls = cls
        self.endian = endian

    def __repr__(self):
        return f"Collected<{self.tyname}>({self.sl!r})"


def s_collect(ex, callee, args, dest_ty):
    it = args[0]      # ParsingIterator Agg: endian, class, data, offset, pd
    m = re.search(r"ParsingIterator<'_, E, (\w+)>", callee)
    ty = m.group(1) if m else "?"
    sl = as_slice(it.f[2])
    off = it.f[3].e
    if not z3.is_true(z3.simplify(off == 0)):
        raise Unsupported("collect from a started iterator")
    n_entries = z3.UDiv(sl.len, bv(CLASS_SIZES[ty][class_index(it.f[1])]))
    ex.ctx.event("vec_collect", ty, n_entries)
    return Collected(ty, sl, it.f[1], it.f[0])


def s_vec_default(ex, callee, args, dest_ty):
    return Collected("empty", Slice(Buffer(bv(0), "zeros"), bv(0), bv(0)), None, None)


def s_passthrough_new(tyname):
    def h(ex, callee, args, dest_ty):
        return Agg(list(args), tyname)
    return h


def install(prog):
    R = re.compile
    S = prog.summaries
    S.append((R(r" as Try>::branch$"), s_try_branch))
    S.append((R(r"as FromResidual<.*>>::from_residual$|FromResidual>::from_residual$"), s_from_residual))
    S.append((R(r"^<u64 as TryInto<usize>>::try_into$|^<u32 as TryInto<usize>>::try_into$|^<u16 as TryInto<usize>>::try_into$"), s_try_into_usize))
    S.append((R(r"^core::num::<impl usize>::checked_add$"), s_checked("add")))
    S.append((R(r"^core::num::<impl usize>::checked_mul$"), s_checked("mul")))
    S.append((R(r"^core::num::<impl usize>::checked_sub$"), s_checked("sub")))
    S.append((R(r"^Option::<.*>::ok_or::<.*>$|^Option::ok_or$"), s_ok_or))
    S.append((R(r"^Option::<.*>::expect$|^Option::<.*>::unwrap$|^Result::<.*>::unwrap$|^Result::<.*>::expect$|^Option::expect$|^Option::unwrap$"), s_expect))
    S.append((R(r"^Option::<.*>::is_some$|^Option::is_some$"), s_is("Some")))
    S.append((R(r"^Option::<.*>::is_none$|^Option::is_none$"), s_is("Some", neg=True)))
    S.append((R(r"Range<usize> as ExactSizeIterator>::len$"), s_range_len))
    S.append((R(r"^std::vec::from_elem::<u8>$|^std::vec::from_elem$"), s_from_elem))
    S.append((R(r"^Vec::<u8>::into_boxed_slice$|^Vec::into_boxed_slice$"), s_into_boxed))
    S.append((R(r"^<\w+ as Seek>::seek$|^<\w+ as std::io::Seek>::seek$"), s_seek))
    S.append((R(r"^<\w+ as std::io::Read>::read_exact$|^<\w+ as Read>::read_exact$"), s_read_exact))
    S.append((R(r"^<\w+ as (std::io::)?Read>::\w+$"), s_read_other))
    S.append((R(r"^<HashMap<.*> as Default>::default$"), s_map_default))
    S.append((R(r"^HashMap::<.*>::contains_key"), s_map_contains))
    S.append((R(r"^HashMap::<.*>::get::"), s_map_get))
    S.append((R(r"^HashMap::<.*>::insert$"), s_map_insert))
    S.append((R(r"^HashMap::<.*>::clear$"), s_map_clear))
    S.append((R(r"^core::slice::<impl \[u8\]>::get::<(std::ops::)?Range(From|To)?<usize>>$"), s_slice_get_range))
    S.append((R(r"^<SectionHeader as ParseAt>::parse_at"), s_parse_at("SectionHeader", SHDR_FIELDS)))
    S.append((R(r"^<ProgramHeader as ParseAt>::parse_at"), s_parse_at("ProgramHeader", PHDR_FIELDS)))
    for (nm, w, sg) in (("u8", 8, False), ("u16", 16, False), ("u32", 32, False), ("u64", 64, False), ("i32", 32, True), ("i64", 64, True)):
        S.append((R(r"^<\w+ as EndianParse>::parse_%s_at$" % nm), s_parse_int(w, sg)))
    S.append((R(r"^<SysVHashHeader as ParseAt>::parse_at"), s_parse_at("SysVHashHeader", SYSV_FIELDS)))
    S.append((R(r"^<GnuHashHeader as ParseAt>::parse_at"), s_parse_at("GnuHashHeader", GNUH_FIELDS)))
    S.append((R(r"^<ParsingIterator<.*> as Iterator>::find::"), s_iter_find))
    S.append((R(r"^<std::slice::Iter<.*> as Iterator>::find::"), s_iter_find))
    S.append((R(r"^<std::slice::Iter<.*> as Iterator>::next$"), s_iter_next))
    S.append((R(r"^<(ParsingIterator|std::slice::Iter)<.*> as IntoIterator>::into_iter$"), s_identity))
    S.append((R(r"^core::slice::<impl \[u8\]>::is_empty$"), s_u8slice_is_empty))
    S.append((R(r"^Vec::<\w+>::is_empty$"), s_vec_is_empty))
    S.append((R(r"^<Vec<\w+> as Deref>::deref$"), s_vec_deref))
    S.append((R(r"^core::slice::<impl \[\w+\]>::iter$"), s_tslice_iter))
    S.append((R(r"^core::slice::<impl \[\w+\]>::get::<usize>$"), s_tslice_get))
    S.append((R(r"^<Vec<\w+> as Index<usize>>::index$"), s_vec_index))
    S.append((R(r"^<Option<.*> as Default>::default$"), s_default_none))
    S.append((R(r"^Result::<.*>::ok$"), s_result_ok))
    S.append((R(r"^StringTable::<'_>::get$"), s_strtab_get))
    S.append((R(r"^<&str as PartialEq>::eq$|^<str as PartialEq>::eq$"), s_str_eq))
    S.append((R(r"^Option::<.*>::or$"), s_opt_or))
    S.append((R(r"^Option::<.*>::and$"), s_opt_and))
    S.append((R(r"^(Option|Result)::<.*>::map::<"), s_opt_map))
    S.append((R(r"^Result::<.*>::map_err::<"), s_res_map_err))
    S.append((R(r"^(Option|Result)::<.*>::and_then::<"), s_and_then))
    S.append((R(r"^(Option|Result)::<.*>::or_else::<"), s_or_else))
    S.append((R(r"^Option::<.*>::ok_or_else::<"), s_ok_or_else))
    S.append((R(r"^(Option|Result)::<.*>::unwrap_or$"), s_unwrap_or))
    S.append((R(r"^(Option|Result)::<.*>::unwrap_or_else::<"), s_unwrap_or_else))
    S.append((R(r"^Option::<.*>::as_ref$"), s_opt_as_ref))
    S.append((R(r"^Option::<.*>::(copied|cloned)$"), s_opt_copied))
    S.append((R(r"^Option::<.*>::take$"), s_opt_take))
    S.append((R(r"^Result::<.*>::is_ok$"), s_is("Ok")))
    S.append((R(r"^Result::<.*>::is_err$"), s_is("Ok", neg=True)))
    S.append((R(r"^(std|core)::cmp::min::<\w+>$|^<\w+ as Ord>::min$"), s_minmax("min")))
    S.append((R(r"^(std|core)::cmp::max::<\w+>$|^<\w+ as Ord>::max$"), s_minmax("max")))
    for op in ("saturating_sub", "saturating_add", "wrapping_add", "wrapping_sub", "wrapping_mul", "is_power_of_two", "trailing_zeros", "count_ones"):
        S.append((R(r"^core::num::<impl \w+>::%s$" % op), s_intop(op)))
    S.append((R(r"^Vec::<\w+>::with_capacity$"), s_vec_with_capacity))
    S.append((R(r"^<Vec<\w+> as Extend<\w+>>::extend::<"), s_vec_extend))
    S.append((R(r"^core::slice::<impl \[u8\]>::len$"), s_slice_len))
    S.append((R(r"^<\[u8\] as Index<(std::ops::)?Range(From|To)?<usize>>>::index$"), s_slice_index_range))
    S.append((R(r"^<\w+ as Clone>::clone$"), lambda ex, c, a, d: (a[0].load() if isinstance(a[0], Ref) else a[0])))
    S.append((R(r"^(std|core)::mem::size_of::<\w+>$"), s_size_of))
    S.append((R(r"^<CompressionHeader as ParseAt>::parse_at"), s_parse_at("CompressionHeader", CHDR_FIELDS)))
    S.append((R(r"^parse_ident::<E>$|^file::parse_ident"), s_parse_ident))
    S.append((R(r"^FileHeader::<E>::parse_tail$"), s_parse_tail))
    S.append((R(r"as Iterator>::collect::<Vec<"), s_collect))
    S.append((R(r"^<Vec<\w+> as Default>::default$"), s_vec_default))
    for t in ("NoteIterator", "StringTable", "ParsingIterator", "VerNeedIterator", "VerDefIterator", "SymbolVersionTable"):
        pass
