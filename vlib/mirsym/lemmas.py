"""Lemma drivers of engine B: obligations over the paths of the real MIR bodies of elf_stream.rs / elf_bytes.rs."""
import os, re, shutil, subprocess, time, json
import z3
from . import mir, sym, model
from .sym import IntV, Agg, Enum, Ref, Buffer, Slice, Opaque, UNIT, bv

VERIF = os.path.dirname(os.path.dirname(os.path.dirname(os.path.abspath(__file__))))
REPO = "/repo"


def dump_mir():
    """regenerate the MIR text from /repo's current working tree (scratch copy under /verif/.build/mir, removed afterwards)"""
    work = os.path.join(VERIF, ".build", "mir")
    shutil.rmtree(work, ignore_errors=True)
    os.makedirs(work)
    shutil.copytree(os.path.join(REPO, "src"), os.path.join(work, "repo", "src"))
    for f in ("Cargo.toml", "Cargo.lock"):
        if os.path.exists(os.path.join(REPO, f)):
            shutil.copy(os.path.join(REPO, f), os.path.join(work, "repo", f))
    env = dict(os.environ, CARGO_NET_OFFLINE="true", CARGO_TARGET_DIR=os.path.join(work, "target"))
    env.pop("RUSTFLAGS", None)
    t0 = time.time()
    r = subprocess.run(["cargo", "+nightly", "rustc", "--offline", "--lib", "--", "-Zunpretty=mir", "-C", "debug-assertions=off",
                        "-C", "overflow-checks=on"], cwd=os.path.join(work, "repo"), env=env, stdout=subprocess.PIPE,
                       stderr=subprocess.PIPE, text=True)
    if r.returncode != 0 or "fn " not in r.stdout:
        raise RuntimeError("MIR dump failed: " + r.stderr[-2000:])
    text = r.stdout
    shutil.rmtree(os.path.join(work, "target"), ignore_errors=True)
    return text, os.path.join(work, "repo"), time.time() - t0


def load_consts(src_root):
    consts = {}
    txt = open(os.path.join(src_root, "src", "abi.rs")).read()
    for m in re.finditer(r"pub const (\w+): (u8|u16|u32|u64|usize|i32|i64) = (0x[0-9a-fA-F_]+|\d[\d_]*);", txt):
        consts[m.group(1)] = (int(m.group(3).replace("_", ""), 0), m.group(2))
    # constants defined in terms of others are not needed by the bodies we execute
    return consts


def load_program():
    text, src_root, t = dump_mir()
    fns = mir.parse_functions(text, src_root)
    prog = sym.Program(fns, load_consts(src_root), src_root)
    model.install(prog)
    prog.mir_dump_s = round(t, 1)
    prog.mir_lines = text.count("\n")
    return prog


class Result:
    def __init__(self):
        self.obligations = []   # dict(name, status 'holds'|'violated'|'inconclusive', detail, model)
        self.stats = dict(queries=0, paths=0)
        self.t0 = time.time()

    def add(self, name, status, detail="", mdl=None):
        self.obligations.append(dict(name=name, status=status, detail=detail, model=mdl))


def new_solver():
    s = z3.Solver()
    s.set("timeout", 60000)
    return s


def valid(res, solver, pc, claim):
    """is `claim` implied by pc? returns (True, None) / (False, model) ; raises on unknown"""
    res.stats["queries"] += 1
    r = solver.check(*(pc + [z3.Not(claim)]))
    if r == z3.unsat:
        return True, None
    if r == z3.sat:
        return False, solver.model()
    raise sym.Unsupported("solver unknown")


def model_str(m, limit=14):
    if m is None:
        return ""
    items = []
    for d in m.decls():
        if d.arity() == 0:
            items.append(f"{d.name()}={m[d]}")
    items.sort()
    return ", ".join(items[:limit])


def is_ok(v):
    return isinstance(v, Enum) and v.variant == "Ok"


def is_err(v):
    return isinstance(v, Enum) and v.variant == "Err"


def io_err_events(events):
    return [e for e in events if e[0] in ("seek", "read_exact") and e[-1] == "err"]


# ---------------------------------------------------------------------------------------------------------
# L1: CachingReader::load_bytes / read_bytes / get_bytes / new / clear_cache


def run_load_bytes(prog, fault_free):
    solver = new_solver()
    stats = dict(queries=0, paths=0)
    fn = prog.find(("CachingReader", "load_bytes"))

    def path(ctx):
        model.reader_env(ctx, fault_free=fault_free)
        cr = model.mk_caching_reader(ctx)
        s, e = z3.BitVec("range_start", 64), z3.BitVec("range_end", 64)
        ctx.assume(z3.ULE(s, e))       # documented precondition: callers pass start <= end (checked at the accessor level)
        ctx.env["range"] = (s, e)
        ex = sym.Exec(prog, ctx)
        r = ex.call_fn(fn, [Ref([cr], 0), Agg([IntV(s), IntV(e)], "Range")])
        ctx.env["cr"] = cr
        return r
    paths = sym.explore(prog, path, solver, stats, tag="lb")
    return paths, solver, stats


def check_cache_inv(res, solver, p, name):
    """Inv' : every entry inserted on this path holds file[s..e] with s <= e <= file_len"""
    m = p["env"]["map"]
    fl = p["env"]["file_len"]
    ok = True
    for (s, e, box) in m.over:
        b = box.f[0].f[0]
        if b.kind != "fileslice":
            res.add(name, "violated", f"cache entry inserted whose buffer is not the result of a successful read_exact (kind={b.kind}); decisions={p['decisions']}")
            ok = False
            continue
        claim = z3.And(b.fstart == s, b.len == e - s, z3.ULE(s, e), z3.ULE(e, fl))
        v, mdl = valid(res, solver, p["pc"], claim)
        if not v:
            res.add(name, "violated", f"cache entry (start,end) does not hold file[start..end]: {model_str(mdl)}", mdl)
            ok = False
    return ok


def lemma_L1(prog, res):
    paths, solver, stats = run_load_bytes(prog, fault_free=False)
    res.stats["queries"] += stats["queries"]
    res.stats["paths"] += stats["paths"]
    n_ok = n_err = 0
    for p in paths:
        if p["status"] != "ok":
            res.add("L1.no_panic(load_bytes)", "violated", f"panic path: {p['status']} events={p['events'][-3:]}")
            continue
        env = p["env"]
        s, e = env["range"]
        v = p["value"]
        inserts = [ev for ev in p["events"] if ev[0] == "map_insert"]
        allocs = [ev for ev in p["events"] if ev[0] == "alloc"]
        ioerrs = io_err_events(p["events"])
        # C08: every allocation is bounded by the stream length
        for a in allocs:
            okv, mdl = valid(res, solver, p["pc"], z3.ULE(a[1], env["stream_len"]))
            res.add("C08.alloc<=stream_len(load_bytes)", "holds" if okv else "violated",
                    "" if okv else f"allocation of {mdl.eval(a[1])} bytes with stream_len={mdl.eval(env['stream_len'])}: {model_str(mdl)}", mdl)
        if is_err(v):
            n_err += 1
            res.add("C17.err_leaves_cache_unchanged(load_bytes)", "holds" if not inserts else "violated",
                    "" if not inserts else f"insert on an Err path, decisions={p['decisions']}")
            if ioerrs:
                okk = isinstance(v.f[0], Enum) and v.f[0].variant == "IOError"
                res.add("C17.io_error_surfaces_as_IOError(load_bytes)", "holds" if okk else "violated", "" if okk else repr(v))
        elif is_ok(v):
            n_ok += 1
            res.add("C17.no_ok_after_io_error(load_bytes)", "holds" if not ioerrs else "violated",
                    "" if not ioerrs else f"Ok returned although an I/O call failed: {ioerrs}")
            if check_cache_inv(res, solver, p, "L1.inv_preserved(load_bytes)"):
                res.add("L1.inv_preserved(load_bytes)", "holds")
            # (start,end) is cached afterwards: either it was a hit or it has been inserted under exactly that key
            hit = any(ev[0] == "map_contains" and ev[3] for ev in p["events"])
            if not hit:
                good = False
                for ins in inserts:
                    okv, mdl = valid(res, solver, p["pc"], z3.And(ins[1] == s, ins[2] == e))
                    good = good or okv
                res.add("L1.ok_implies_range_cached(load_bytes)", "holds" if good else "violated",
                        "" if good else f"Ok without the key (start,end) in the cache; inserts={[(str(i[1]), str(i[2])) for i in inserts]}")
            # laziness / positioning: the only I/O is seek(Start(start)) then read_exact of end-start bytes
            for ev in p["events"]:
                if ev[0] == "seek":
                    okv, mdl = valid(res, solver, p["pc"], ev[2] == s) if ev[1] == "start" else (False, None)
                    res.add("L1.seek_to_start(load_bytes)", "holds" if okv else "violated", "" if okv else f"seek {ev[1]} {ev[2]}")
                if ev[0] == "read_exact":
                    okv, mdl = valid(res, solver, p["pc"], z3.And(ev[2] == s, ev[3] == e - s))
                    res.add("L1.read_exactly_range(load_bytes)", "holds" if okv else "violated",
                            "" if okv else f"read_exact at pos {ev[2]} len {ev[3]}: {model_str(mdl)}", mdl)
        else:
            res.add("L1.result_shape", "inconclusive", repr(v))
    res.add("L1.witness.ok_and_err_paths_exist", "holds" if (n_ok >= 2 and n_err >= 2) else "inconclusive", f"ok={n_ok} err={n_err}")
    # fault-free: Ok iff end <= file_len
    paths, solver, stats = run_load_bytes(prog, fault_free=True)
    res.stats["queries"] += stats["queries"]
    res.stats["paths"] += stats["paths"]
    for p in paths:
        if p["status"] != "ok":
            res.add("L1.no_panic(load_bytes,fault-free)", "violated", p["status"])
            continue
        env = p["env"]
        s, e = env["range"]
        if is_ok(p["value"]):
            okv, mdl = valid(res, solver, p["pc"], z3.ULE(e, env["file_len"]))
            res.add("C18.stream_ok_implies_range_in_file(load_bytes)", "holds" if okv else "violated", model_str(mdl), mdl)
        else:
            okv, mdl = valid(res, solver, p["pc"], z3.UGT(e, env["file_len"]))
            res.add("C18.stream_err_implies_range_past_eof(load_bytes)", "holds" if okv else "violated", model_str(mdl), mdl)
    return res


def lemma_read_get(prog, res):
    """read_bytes: Ok => the returned slice is file[start..end]; get_bytes after a successful load returns that buffer; never panics."""
    solver = new_solver()
    stats = dict(queries=0, paths=0)
    fn = prog.find(("CachingReader", "read_bytes"))

    def path(ctx):
        model.reader_env(ctx, fault_free=False)
        cr = model.mk_caching_reader(ctx)
        s, e = z3.BitVec("range_start", 64), z3.BitVec("range_end", 64)
        ctx.assume(z3.ULE(s, e))
        ctx.env["range"] = (s, e)
        ex = sym.Exec(prog, ctx)
        return ex.call_fn(fn, [Ref([cr], 0), IntV(s), IntV(e)])
    paths = sym.explore(prog, path, solver, stats, tag="rb")
    res.stats["queries"] += stats["queries"]
    res.stats["paths"] += stats["paths"]
    for p in paths:
        if p["status"] != "ok":
            res.add("C08.no_panic(read_bytes/get_bytes)", "violated", f"{p['status']}; decisions={p['decisions']}")
            continue
        v = p["value"]
        s, e = p["env"]["range"]
        if is_ok(v):
            sl = model.as_slice(v.f[0])
            if sl.buf.kind != "fileslice":
                res.add("L1.read_bytes_returns_file_range", "violated", f"buffer kind {sl.buf.kind}")
                continue
            okv, mdl = valid(res, solver, p["pc"], z3.And(sl.file_pos() == s, sl.len == e - s))
            res.add("L1.read_bytes_returns_file_range", "holds" if okv else "violated", model_str(mdl), mdl)
        else:
            res.add("C17.read_bytes_err_is_err", "holds")
    res.add("C08.no_panic(read_bytes/get_bytes)", "holds", f"{len(paths)} paths")


def lemma_new(prog, res):
    solver = new_solver()
    stats = dict(queries=0, paths=0)
    fn = prog.find(("CachingReader", "new"))

    def path(ctx):
        model.reader_env(ctx, fault_free=False)
        ex = sym.Exec(prog, ctx)
        return ex.call_fn(fn, [Opaque("reader")])
    paths = sym.explore(prog, path, solver, stats, tag="new")
    res.stats["queries"] += stats["queries"]
    res.stats["paths"] += stats["paths"]
    for p in paths:
        if p["status"] != "ok":
            res.add("C08.no_panic(new)", "violated", p["status"])
            continue
        v = p["value"]
        errs = io_err_events(p["events"])
        if is_ok(v):
            cr = v.f[0]
            okv, mdl = valid(res, solver, p["pc"], cr.f[1].e == p["env"]["file_len"])
            res.add("L1.new_measures_stream_len", "holds" if okv and not errs else "violated", model_str(mdl), mdl)
            m = cr.f[2]
            res.add("L1.new_starts_with_empty_cache", "holds" if isinstance(m, model.MapModel) and m.empty0 and not m.over else "violated")
        else:
            okk = errs and isinstance(v.f[0], Enum) and v.f[0].variant == "IOError"
            res.add("C17.seek_error_in_new_is_IOError", "holds" if okk else "violated", repr(v))
