"""Lemma drivers of engine B: obligations over the paths of the real MIR bodies of elf_stream.rs / elf_bytes.rs."""
import os, re, shutil, subprocess, time, json
import z3
from . import mir, sym, model
from .sym import IntV, Agg, Enum, Ref, Buffer, Slice, Opaque, UNIT, bv

VERIF = os.path.dirname(os.path.dirname(os.path.dirname(os.path.abspath(__file__))))
REPO = os.environ.get("VERIF_TEST_REPO_OVERRIDE", "/repo")   # override is for manual experiments only; checks always use /repo


def dump_mir():
    """regenerate the MIR text from /repo's current working tree (scratch copy under /verif/.build/mir, removed afterwards)"""
    work = os.path.join(VERIF, ".build", "mir")
    shutil.rmtree(work, ignore_errors=True)
    os.makedirs(work)
    shutil.copytree(os.path.join(REPO, "src"), os.path.join(work, "repo", "src"))
    for f in ("Cargo.toml", "Cargo.lock"):
        if os.path.exists(os.path.join(REPO, f)):
            shutil.copy(os.path.join(REPO, f), os.path.join(work, "repo", f))
    env = dict(os.environ, CARGO_NET_OFFLINE="true", CARGO_TARGET_DIR=os.path.join(work, "target"))
    env.pop("RUSTFLAGS", None)
    t0 = time.time()
    r = subprocess.run(["cargo", "+nightly", "rustc", "--offline", "--lib", "--", "-Zunpretty=mir", "-C", "debug-assertions=off",
                        "-C", "overflow-checks=on"], cwd=os.path.join(work, "repo"), env=env, stdout=subprocess.PIPE,
                       stderr=subprocess.PIPE, text=True)
    if r.returncode != 0 or "fn " not in r.stdout:
        raise RuntimeError("MIR dump failed: " + r.stderr[-2000:])
    text = r.stdout
    shutil.rmtree(os.path.join(work, "target"), ignore_errors=True)
    return text, os.path.join(work, "repo"), time.time() - t0


def load_consts(src_root):
    """values of `pub const NAME: T = <expr>;` in abi.rs (literals, shifts/ors of literals and earlier constants)"""
    consts = {}
    txt = ""
    srcdir = os.path.join(src_root, "src")
    for fn in sorted(os.listdir(srcdir)):
        if fn.endswith(".rs"):
            txt += open(os.path.join(srcdir, fn)).read() + "\n"
    pending = []
    for m in re.finditer(r"(?:pub(?:\(\w+\))? )?const (\w+): (u8|u16|u32|u64|usize|i32|i64) = ([^;]+);", txt):
        pending.append((m.group(1), m.group(2), m.group(3).strip()))
    for _round in range(4):
        rest = []
        for name, ty, expr in pending:
            e = re.sub(r"(\d)_(?=\d)", r"\1", expr)
            e = re.sub(r"(?<![\w])(\d+|0x[0-9a-fA-F]+)(u8|u16|u32|u64|usize|i32|i64)\b", r"\1", e)
            e = re.sub(r"\bas (u8|u16|u32|u64|usize|i32|i64)\b", "", e)
            ids = set(re.findall(r"\b[A-Za-z_]\w*\b", e)) - {"x"}
            ids = {i for i in ids if not re.match(r"^0x", i)}
            if all(i in consts for i in ids) and re.match(r"^[\w\s<>|&+\-*()x]+$", e):
                for i in sorted(ids, key=len, reverse=True):
                    e = re.sub(r"\b%s\b" % i, str(consts[i][0]), e)
                try:
                    consts[name] = (int(eval(e, {"__builtins__": {}}, {})), ty)
                    continue
                except Exception:
                    pass
            rest.append((name, ty, expr))
        pending = rest
    return consts


def load_program():
    text, src_root, t = dump_mir()
    fns = mir.parse_functions(text, src_root)
    prog = sym.Program(fns, load_consts(src_root), src_root)
    model.install(prog)
    prog.mir_dump_s = round(t, 1)
    prog.mir_lines = text.count("\n")
    return prog


class Result:
    def __init__(self):
        self.obligations = []   # dict(name, status 'holds'|'violated'|'inconclusive', detail, model)
        self.stats = dict(queries=0, paths=0)
        self.t0 = time.time()

    def add(self, name, status, detail="", mdl=None):
        self.obligations.append(dict(name=name, status=status, detail=detail, model=mdl))


RECORD = None      # when a list: every RECORD_EVERY-th decided query is kept for the cvc5 cross-check (thorough tier)
RECORD_EVERY = 7
_qcount = [0]


class Portfolio:
    """ackermannize+bit-blast tactic first (fast on QF_UFBV with address arithmetic), z3's default solver as fallback"""

    def __init__(self):
        self.t = z3.Then("simplify", "solve-eqs", "ackermannize_bv", "bit-blast", "sat").solver()
        self.t.set("timeout", 30000)
        self.d = z3.Solver()
        self.d.set("timeout", 90000)
        self.last = None

    def check(self, *cs):
        try:
            r = self.t.check(*cs)
        except z3.Z3Exception:
            r = z3.unknown
        self.last = self.t
        if r == z3.unknown:
            r = self.d.check(*cs)
            self.last = self.d
        if RECORD is not None and r != z3.unknown:
            _qcount[0] += 1
            if _qcount[0] % RECORD_EVERY == 0 and len(RECORD) < 150:
                RECORD.append((list(cs), str(r)))
        return r

    def model(self):
        return self.last.model()


def new_solver():
    return Portfolio()


def valid(res, solver, pc, claim):
    """is `claim` implied by pc? returns (True, None) / (False, model) ; raises on unknown"""
    res.stats["queries"] += 1
    r = solver.check(*(pc + [z3.Not(claim)]))
    if r == z3.unsat:
        return True, None
    if r == z3.sat:
        return False, solver.model()
    raise sym.Unsupported("solver unknown")


def model_str(m, limit=14):
    if m is None:
        return ""
    items = []
    for d in m.decls():
        if d.arity() == 0:
            items.append(f"{d.name()}={m[d]}")
    items.sort()
    return ", ".join(items[:limit])


def no_panic_summary(res, label, paths):
    """C01 (slice side): no path of the executed MIR bodies reaches a panic edge (assert terminator, expect/unwrap on the wrong variant,
    out-of-bounds index) for any value of the symbolic fields"""
    bad = [p for p in paths if p["status"] != "ok"]
    if bad:
        for p in bad[:3]:
            res.add(f"C01.no_panic({label}, engine B)", "violated", f"{p['status']}; decisions={p['decisions'][:40]}; last events={p['events'][-3:]}")
    else:
        res.add(f"C01.no_panic({label}, engine B)", "holds", f"{len(paths)} paths, none reaches a panic edge")


def is_ok(v):
    return isinstance(v, Enum) and v.variant == "Ok"


def is_err(v):
    return isinstance(v, Enum) and v.variant == "Err"


def io_err_events(events):
    return [e for e in events if e[0] in ("seek", "read_exact") and e[-1] == "err"]


# ---------------------------------------------------------------------------------------------------------
# L1: CachingReader::load_bytes / read_bytes / get_bytes / new / clear_cache


def run_load_bytes(prog, fault_free):
    solver = new_solver()
    stats = dict(queries=0, paths=0)
    fn = prog.find(("CachingReader", "load_bytes"))

    def path(ctx):
        model.reader_env(ctx, fault_free=fault_free)
        cr = model.mk_caching_reader(ctx)
        s, e = z3.BitVec("range_start", 64), z3.BitVec("range_end", 64)
        ctx.assume(z3.ULE(s, e))       # documented precondition: callers pass start <= end (checked at the accessor level)
        ctx.env["range"] = (s, e)
        ex = sym.Exec(prog, ctx)
        r = ex.call_fn(fn, [Ref([cr], 0), Agg([IntV(s), IntV(e)], "Range")])
        ctx.env["cr"] = cr
        return r
    paths = sym.explore(prog, path, solver, stats, tag="lb")
    return paths, solver, stats


def check_cache_inv(res, solver, p, name):
    """Inv' : every entry inserted on this path holds file[s..e] with s <= e <= file_len"""
    m = p["env"]["map"]
    fl = p["env"]["file_len"]
    ok = True
    for (s, e, box) in m.over:
        b = box.f[0].f[0]
        if b.kind != "fileslice":
            res.add(name, "violated", f"cache entry inserted whose buffer is not the result of a successful read_exact (kind={b.kind}); decisions={p['decisions']}")
            ok = False
            continue
        claim = z3.And(b.fstart == s, b.len == e - s, z3.ULE(s, e), z3.ULE(e, fl))
        v, mdl = valid(res, solver, p["pc"], claim)
        if not v:
            res.add(name, "violated", f"cache entry (start,end) does not hold file[start..end]: {model_str(mdl)}", mdl)
            ok = False
    return ok


def lemma_L1(prog, res):
    paths, solver, stats = run_load_bytes(prog, fault_free=False)
    res.stats["queries"] += stats["queries"]
    res.stats["paths"] += stats["paths"]
    n_ok = n_err = 0
    for p in paths:
        if p["status"] != "ok":
            res.add("L1.no_panic(load_bytes)", "violated", f"panic path: {p['status']} events={p['events'][-3:]}")
            continue
        env = p["env"]
        s, e = env["range"]
        v = p["value"]
        inserts = [ev for ev in p["events"] if ev[0] == "map_insert"]
        allocs = [ev for ev in p["events"] if ev[0] == "alloc"]
        ioerrs = io_err_events(p["events"])
        # C08: every allocation is bounded by the stream length
        for a in allocs:
            okv, mdl = valid(res, solver, p["pc"], z3.ULE(a[1], env["stream_len"]))
            res.add("C08.alloc<=stream_len(load_bytes)", "holds" if okv else "violated",
                    "" if okv else f"allocation of {mdl.eval(a[1])} bytes with stream_len={mdl.eval(env['stream_len'])}: {model_str(mdl)}", mdl)
        if is_err(v):
            n_err += 1
            res.add("C17.err_leaves_cache_unchanged(load_bytes)", "holds" if not inserts else "violated",
                    "" if not inserts else f"insert on an Err path, decisions={p['decisions']}")
            if ioerrs:
                okk = isinstance(v.f[0], Enum) and v.f[0].variant == "IOError"
                res.add("C17.io_error_surfaces_as_IOError(load_bytes)", "holds" if okk else "violated", "" if okk else repr(v))
        elif is_ok(v):
            n_ok += 1
            res.add("C17.no_ok_after_io_error(load_bytes)", "holds" if not ioerrs else "violated",
                    "" if not ioerrs else f"Ok returned although an I/O call failed: {ioerrs}")
            if check_cache_inv(res, solver, p, "L1.inv_preserved(load_bytes)"):
                res.add("L1.inv_preserved(load_bytes)", "holds")
            # (start,end) is cached afterwards: either it was a hit or it has been inserted under exactly that key
            hit = any(ev[0] == "map_contains" and ev[3] for ev in p["events"])
            if not hit:
                good = False
                for ins in inserts:
                    okv, mdl = valid(res, solver, p["pc"], z3.And(ins[1] == s, ins[2] == e))
                    good = good or okv
                res.add("L1.ok_implies_range_cached(load_bytes)", "holds" if good else "violated",
                        "" if good else f"Ok without the key (start,end) in the cache; inserts={[(str(i[1]), str(i[2])) for i in inserts]}")
            # laziness / positioning: the only I/O is seek(Start(start)) then read_exact of end-start bytes
            for ev in p["events"]:
                if ev[0] == "seek":
                    okv, mdl = valid(res, solver, p["pc"], ev[2] == s) if ev[1] == "start" else (False, None)
                    res.add("L1.seek_to_start(load_bytes)", "holds" if okv else "violated", "" if okv else f"seek {ev[1]} {ev[2]}")
                if ev[0] == "read_exact":
                    okv, mdl = valid(res, solver, p["pc"], z3.And(ev[2] == s, ev[3] == e - s))
                    res.add("L1.read_exactly_range(load_bytes)", "holds" if okv else "violated",
                            "" if okv else f"read_exact at pos {ev[2]} len {ev[3]}: {model_str(mdl)}", mdl)
        else:
            res.add("L1.result_shape", "inconclusive", repr(v))
    res.add("L1.witness.ok_and_err_paths_exist", "holds" if (n_ok >= 2 and n_err >= 2) else "inconclusive", f"ok={n_ok} err={n_err}")
    # fault-free: Ok iff end <= file_len
    paths, solver, stats = run_load_bytes(prog, fault_free=True)
    res.stats["queries"] += stats["queries"]
    res.stats["paths"] += stats["paths"]
    for p in paths:
        if p["status"] != "ok":
            res.add("L1.no_panic(load_bytes,fault-free)", "violated", p["status"])
            continue
        env = p["env"]
        s, e = env["range"]
        if is_ok(p["value"]):
            okv, mdl = valid(res, solver, p["pc"], z3.ULE(e, env["file_len"]))
            res.add("C18.stream_ok_implies_range_in_file(load_bytes)", "holds" if okv else "violated", model_str(mdl), mdl)
        else:
            okv, mdl = valid(res, solver, p["pc"], z3.UGT(e, env["file_len"]))
            res.add("C18.stream_err_implies_range_past_eof(load_bytes)", "holds" if okv else "violated", model_str(mdl), mdl)
    return res


def lemma_read_get(prog, res):
    """read_bytes: Ok => the returned slice is file[start..end]; get_bytes after a successful load returns that buffer; never panics."""
    solver = new_solver()
    stats = dict(queries=0, paths=0)
    fn = prog.find(("CachingReader", "read_bytes"))

    def path(ctx):
        model.reader_env(ctx, fault_free=False)
        cr = model.mk_caching_reader(ctx)
        s, e = z3.BitVec("range_start", 64), z3.BitVec("range_end", 64)
        ctx.assume(z3.ULE(s, e))
        ctx.env["range"] = (s, e)
        ex = sym.Exec(prog, ctx)
        return ex.call_fn(fn, [Ref([cr], 0), IntV(s), IntV(e)])
    paths = sym.explore(prog, path, solver, stats, tag="rb")
    res.stats["queries"] += stats["queries"]
    res.stats["paths"] += stats["paths"]
    for p in paths:
        if p["status"] != "ok":
            res.add("C08.no_panic(read_bytes/get_bytes)", "violated", f"{p['status']}; decisions={p['decisions']}")
            continue
        v = p["value"]
        s, e = p["env"]["range"]
        if is_ok(v):
            sl = model.as_slice(v.f[0])
            if sl.buf.kind != "fileslice":
                res.add("L1.read_bytes_returns_file_range", "violated", f"buffer kind {sl.buf.kind}")
                continue
            okv, mdl = valid(res, solver, p["pc"], z3.And(sl.file_pos() == s, sl.len == e - s))
            res.add("L1.read_bytes_returns_file_range", "holds" if okv else "violated", model_str(mdl), mdl)
        else:
            res.add("C17.read_bytes_err_is_err", "holds")
    res.add("C08.no_panic(read_bytes/get_bytes)", "holds", f"{len(paths)} paths")


def lemma_new(prog, res):
    solver = new_solver()
    stats = dict(queries=0, paths=0)
    fn = prog.find(("CachingReader", "new"))

    def path(ctx):
        model.reader_env(ctx, fault_free=False)
        ex = sym.Exec(prog, ctx)
        return ex.call_fn(fn, [Opaque("reader")])
    paths = sym.explore(prog, path, solver, stats, tag="new")
    res.stats["queries"] += stats["queries"]
    res.stats["paths"] += stats["paths"]
    for p in paths:
        if p["status"] != "ok":
            res.add("C08.no_panic(new)", "violated", p["status"])
            continue
        v = p["value"]
        errs = io_err_events(p["events"])
        if is_ok(v):
            cr = v.f[0]
            okv, mdl = valid(res, solver, p["pc"], cr.f[1].e == p["env"]["file_len"])
            res.add("L1.new_measures_stream_len", "holds" if okv and not errs else "violated", model_str(mdl), mdl)
            m = cr.f[2]
            res.add("L1.new_starts_with_empty_cache", "holds" if isinstance(m, model.MapModel) and m.empty0 and not m.over else "violated")
        else:
            okk = errs and isinstance(v.f[0], Enum) and v.f[0].variant == "IOError"
            res.add("C17.seek_error_in_new_is_IOError", "holds" if okk else "violated", repr(v))


# ---------------------------------------------------------------------------------------------------------
# L2: accessor mirror (stream vs slice) for the straight-line accessors

EHDR_LAYOUT = [("version", 32), ("osabi", 8), ("abiversion", 8), ("e_type", 16), ("e_machine", 16), ("e_entry", 64),
               ("e_phoff", 64), ("e_shoff", 64), ("e_flags", 32), ("e_ehsize", 16), ("e_phentsize", 16), ("e_phnum", 16),
               ("e_shentsize", 16), ("e_shnum", 16), ("e_shstrndx", 16)]


def mk_ehdr(cls):
    f = [Enum(cls, [], "Class"), Opaque("endian", data="E")]
    for (n, w) in EHDR_LAYOUT:
        f.append(IntV(z3.BitVec("ehdr." + n, w)))
    return Agg(f, "FileHeader")


def mk_shdr(prefix="arg"):
    return Agg([IntV(z3.BitVec(f"{prefix}.{n}", w)) for (n, w) in model.SHDR_FIELDS], "SectionHeader")


PHDR_FIELDS = [("p_type", 32), ("p_offset", 64), ("p_vaddr", 64), ("p_paddr", 64), ("p_filesz", 64), ("p_memsz", 64),
               ("p_flags", 32), ("p_align", 64)]


def mk_phdr(prefix="arg"):
    return Agg([IntV(z3.BitVec(f"{prefix}.{n}", w)) for (n, w) in PHDR_FIELDS], "ProgramHeader")


def equal_vals(a, b):
    """z3 Bool: the two results denote the same content (slices: same file range)."""
    if isinstance(a, Ref):
        a = a.load()
    if isinstance(b, Ref):
        b = b.load()
    if isinstance(a, IntV) and isinstance(b, IntV):
        if a.e.size() != b.e.size():
            return z3.BoolVal(False)
        return a.e == b.e
    if isinstance(a, z3.BoolRef) and isinstance(b, z3.BoolRef):
        return a == b
    if isinstance(a, (Slice, Buffer)) or isinstance(b, (Slice, Buffer)) or (isinstance(a, Agg) and a.ty == "Box"):
        try:
            sa, sb = model.as_slice(a), model.as_slice(b)
        except sym.Unsupported:
            return z3.BoolVal(False)
        pa, pb = sa.file_pos(), sb.file_pos()
        both_empty = z3.And(sa.len == 0, sb.len == 0)
        if pa is None or pb is None:
            return both_empty
        return z3.Or(both_empty, z3.And(sa.len == sb.len, pa == pb))
    if isinstance(a, Enum) and isinstance(b, Enum):
        if a.variant != b.variant or len(a.f) != len(b.f):
            return z3.BoolVal(False)
        return z3.And([equal_vals(x, y) for x, y in zip(a.f, b.f)] + [z3.BoolVal(True)])
    if isinstance(a, Agg) and isinstance(b, Agg):
        if len(a.f) != len(b.f):
            return z3.BoolVal(False)
        return z3.And([equal_vals(x, y) for x, y in zip(a.f, b.f)] + [z3.BoolVal(True)])
    if isinstance(a, Opaque) and isinstance(b, Opaque):
        if a.label != b.label:
            return z3.BoolVal(False)
        if isinstance(a.data, tuple) and isinstance(b.data, tuple) and len(a.data) == len(b.data) == 2 and a.data[0] == b.data[0]:
            return a.data[1] == b.data[1]
        return z3.BoolVal(a.data is b.data or (isinstance(a.data, str) and a.data == b.data) or (a.data is None and b.data is None))
    if isinstance(a, model.StrVal) and isinstance(b, model.StrVal):
        return a.ident == b.ident
    if isinstance(a, model.Collected) and isinstance(b, model.Collected):
        return z3.And(equal_vals(a.sl, b.sl), z3.BoolVal(a.tyname == b.tyname))
    return z3.BoolVal(False)


def run_stream_method(prog, method, cls, mkargs, fault_free, scope=None, tag="st"):
    solver = new_solver()
    stats = dict(queries=0, paths=0)
    fn = prog.find(("ElfStream", method))
    if fn is None:
        raise sym.Unsupported("no MIR body for ElfStream::" + method)

    def path(ctx):
        model.reader_env(ctx, fault_free=fault_free)
        cr = model.mk_caching_reader(ctx)
        st = Agg([mk_ehdr(cls), Opaque("shdrs"), Opaque("phdrs"), cr], "ElfStream")
        args = mkargs()
        if scope is not None:
            ctx.assume(scope(args))
        ctx.env["args"] = args
        ex = sym.Exec(prog, ctx)
        return ex.call_fn(fn, [Ref([st], 0)] + [Ref([a], 0) for a in args])
    paths = sym.explore(prog, path, solver, stats, tag=tag)
    return paths, solver, stats


def run_bytes_method(prog, method, cls, mkargs, scope=None, tag="by"):
    solver = new_solver()
    stats = dict(queries=0, paths=0)
    fn = prog.find(("ElfBytes", method))
    if fn is None:
        raise sym.Unsupported("no MIR body for ElfBytes::" + method)

    def path(ctx):
        model.reader_env(ctx, fault_free=True)
        file = ctx.env["file"]
        eb = Agg([mk_ehdr(cls), Slice(file, bv(0), ctx.env["file_len"]), Opaque("shdrs"), Opaque("phdrs")], "ElfBytes")
        args = mkargs()
        if scope is not None:
            ctx.assume(scope(args))
        ctx.env["args"] = args
        ex = sym.Exec(prog, ctx)
        return ex.call_fn(fn, [Ref([eb], 0)] + [Ref([a], 0) for a in args])
    paths = sym.explore(prog, path, solver, stats, tag=tag)
    return paths, solver, stats


def not_compressed(args):
    return (args[0].f[2].e & 0x800) == 0


ACCESSORS = [
    # (method, header kind, scoped by SHF_COMPRESSED, named in the property's exact-coincidence list, designated range fields)
    ("section_data", "shdr", True, True),
    ("section_data_as_strtab", "shdr", True, False),
    ("section_data_as_rels", "shdr", True, False),
    ("section_data_as_relas", "shdr", True, False),
    ("section_data_as_notes", "shdr", True, False),
    ("segment_data_as_notes", "phdr", False, True),
]


def designated_range(kind, args):
    h = args[0]
    if kind == "shdr":
        return h.f[4].e, h.f[5].e
    return h.f[1].e, h.f[4].e


def lemma_L2(prog, res, methods=None, classes=("ELF32", "ELF64")):
    for (method, kind, scoped, named) in ACCESSORS:
        if methods and method not in methods:
            continue
        mk = (lambda: [mk_shdr()]) if kind == "shdr" else (lambda: [mk_phdr()])
        scope = not_compressed if scoped else None
        for cls in classes:
            tagm = f"{method}[{cls}]"
            try:
                sp, ssol, sst = run_stream_method(prog, method, cls, mk, fault_free=True, scope=scope)
                bp, bsol, bst = run_bytes_method(prog, method, cls, mk, scope=scope)
                fp, fsol, fst = run_stream_method(prog, method, cls, mk, fault_free=False, scope=scope, tag="sf")
            except sym.Unsupported as u:
                res.add(f"L2.encode({tagm})", "inconclusive", str(u))
                continue
            for st in (sst, bst, fst):
                res.stats["queries"] += st["queries"]
                res.stats["paths"] += st["paths"]
            solver = new_solver()
            n_pairs = 0
            both_ok = 0
            for ps in sp:
                for pb in bp:
                    pc = ps["pc"] + pb["pc"]
                    res.stats["queries"] += 1
                    if solver.check(*pc) != z3.sat:
                        continue
                    n_pairs += 1
                    if ps["status"] != "ok" or pb["status"] != "ok":
                        continue
                    vs, vb = ps["value"], pb["value"]
                    if is_ok(vb) and is_err(vs):
                        mdl = solver.model()
                        res.add(f"C07.slice_ok_implies_stream_ok({tagm})", "violated", model_str(mdl), mdl)
                    elif is_ok(vs) and is_err(vb):
                        if named:
                            mdl = solver.model()
                            res.add(f"C07.stream_ok_implies_slice_ok({tagm})", "violated", model_str(mdl), mdl)
                    elif is_ok(vs) and is_ok(vb):
                        both_ok += 1
                        okv, mdl = valid(res, solver, pc, equal_vals(vs.f[0], vb.f[0]))
                        res.add(f"C07.same_content({tagm})", "holds" if okv else "violated",
                                "" if okv else f"stream={vs.f[0]!r} slice={vb.f[0]!r} :: {model_str(mdl)}", mdl)
            res.add(f"C07.okness_coincides({tagm})", "holds" if not any(o["status"] == "violated" and tagm in o["name"] for o in res.obligations) else "violated",
                    f"{len(sp)} stream paths x {len(bp)} slice paths, {n_pairs} jointly satisfiable, {both_ok} both-Ok")
            res.add(f"L2.witness.both_ok_pair_exists({tagm})", "holds" if both_ok >= 1 else "inconclusive")
            # per-path obligations on the stream side
            for p in sp + fp:
                if p["status"] != "ok":
                    res.add(f"C08.no_panic({tagm})", "violated", f"{p['status']} decisions={p['decisions']}")
                    continue
                s0, n0 = designated_range(kind, p["env"]["args"])
                sol = ssol
                for ev in p["events"]:
                    if ev[0] == "alloc":
                        okv, mdl = valid(res, sol, p["pc"], z3.ULE(ev[1], p["env"]["stream_len"]))
                        res.add(f"C08.alloc<=stream_len({tagm})", "holds" if okv else "violated", model_str(mdl), mdl)
                    if ev[0] == "read_exact":
                        okv, mdl = valid(res, sol, p["pc"], z3.And(ev[2] == s0, ev[3] == n0))
                        res.add(f"C08.reads_only_designated_range({tagm})", "holds" if okv else "violated",
                                "" if okv else f"read_exact(pos={ev[2]}, len={ev[3]}) vs designated ({s0},{n0}): {model_str(mdl)}", mdl)
                    if ev[0] == "seek" and ev[1] != "start":
                        res.add(f"C08.reads_only_designated_range({tagm})", "violated", "seek relative to end/current in a query")
                v = p["value"]
                ioerrs = io_err_events(p["events"])
                inserts = [ev for ev in p["events"] if ev[0] == "map_insert"]
                if ioerrs:
                    res.add(f"C17.io_failure_gives_err({tagm})", "holds" if is_err(v) else "violated",
                            "" if is_err(v) else f"Ok({v.f[0]!r}) after {ioerrs}")
                if is_err(v):
                    res.add(f"C17.err_leaves_no_residue({tagm})", "holds" if not inserts else "violated",
                            "" if not inserts else "cache insert on a path that returns Err")
                if is_ok(v):
                    if check_cache_inv(res, sol, p, f"C17.cache_inv_preserved({tagm})"):
                        res.add(f"C17.cache_inv_preserved({tagm})", "holds")
            res.add(f"C08.no_panic({tagm})", "holds" if not any(o["status"] == "violated" and o["name"] == f"C08.no_panic({tagm})" for o in res.obligations) else "violated",
                    f"{len(sp) + len(fp)} stream paths")


# ---------------------------------------------------------------------------------------------------------
# L3: open_stream mirrors minimal_parse (also decides the stream side of C05 and the open clauses of C08/C17)


def run_open_stream(prog, fault_free, tag="os"):
    solver = new_solver()
    stats = dict(queries=0, paths=0)
    fn = prog.find(("ElfStream", "open_stream"))

    def path(ctx):
        model.reader_env(ctx, fault_free=fault_free)
        ex = sym.Exec(prog, ctx)
        return ex.call_fn(fn, [Opaque("reader")])
    return sym.explore(prog, path, solver, stats, tag=tag), solver, stats


def run_minimal_parse(prog, tag="mp"):
    solver = new_solver()
    stats = dict(queries=0, paths=0)
    fn = prog.find(("ElfBytes", "minimal_parse"))

    def path(ctx):
        model.reader_env(ctx, fault_free=True)
        ex = sym.Exec(prog, ctx)
        return ex.call_fn(fn, [Slice(ctx.env["file"], bv(0), ctx.env["file_len"])])
    return sym.explore(prog, path, solver, stats, tag=tag), solver, stats


def table_of_bytes(opt):
    """ElfBytes.shdrs/phdrs: Option<ParsingTable{endian,class,data,pd}> -> (present, slice)"""
    if isinstance(opt, Enum) and opt.variant == "Some":
        return True, model.as_slice(opt.f[0].f[2])
    return False, None


def table_of_stream(v):
    if isinstance(v, model.Collected):
        if v.tyname == "empty":
            return False, None
        return True, v.sl
    raise sym.Unsupported(f"stream table {v!r}")


def lemma_L3(prog, res):
    try:
        sp, ssol, sst = run_open_stream(prog, fault_free=True)
        bp, bsol, bst = run_minimal_parse(prog)
        fp, fsol, fst = run_open_stream(prog, fault_free=False, tag="of")
    except sym.Unsupported as u:
        res.add("L3.encode(open_stream/minimal_parse)", "inconclusive", str(u))
        return
    for st in (sst, bst, fst):
        res.stats["queries"] += st["queries"]
        res.stats["paths"] += st["paths"]
    solver = new_solver()
    pairs = both = 0
    for ps in sp:
        for pb in bp:
            pc = ps["pc"] + pb["pc"]
            res.stats["queries"] += 1
            if solver.check(*pc) != z3.sat:
                continue
            pairs += 1
            if ps["status"] != "ok" or pb["status"] != "ok":
                continue
            vs, vb = ps["value"], pb["value"]
            if is_ok(vs) != is_ok(vb):
                mdl = solver.model()
                res.add("C07.open_succeeds_iff_slice_open_succeeds", "violated",
                        f"stream {'Ok' if is_ok(vs) else 'Err'} / slice {'Ok' if is_ok(vb) else 'Err'}: {model_str(mdl, 30)}", mdl)
                continue
            if not is_ok(vs):
                continue
            both += 1
            es, eb = vs.f[0], vb.f[0]
            # identical file header
            okv, mdl = valid(res, solver, pc, equal_vals(es.f[0], eb.f[0]))
            res.add("C07.open_same_file_header", "holds" if okv else "violated", model_str(mdl), mdl)
            # section / program header tables cover the same file range with the same class
            for (nm, si, bi) in (("section", 1, 2), ("program", 2, 3)):
                sp_present, ssl = table_of_stream(es.f[si])
                bp_present, bsl = table_of_bytes(eb.f[bi])
                if sp_present and bp_present:
                    okv, mdl = valid(res, solver, pc, equal_vals(ssl, bsl))
                    res.add(f"C05.stream_{nm}_table_located_as_slice_parser", "holds" if okv else "violated",
                            "" if okv else f"stream {ssl!r} vs slice {bsl!r}: {model_str(mdl, 30)}", mdl)
                elif sp_present != bp_present:
                    # an absent table on one side must be an empty one on the other
                    sl = ssl if sp_present else bsl
                    okv, mdl = valid(res, solver, pc, sl.len == 0)
                    # ElfBytes keeps Some(empty table) where ElfStream keeps an empty Vec: same (empty) content
                    res.add(f"C05.stream_{nm}_table_located_as_slice_parser", "holds" if okv else "violated",
                            "" if okv else f"{nm} table present on one side only: {model_str(mdl, 30)}", mdl)
                else:
                    res.add(f"C05.stream_{nm}_table_located_as_slice_parser", "holds")
    res.add("L3.witness.both_open_ok_pairs", "holds" if both >= 2 else "inconclusive", f"{len(sp)}x{len(bp)} paths, {pairs} joint, {both} both-Ok")
    if not any(o["name"] == "C07.open_succeeds_iff_slice_open_succeeds" for o in res.obligations):
        res.add("C07.open_succeeds_iff_slice_open_succeeds", "holds", f"{pairs} jointly satisfiable path pairs")
    # per-path obligations of open_stream under arbitrary faults
    for p in sp + fp:
        if p["status"] != "ok":
            res.add("C08.no_panic(open_stream)", "violated", f"{p['status']} decisions={p['decisions']}")
            continue
        sol = ssol
        env = p["env"]
        for ev in p["events"]:
            if ev[0] == "alloc":
                sl_ = env.get("stream_len_value", env["file_len"])
                okv, mdl = valid(res, sol, p["pc"], z3.ULE(ev[1], env["file_len"]))
                res.add("C08.alloc<=stream_len(open_stream)", "holds" if okv else "violated", model_str(mdl), mdl)
        v = p["value"]
        ioerrs = io_err_events(p["events"])
        if ioerrs:
            res.add("C17.io_failure_gives_err(open_stream)", "holds" if is_err(v) else "violated", "" if is_err(v) else f"Ok after {ioerrs}")
        if is_ok(v):
            m = v.f[0].f[3].f[2]
            res.add("C08.open_clears_its_cache", "holds" if (m.cleared and not m.over) else "violated")
        # laziness: reads during open are header, tail, shdr[0], the two tables -- nothing else
        reads = [ev for ev in p["events"] if ev[0] == "read_exact"]
        ehdr_ = v.f[0].f[0] if is_ok(v) else env.get("last_ehdr")
        if ehdr_ is not None and reads:
            is32_ = ehdr_.f[0].variant == "ELF32"
            ci_ = 0 if is32_ else 1
            shes_, phes_ = (40, 32) if is32_ else (64, 56)
            o_ph, o_sh = ehdr_.f[8].e, ehdr_.f[9].e
            n_ph16, n_sh16 = ehdr_.f[13].e, ehdr_.f[15].e
            sh0_size_ = model.field_term("SectionHeader", 5, ci_, o_sh, 64)
            sh0_info_ = model.field_term("SectionHeader", 7, ci_, o_sh, 32)
            n_sh = z3.If(n_sh16 == 0, sh0_size_, z3.ZeroExt(48, n_sh16))
            n_ph = z3.If(n_ph16 == 0xffff, z3.ZeroExt(32, sh0_info_), z3.ZeroExt(48, n_ph16))
            for ev in reads:
                pos_, len_ = ev[2], ev[3]
                allowed = z3.Or(z3.And(z3.ULE(pos_, bv(64)), z3.ULE(len_, bv(64) - pos_)),           # the file header
                                z3.And(pos_ == o_sh, len_ == shes_),                                 # section header 0 (extended numbering)
                                z3.And(pos_ == o_sh, len_ == n_sh * bv(shes_)),                      # the section header table
                                z3.And(pos_ == o_ph, len_ == n_ph * bv(phes_)))                      # the program header table
                okv, mdl = valid(res, sol, p["pc"], allowed)
                res.add("C08.open_reads_only_header_and_tables", "holds" if okv else "violated",
                        "" if okv else f"open reads (pos={z3.simplify(pos_)}, len={z3.simplify(len_)}), which is neither the file header, section header 0 nor a header table: {model_str(mdl, 16)}"[:800], mdl)
        res.add("C08.open_reads_at_most_5_ranges", "holds" if len(reads) <= 6 else "violated", f"{len(reads)} reads")
    res.add("C08.no_panic(open_stream)", "holds" if not any(o["name"] == "C08.no_panic(open_stream)" and o["status"] == "violated" for o in res.obligations) else "violated",
            f"{len(sp) + len(fp)} paths")


# ---------------------------------------------------------------------------------------------------------
# L5: minimal_parse locates the header tables exactly as the gABI rules say (absolute oracle, no size bound)


def lemma_L5(prog, res):
    try:
        bp, bsol, bst = run_minimal_parse(prog, tag="m5")
    except sym.Unsupported as u:
        res.add("L5.encode(minimal_parse)", "inconclusive", str(u))
        return
    res.stats["queries"] += bst["queries"]
    res.stats["paths"] += bst["paths"]
    solver = new_solver()
    fl = z3.BitVec("file_len", 64)
    n_ok = n_err = 0
    no_panic_summary(res, "minimal_parse", bp)
    bad = [p for p in bp if p["status"] != "ok"]
    res.add("C05.open_reports_unfit_tables_as_errors_not_panics", "violated" if bad else "holds",
            f"{bad[0]['status']} (e.g. unchecked size arithmetic); decisions={bad[0]['decisions'][:30]}" if bad else f"{len(bp)} paths")
    for p in bp:
        if p["status"] != "ok":
            continue
        tails = [ev for ev in p["events"] if ev[0] == "parse_tail"]
        if not tails:
            continue          # rejected before a file header exists (ident / short file): C10's business
        v = p["value"]
        # recover the header terms: class from the ident event path; fields are uninterpreted functions of position 16
        fp = tails[0][1]
        for ci, cname in ((0, "32"), (1, "64")):
            pass
        # which class did this path take? read it from the parse_tail result stored in the Ok value, or re-derive from pc
        cls = None
        if is_ok(v):
            cls = v.f[0].f[0].f[0].variant
            ehdr = v.f[0].f[0]
        else:
            ehdr = p["env"].get("last_ehdr")
            cls = ehdr.f[0].variant if ehdr is not None else None
        if cls is None:
            res.add("L5.header_terms", "inconclusive", "could not recover the file header of an Err path")
            continue
        is32 = cls == "ELF32"
        shes, phes = (40, 32) if is32 else (64, 56)
        e_phoff, e_shoff = ehdr.f[8].e, ehdr.f[9].e
        e_phentsize, e_phnum, e_shentsize, e_shnum = ehdr.f[12].e, ehdr.f[13].e, ehdr.f[14].e, ehdr.f[15].e
        suffix = "32" if is32 else "64"
        ci_ = 0 if is32 else 1
        sh0_size = model.field_term("SectionHeader", 5, ci_, e_shoff, 64)
        sh0_info = model.field_term("SectionHeader", 7, ci_, e_shoff, 32)
        z16 = lambda x: z3.ZeroExt(48, x)
        shnum = z3.If(e_shnum == 0, sh0_size, z16(e_shnum))
        phnum = z3.If(e_phnum == 0xffff, z3.ZeroExt(32, sh0_info), z16(e_phnum))

        def fits(off, n, es):
            # n*es does not overflow iff n <= (2^64-1)/es (es is the class's constant structure size)
            return z3.And(z3.ULE(n, bv(((1 << 64) - 1) // es)), z3.BVAddNoOverflow(off, n * bv(es), False), z3.ULE(off + n * bv(es), fl))
        shdr0_fits = fits(e_shoff, bv(1), shes)
        sh_ok = z3.Or(e_shoff == 0, z3.And(z3.Or(e_shnum != 0, shdr0_fits), z16(e_shentsize) == shes, fits(e_shoff, shnum, shes)))
        ph_ok = z3.Or(e_phoff == 0, z3.And(z3.Or(e_phnum != 0xffff, shdr0_fits), z16(e_phentsize) == phes, fits(e_phoff, phnum, phes)))
        scope = z3.Or(e_phnum != 0xffff, e_shoff != 0, e_phoff == 0)   # PN_XNUM presupposes a section table (property text)
        pc = p["pc"] + [scope]
        if is_ok(v):
            n_ok += 1
            okv, mdl = valid(res, solver, pc, z3.And(sh_ok, ph_ok))
            res.add("C05.open_ok_implies_tables_fit_with_right_entsize", "holds" if okv else "violated", model_str(mdl, 24), mdl)
            eb = v.f[0]
            for (nm, idx, off, n, es) in (("section", 2, e_shoff, shnum, shes), ("program", 3, e_phoff, phnum, phes)):
                present, sl = table_of_bytes(eb.f[idx])
                if present:
                    okv, mdl = valid(res, solver, pc, z3.And(off != 0, sl.file_pos() == off, sl.len == n * es))
                    res.add(f"C05.{nm}_table_is_[off, off+n*entsize)", "holds" if okv else "violated",
                            "" if okv else f"table slice {sl!r}: {model_str(mdl, 24)}", mdl)
                else:
                    okv, mdl = valid(res, solver, pc, off == 0)
                    res.add(f"C05.{nm}_table_absent_iff_offset_zero", "holds" if okv else "violated", model_str(mdl, 24), mdl)
        else:
            n_err += 1
            okv, mdl = valid(res, solver, pc, z3.Not(z3.And(sh_ok, ph_ok)))
            res.add("C05.open_err_implies_a_table_is_malformed", "holds" if okv else "violated",
                    "" if okv else f"minimal_parse fails although both tables are well-formed: {model_str(mdl, 24)}", mdl)
    res.add("L5.witness.ok_and_err_paths", "holds" if n_ok >= 4 and n_err >= 4 else "inconclusive", f"ok={n_ok} err={n_err}")


# ---------------------------------------------------------------------------------------------------------
# file-level lemmas with bounded section/program header tables (K entries): L6 (C20), L7 (C07), L8 (C05-H2/H3), L9 (C13 wiring)

K_TABLE = 2


def table_state(ctx, cls, with_sections, with_segments):
    """shared symbolic file state: section table of 1..K entries at tab.shoff (or absent), program table of 1..K entries (or absent)"""
    fl = ctx.env["file_len"]
    ci = 0 if cls == "ELF32" else 1
    st = {}
    for (nm, present, es) in (("sh", with_sections, model.CLASS_SIZES["SectionHeader"][ci]), ("ph", with_segments, model.CLASS_SIZES["ProgramHeader"][ci])):
        if not present:
            st[nm] = None
            continue
        off = z3.BitVec(f"tab.{nm}off", 64)
        # the number of entries is enumerated (1..K) by the decision mechanism: a concrete count keeps every size a constant
        nvar = z3.BitVec(f"tab.{nm}num", 64)
        kmax = ctx.env.get("K_" + nm, K_TABLE)
        kmin = ctx.env.get("Kmin_" + nm, 1)
        k = ctx.choose([(f"{nm}num={i}", nvar == i) for i in range(kmin, kmax + 1)]) + kmin
        ctx.assume(z3.And(z3.ULE(off, fl), z3.ULE(bv(k * es), fl - off), off != 0))
        st[nm] = Slice(ctx.env["file"], off, bv(k * es))
    return st


def mk_bytes_file(ctx, cls, st):
    e = Opaque("endian", data="E")
    c = Enum(cls, [], "Class")

    def tab(sl):
        if sl is None:
            return Enum("None", [], "Option")
        return Enum("Some", [Agg([e, c, sl, Agg([], "ZeroSized")], "ParsingTable")], "Option")
    return Agg([mk_ehdr(cls), Slice(ctx.env["file"], bv(0), ctx.env["file_len"]), tab(st["sh"]), tab(st["ph"])], "ElfBytes")


def mk_stream_file(ctx, cls, st, empty_cache=False):
    e = Opaque("endian", data="E")
    c = Enum(cls, [], "Class")

    def vec(sl, ty):
        if sl is None:
            return model.Collected("empty", Slice(Buffer(bv(0), "zeros"), bv(0), bv(0)), None, None)
        return model.Collected(ty, sl, c, e)
    cr = model.mk_caching_reader(ctx, empty_cache=empty_cache)
    return Agg([mk_ehdr(cls), vec(st["sh"], "SectionHeader"), vec(st["ph"], "ProgramHeader"), cr], "ElfStream")


def run_file_method(prog, side, method, cls, with_sections, with_segments, fault_free=True, extra_args=None, tag=None, scope=None, k_sh=None, k_ph=None, kmin_sh=None, empty_cache=False):
    solver = new_solver()
    stats = dict(queries=0, paths=0)
    fn = prog.find(("ElfBytes" if side == "bytes" else "ElfStream", method))
    if fn is None:
        raise sym.Unsupported(f"no MIR body for {side} {method}")

    def path(ctx):
        model.reader_env(ctx, fault_free=fault_free)
        if k_sh:
            ctx.env["K_sh"] = k_sh
        if k_ph:
            ctx.env["K_ph"] = k_ph
        if kmin_sh:
            ctx.env["Kmin_sh"] = kmin_sh
        st = table_state(ctx, cls, with_sections, with_segments)
        obj = mk_bytes_file(ctx, cls, st) if side == "bytes" else mk_stream_file(ctx, cls, st, empty_cache=empty_cache)
        ctx.env["obj"] = obj
        ctx.env["tables"] = st
        if scope is not None:
            ctx.assume(scope(ctx, obj, st))
        ex = sym.Exec(prog, ctx)
        args = [Ref([obj], 0)] + (extra_args() if extra_args else [])
        return ex.call_fn(fn, args)
    paths = sym.explore(prog, path, solver, stats, tag=tag or (side[:2] + method[:6]), max_paths=6000)
    return paths, solver, stats


def no_compressed_sections(cls):
    """scoping of the property's query-level clause: no section of the (bounded) table is flagged SHF_COMPRESSED"""
    def scope(ctx, obj, st):
        if st["sh"] is None:
            return z3.BoolVal(True)
        ci = 0 if cls == "ELF32" else 1
        es = model.CLASS_SIZES["SectionHeader"][ci]
        nn = z3.simplify(z3.UDiv(st["sh"].len, bv(es))).as_long()
        return z3.And([(model.field_term("SectionHeader", 2, ci, st["sh"].file_pos() + bv(i * es), 64) & 0x800) == 0 for i in range(nn)] + [z3.BoolVal(True)])
    return scope


LOOPED = [
    # (method, exact Ok-coincidence required by the property?)
    ("symbol_table", True),
    ("dynamic_symbol_table", True),
    ("dynamic", False),
    ("section_headers_with_strtab", False),
    ("symbol_version_table", True),
    ("section_header_by_name", False),
]
# symbol_version_table needs three sections to have .gnu.version, _r and _d together: its fault-free stream/slice pairing runs on
# tables of up to 3 entries; the fault-schedule run stays at 2 entries (path count)
K_OF = {}           # set to {"symbol_version_table": 3} by lemma_L7symver3 (thorough tier: ~15 min)


def query_arg():
    return [model.StrVal(z3.BitVec("query.name", 64))]


def pair_compare(res, name, sp, bp, exact, proj_s=None, proj_b=None):
    solver = new_solver()
    pairs = both = 0
    for ps in sp:
        for pb in bp:
            pc = ps["pc"] + pb["pc"]
            res.stats["queries"] += 1
            if solver.check(*pc) != z3.sat:
                continue
            pairs += 1
            if ps["status"] != "ok" or pb["status"] != "ok":
                continue
            vs, vb = ps["value"], pb["value"]
            if is_ok(vb) and is_err(vs):
                mdl = solver.model()
                res.add(f"C07.slice_ok_implies_stream_ok({name})", "violated", model_str(mdl, 24), mdl)
            elif is_ok(vs) and is_err(vb):
                if exact:
                    mdl = solver.model()
                    res.add(f"C07.stream_ok_implies_slice_ok({name})", "violated", model_str(mdl, 24), mdl)
            elif is_ok(vs) and is_ok(vb):
                both += 1
                a = proj_s(vs.f[0]) if proj_s else vs.f[0]
                b = proj_b(vb.f[0]) if proj_b else vb.f[0]
                okv, mdl = valid(res, solver, pc, equal_vals(a, b))
                res.add(f"C07.same_content({name})", "holds" if okv else "violated",
                        "" if okv else f"stream={a!r} slice={b!r} :: {model_str(mdl, 24)}", mdl)
    bad = any(o["status"] == "violated" and f"({name})" in o["name"] for o in res.obligations)
    res.add(f"C07.okness_coincides({name})", "violated" if bad else "holds", f"{len(sp)} stream paths x {len(bp)} slice paths, {pairs} joint, {both} both-Ok")
    res.add(f"L7.witness.both_ok({name})", "holds" if both >= 1 else "inconclusive")


def strtab_pair_stream(v):
    # (&Vec<SectionHeader>, Option<StringTable>) -> Option<StringTable>
    return v.f[1]


def strtab_pair_bytes(v):
    # (Option<SectionHeaderTable>, Option<StringTable>) -> Option<StringTable>
    return v.f[1]


def distinct_ranges(cls, base_scope):
    """additional scoping for the 3-entry stream run: the sections' data ranges are pairwise different keys (so that a range loaded
    earlier in the same call is never a cache hit for a later one; equal ranges are covered by the 2-entry run and by L1)"""
    def scope(ctx, obj, st):
        cs = [base_scope(ctx, obj, st)]
        if st["sh"] is not None:
            n = z3.simplify(num_sections(cls, st)).as_long()
            ts = [shdr_terms(cls, st, i) for i in range(n)]
            for i in range(n):
                for j in range(i + 1, n):
                    cs.append(z3.Or(ts[i]["sh_offset"] != ts[j]["sh_offset"], ts[i]["sh_size"] != ts[j]["sh_size"]))
        return z3.And(cs)
    return scope


def lemma_L7(prog, res, classes=("ELF64",)):
    for (method, exact) in LOOPED:
        for cls in classes:
            # dynamic(): sections only, segments only, and BOTH tables present (the segment table must be consulted only when
            # there is no section header table at all: slice and stream have to agree on that precedence too)
            for (ws, wp) in ((True, False), (False, True), (True, True)) if method == "dynamic" else ((True, False),):
                name = f"{method}[{cls},{'sections and segments' if (ws and wp) else 'sections' if ws else 'segments only'}]"
                xa = query_arg if method == "section_header_by_name" else None
                try:
                    # with 3-entry tables the stream side starts from the (freshly opened) empty cache: an arbitrary cache pre-state
                    # multiplies every range load by its hit/miss alternatives; arbitrary pre-states are covered by the 2-entry run below
                    sc3 = distinct_ranges(cls, no_compressed_sections(cls)) if K_OF.get(method) else no_compressed_sections(cls)
                    sp, _, sst = run_file_method(prog, "stream", method, cls, ws, wp, scope=sc3, extra_args=xa, k_sh=K_OF.get(method), empty_cache=bool(K_OF.get(method)))
                    bp, _, bst = run_file_method(prog, "bytes", method, cls, ws, wp, scope=sc3, extra_args=xa, k_sh=K_OF.get(method))
                    fp, fsol, fst = run_file_method(prog, "stream", method, cls, ws, wp, fault_free=False, tag="sf" + method[:5], scope=no_compressed_sections(cls), extra_args=xa)
                except sym.Unsupported as u:
                    res.add(f"L7.encode({name})", "inconclusive", str(u))
                    continue
                for st in (sst, bst, fst):
                    res.stats["queries"] += st["queries"]
                    res.stats["paths"] += st["paths"]
                if method == "section_headers_with_strtab":
                    n_before = len(res.obligations)
                    pair_compare(res, name, sp, bp, exact, strtab_pair_stream, strtab_pair_bytes)
                    # the same verdicts under C05: the stream parser resolves the section-name string table like the slice parser
                    for o in list(res.obligations[n_before:]):
                        if o["name"].startswith("C07."):
                            res.add(o["name"].replace("C07.", "C05.stream_shstrtab_", 1), o["status"], o["detail"], o.get("model"))
                else:
                    pair_compare(res, name, sp, bp, exact)
                for p in sp + fp:
                    if p["status"] != "ok":
                        res.add(f"C08.no_panic({name})", "violated", f"{p['status']} decisions={p['decisions'][:30]}")
                        continue
                    st_ = p["env"]["tables"]
                    ranges = []
                    if st_["sh"] is not None:
                        for i_ in range(z3.simplify(num_sections(cls, st_)).as_long()):
                            t_ = shdr_terms(cls, st_, i_)
                            ranges.append((t_["sh_offset"], t_["sh_size"]))
                    if st_["ph"] is not None:
                        ci_ = 0 if cls == "ELF32" else 1
                        pes_ = model.CLASS_SIZES["ProgramHeader"][ci_]
                        for i_ in range(z3.simplify(z3.UDiv(st_["ph"].len, bv(pes_))).as_long()):
                            b_ = st_["ph"].file_pos() + bv(i_ * pes_)
                            ranges.append((model.field_term("ProgramHeader", 1, ci_, b_, 64), model.field_term("ProgramHeader", 4, ci_, b_, 64)))
                    for ev in p["events"]:
                        if ev[0] == "alloc":
                            okv, mdl = valid(res, fsol, p["pc"], z3.ULE(ev[1], p["env"]["stream_len"]))
                            res.add(f"C08.alloc<=stream_len({name})", "holds" if okv else "violated", model_str(mdl), mdl)
                        if ev[0] == "read_exact" and ranges:
                            # laziness: every read is exactly the data range designated by one header of the (bounded) tables
                            okv, mdl = valid(res, fsol, p["pc"], z3.Or([z3.And(ev[2] == o_, ev[3] == n_) for (o_, n_) in ranges]))
                            res.add(f"C08.reads_only_designated_ranges({name})", "holds" if okv else "violated",
                                    "" if okv else f"read_exact(pos={z3.simplify(ev[2])}, len={z3.simplify(ev[3])}) is not the data range of any header: {model_str(mdl, 12)}"[:700], mdl)
                    v = p["value"]
                    ioerrs = io_err_events(p["events"])
                    if ioerrs:
                        res.add(f"C17.io_failure_gives_err({name})", "holds" if is_err(v) else "violated", "" if is_err(v) else f"Ok after {ioerrs}")
                    if is_ok(v) or True:
                        if check_cache_inv(res, fsol, p, f"C17.cache_inv_preserved({name})"):
                            res.add(f"C17.cache_inv_preserved({name})", "holds")
                res.add(f"C08.no_panic({name})", "violated" if any(o["status"] == "violated" and o["name"] == f"C08.no_panic({name})" for o in res.obligations) else "holds",
                        f"{len(sp) + len(fp)} stream paths")


# ---------------------------------------------------------------------------------------------------------
# L8: absolute oracles for the section-table driven accessors of the slice parser (C05-H2/H3, C20, C13 wiring)

SHT = dict(SYMTAB=2, STRTAB=3, HASH=5, DYNAMIC=6, DYNSYM=11, GNU_HASH=0x6ffffff6, GNU_VERDEF=0x6ffffffd, GNU_VERNEED=0x6ffffffe, GNU_VERSYM=0x6fffffff)


def shdr_terms(cls, st, i):
    """field terms of section header i of the bounded table (dict name -> z3 term, 64/32 bit as in the native struct)"""
    ci = 0 if cls == "ELF32" else 1
    es = model.CLASS_SIZES["SectionHeader"][ci]
    base = st["sh"].file_pos() + bv(i * es)
    return {fname: model.field_term("SectionHeader", k, ci, base, w) for k, (fname, w) in enumerate(model.SHDR_FIELDS)}


def num_sections(cls, st):
    ci = 0 if cls == "ELF32" else 1
    return z3.UDiv(st["sh"].len, bv(model.CLASS_SIZES["SectionHeader"][ci]))


def range_fits(off, size, fl):
    return z3.And(z3.BVAddNoOverflow(off, size, False), z3.ULE(off + size, fl))


def slice_is(sl, off, size):
    sl = model.as_slice(sl)
    return z3.And(sl.file_pos() == off, sl.len == size)


def first_of_type(cls, st, ty):
    """list over j < K of (cond_j, terms_j): section j is the first one (table order) whose sh_type == ty"""
    n = num_sections(cls, st)
    out = []
    prev = []
    for j in range(z3.simplify(n).as_long()):
        t = shdr_terms(cls, st, j)
        c = z3.And(z3.ULT(bv(j), n), t["sh_type"] == ty, *prev)
        out.append((c, t))
        prev.append(z3.Or(z3.UGE(bv(j), n), t["sh_type"] != ty))
    none = z3.And(*prev) if prev else z3.BoolVal(True)
    return out, none


def linked(cls, st, link32):
    """list over l < K of (cond, terms): sh_link designates section l of the table"""
    n = num_sections(cls, st)
    link = z3.ZeroExt(32, link32)
    return [(z3.And(link == l, z3.ULT(bv(l), n)), shdr_terms(cls, st, l)) for l in range(z3.simplify(n).as_long())], z3.UGE(link, n)


def lemma_L8(prog, res, classes=("ELF64",)):
    for cls in classes:
        ci = 0 if cls == "ELF32" else 1
        symsize, dynsize = ((16, 8), (24, 16))[ci]
        for (method, ty, entsz) in (("symbol_table", SHT["SYMTAB"], symsize), ("dynamic_symbol_table", SHT["DYNSYM"], symsize)):
            name = f"{method}[{cls}]"
            try:
                bp, bsol, bst = run_file_method(prog, "bytes", method, cls, True, False, tag="o" + method[:5])
            except sym.Unsupported as u:
                res.add(f"L8.encode({name})", "inconclusive", str(u))
                continue
            res.stats["queries"] += bst["queries"]
            res.stats["paths"] += bst["paths"]
            solver = new_solver()
            counts = dict(some=0, none=0, err=0)
            no_panic_summary(res, name, bp)
            for p in bp:
                if p["status"] != "ok":
                    continue
                st = p["env"]["tables"]
                fl = p["env"]["file_len"]
                firsts, none = first_of_type(cls, st, ty)
                v = p["value"]
                pc = p["pc"]
                if is_ok(v) and v.f[0].variant == "None":
                    counts["none"] += 1
                    okv, mdl = valid(res, solver, pc, none)
                    res.add(f"C20.none_iff_no_section_of_that_type({name})", "holds" if okv else "violated", model_str(mdl, 20), mdl)
                elif is_ok(v):
                    counts["some"] += 1
                    tab, strs = v.f[0].f[0].f[0], v.f[0].f[0].f[1]
                    alts = []
                    for (c, t) in firsts:
                        links, _oob = linked(cls, st, t["sh_link"])
                        for (lc, lt) in links:
                            alts.append(z3.And(c, lc, t["sh_entsize"] == entsz,
                                               slice_is(tab.f[2], t["sh_offset"], t["sh_size"]), range_fits(t["sh_offset"], t["sh_size"], fl),
                                               slice_is(strs.f[0], lt["sh_offset"], lt["sh_size"]), range_fits(lt["sh_offset"], lt["sh_size"], fl)))
                    okv, mdl = valid(res, solver, pc, z3.Or(alts))
                    res.add(f"C05.entsize_gate_and_designated_ranges({name})", "holds" if okv else "violated",
                            "" if okv else f"result table={tab!r} strtab={strs!r}: {model_str(mdl, 20)}", mdl)
                else:
                    counts["err"] += 1
                    bad = []
                    for (c, t) in firsts:
                        links, oob = linked(cls, st, t["sh_link"])
                        link_bad = z3.Or([oob] + [z3.And(lc, z3.Not(range_fits(lt["sh_offset"], lt["sh_size"], fl))) for (lc, lt) in links])
                        bad.append(z3.And(c, z3.Or(t["sh_entsize"] != entsz, z3.Not(range_fits(t["sh_offset"], t["sh_size"], fl)), link_bad)))
                    okv, mdl = valid(res, solver, pc, z3.Or(bad))
                    res.add(f"C05.err_only_when_gate_or_range_fails({name})", "holds" if okv else "violated", model_str(mdl, 20), mdl)
            res.add(f"L8.witness.paths({name})", "holds" if all(counts[k] >= 1 for k in counts) else "inconclusive", str(counts))
        # section_headers_with_strtab: the string table is the range of shdr[e_shstrndx] (or shdr[0].sh_link when SHN_XINDEX)
        name = f"section_headers_with_strtab[{cls}]"
        try:
            bp, bsol, bst = run_file_method(prog, "bytes", "section_headers_with_strtab", cls, True, False, tag="ostrt")
        except sym.Unsupported as u:
            res.add(f"L8.encode({name})", "inconclusive", str(u))
            bp = []
        solver = new_solver()
        if bp:
            no_panic_summary(res, name, bp)
        for p in bp:
            if p["status"] != "ok":
                continue
            st = p["env"]["tables"]
            fl = p["env"]["file_len"]
            ehdr = p["env"]["obj"].f[0]
            shstrndx = ehdr.f[16].e
            n = num_sections(cls, st)
            t0 = shdr_terms(cls, st, 0)
            idx = z3.If(shstrndx == 0xffff, z3.ZeroExt(32, t0["sh_link"]), z3.ZeroExt(48, shstrndx))
            v = p["value"]
            pc = p["pc"]
            if is_ok(v):
                strs = v.f[0].f[1]
                if strs.variant == "None":
                    okv, mdl = valid(res, solver, pc, shstrndx == 0)
                    res.add(f"C05.no_strtab_iff_shstrndx_undef({name})", "holds" if okv else "violated", model_str(mdl, 20), mdl)
                else:
                    alts = [z3.And(idx == l, z3.ULT(bv(l), n), slice_is(strs.f[0].f[0], shdr_terms(cls, st, l)["sh_offset"], shdr_terms(cls, st, l)["sh_size"]),
                                   range_fits(shdr_terms(cls, st, l)["sh_offset"], shdr_terms(cls, st, l)["sh_size"], fl)) for l in range(z3.simplify(n).as_long())]
                    okv, mdl = valid(res, solver, pc, z3.And(shstrndx != 0, z3.Or(alts)))
                    res.add(f"C05.shstrtab_is_range_of_designated_section({name})", "holds" if okv else "violated",
                            "" if okv else f"strtab={strs!r}: {model_str(mdl, 20)}", mdl)
            else:
                bad = z3.And(shstrndx != 0, z3.Or([z3.UGE(idx, n)] + [z3.And(idx == l, z3.Not(range_fits(shdr_terms(cls, st, l)["sh_offset"], shdr_terms(cls, st, l)["sh_size"], fl))) for l in range(z3.simplify(n).as_long())]))
                okv, mdl = valid(res, solver, pc, bad)
                res.add(f"C05.strtab_err_only_when_index_or_range_bad({name})", "holds" if okv else "violated", model_str(mdl, 20), mdl)
        # dynamic(): via the first SHT_DYNAMIC section (entsize gate), with BOTH tables present
        name = f"dynamic[{cls},sections+segments]"
        try:
            bp, bsol, bst = run_file_method(prog, "bytes", "dynamic", cls, True, True, tag="odyn", scope=no_compressed_sections(cls))
        except sym.Unsupported as u:
            res.add(f"L8.encode({name})", "inconclusive", str(u))
            bp = []
        solver = new_solver()
        if bp:
            no_panic_summary(res, name, bp)
        for p in bp:
            if p["status"] != "ok":
                continue
            st = p["env"]["tables"]
            fl = p["env"]["file_len"]
            firsts, none = first_of_type(cls, st, SHT["DYNAMIC"])
            v = p["value"]
            pc = p["pc"]
            if is_ok(v) and v.f[0].variant == "Some":
                tab = v.f[0].f[0]
                alts = [z3.And(c, t["sh_entsize"] == dynsize, slice_is(tab.f[2], t["sh_offset"], t["sh_size"])) for (c, t) in firsts]
                okv, mdl = valid(res, solver, pc, z3.Or(alts))
                res.add(f"C05.dynamic_section_entsize_gate({name})", "holds" if okv else "violated",
                        "" if okv else f"dynamic table {tab!r} returned: {model_str(mdl, 20)}", mdl)
            elif is_ok(v):
                okv, mdl = valid(res, solver, pc, none)
                res.add(f"C20.dynamic_none_iff_no_dynamic_section({name})", "holds" if okv else "violated", model_str(mdl, 20), mdl)


# ---------------------------------------------------------------------------------------------------------
# L6 (C20): find_common_data agrees with the targeted accessors; L9 (C13): symbol_version_table wiring oracle

KINDS = [SHT["SYMTAB"], SHT["DYNSYM"], SHT["DYNAMIC"], SHT["HASH"], SHT["GNU_HASH"], SHT["GNU_VERSYM"], SHT["GNU_VERNEED"], SHT["GNU_VERDEF"]]


def one_section_per_kind(cls, extra=None):
    """the property's scoping: at most one section of each kind; optionally no SHF_COMPRESSED; PT_DYNAMIC only with .dynamic"""
    def scope(ctx, obj, st):
        cs = []
        if st["sh"] is not None:
            n = z3.simplify(num_sections(cls, st)).as_long()
            ts = [shdr_terms(cls, st, i) for i in range(n)]
            for i in range(n):
                for j in range(i + 1, n):
                    cs.append(z3.Or(ts[i]["sh_type"] != ts[j]["sh_type"], z3.And([ts[i]["sh_type"] != k for k in KINDS])))
            if st["ph"] is not None:
                ci = 0 if cls == "ELF32" else 1
                pes = model.CLASS_SIZES["ProgramHeader"][ci]
                m = z3.simplify(z3.UDiv(st["ph"].len, bv(pes))).as_long()
                has_ptdyn = z3.Or([model.field_term("ProgramHeader", 0, ci, st["ph"].file_pos() + bv(i * pes), 32) == 2 for i in range(m)])
                has_shdyn = z3.Or([t["sh_type"] == SHT["DYNAMIC"] for t in ts])
                cs.append(z3.Implies(has_ptdyn, has_shdyn))
        if extra is not None:
            cs.append(extra(ctx, obj, st))
        return z3.And(cs + [z3.BoolVal(True)])
    return scope


def opt_equal(a, b):
    """Option<X> vs Option<X> content equality"""
    return equal_vals(a, b)


def lemma_L6(prog, res, cls="ELF64"):
    scope = one_section_per_kind(cls, extra=no_compressed_sections(cls))
    try:
        cp, csol, cst = run_file_method(prog, "bytes", "find_common_data", cls, True, True, tag="fcd", scope=scope)
        targeted = {}
        for m in ("symbol_table", "dynamic_symbol_table", "dynamic"):
            targeted[m] = run_file_method(prog, "bytes", m, cls, True, True, tag="t" + m[:6], scope=scope)
    except sym.Unsupported as u:
        res.add(f"L6.encode(find_common_data[{cls}])", "inconclusive", str(u))
        return
    res.stats["queries"] += cst["queries"]
    res.stats["paths"] += cst["paths"]
    solver = new_solver()
    ok_c = [p for p in cp if p["status"] == "ok" and is_ok(p["value"])]
    no_panic_summary(res, f"find_common_data[{cls}]", cp)
    for m, (tp, tsol, tst) in targeted.items():
        res.stats["queries"] += tst["queries"]
        res.stats["paths"] += tst["paths"]
        name = f"find_common_data~{m}[{cls}]"
        joint = 0
        for pc_ in ok_c:
            cd = pc_["value"].f[0]      # CommonElfData: symtab, symtab_strs, dynsyms, dynsyms_strs, dynamic, sysv_hash, gnu_hash
            for pt in tp:
                if pt["status"] != "ok" or not is_ok(pt["value"]):
                    continue
                pc = pc_["pc"] + pt["pc"]
                res.stats["queries"] += 1
                if solver.check(*pc) != z3.sat:
                    continue
                joint += 1
                tv = pt["value"].f[0]       # Option<...>
                if m in ("symbol_table", "dynamic_symbol_table"):
                    a_tab, a_str = (cd.f[0], cd.f[1]) if m == "symbol_table" else (cd.f[2], cd.f[3])
                    if tv.variant == "None":
                        claim = z3.BoolVal(a_tab.variant == "None" and a_str.variant == "None")
                    elif a_tab.variant == "None" or a_str.variant == "None":
                        claim = z3.BoolVal(False)
                    else:
                        claim = z3.And(equal_vals(a_tab.f[0], tv.f[0].f[0]), equal_vals(a_str.f[0], tv.f[0].f[1]))
                else:
                    a = cd.f[4]
                    if tv.variant == "None":
                        claim = z3.BoolVal(a.variant == "None")
                    elif a.variant == "None":
                        claim = z3.BoolVal(False)
                    else:
                        claim = equal_vals(a.f[0], tv.f[0])
                okv, mdl = valid(res, solver, pc, claim)
                res.add(f"C20.common_data_equals_targeted({name})", "holds" if okv else "violated",
                        "" if okv else f"{m}()={tv!r} vs find_common_data={[cd.f[0], cd.f[1]] if m == 'symbol_table' else ([cd.f[2], cd.f[3]] if m == 'dynamic_symbol_table' else cd.f[4])!r}: {model_str(mdl, 16)}"[:1200], mdl)
        res.add(f"L6.witness.joint_ok_pairs({name})", "holds" if joint >= 3 else "inconclusive", f"{joint} joint Ok/Ok path pairs")
    # dynamic() through PT_DYNAMIC (no section table): the first PT_DYNAMIC segment's [p_offset, p_offset+p_filesz)
    try:
        dp, dsol, dst = run_file_method(prog, "bytes", "dynamic", cls, False, True, tag="dseg")
    except sym.Unsupported as u:
        res.add(f"L6.encode(dynamic via segments[{cls}])", "inconclusive", str(u))
        return
    ci = 0 if cls == "ELF32" else 1
    pes = model.CLASS_SIZES["ProgramHeader"][ci]
    for p in dp:
        if p["status"] != "ok":
            res.add(f"C01.no_panic(dynamic[{cls},segments], engine B)", "violated", p["status"])
            continue
        v = p["value"]
        st = p["env"]["tables"]
        m_ = z3.simplify(z3.UDiv(st["ph"].len, bv(pes))).as_long()
        prev = []
        alts = []
        for j in range(m_):
            base = st["ph"].file_pos() + bv(j * pes)
            ty = model.field_term("ProgramHeader", 0, ci, base, 32)
            off = model.field_term("ProgramHeader", 1, ci, base, 64)
            fsz = model.field_term("ProgramHeader", 4, ci, base, 64)
            alts.append((z3.And(ty == 2, *prev), off, fsz))
            prev.append(ty != 2)
        if is_ok(v) and v.f[0].variant == "Some":
            tab = v.f[0].f[0]
            okv, mdl = valid(res, dsol, p["pc"], z3.Or([z3.And(c, slice_is(tab.f[2], off, fsz)) for (c, off, fsz) in alts]))
            res.add(f"C20.dynamic_via_PT_DYNAMIC_is_[p_offset,p_filesz)({cls})", "holds" if okv else "violated", model_str(mdl, 16), mdl)
        elif is_ok(v):
            okv, mdl = valid(res, dsol, p["pc"], z3.And(prev))
            res.add(f"C20.dynamic_none_iff_no_PT_DYNAMIC({cls})", "holds" if okv else "violated", model_str(mdl, 16), mdl)


def lemma_L9(prog, res, cls="ELF64"):
    """symbol_version_table: the table handed out is SymbolVersionTable::new over exactly the designated ranges"""
    scope = one_section_per_kind(cls)
    name = f"symbol_version_table[{cls}]"
    try:
        bp, bsol, bst = run_file_method(prog, "bytes", "symbol_version_table", cls, True, False, tag="svt", scope=scope, k_sh=3)
    except sym.Unsupported as u:
        res.add(f"L9.encode({name})", "inconclusive", str(u))
        return
    res.stats["queries"] += bst["queries"]
    res.stats["paths"] += bst["paths"]
    solver = new_solver()
    counts = dict(some=0, none=0, err=0)
    no_panic_summary(res, name, bp)
    for p in bp:
        if p["status"] != "ok":
            continue
        st = p["env"]["tables"]
        fl = p["env"]["file_len"]
        v = p["value"]
        pc = p["pc"]
        n = z3.simplify(num_sections(cls, st)).as_long()
        ts = [shdr_terms(cls, st, i) for i in range(n)]

        def the(ty):
            return [(t["sh_type"] == ty, t) for t in ts], z3.And([t["sh_type"] != ty for t in ts])
        vs_alts, vs_none = the(SHT["GNU_VERSYM"])
        if is_ok(v) and v.f[0].variant == "None":
            counts["none"] += 1
            okv, mdl = valid(res, solver, pc, vs_none)
            res.add(f"C13.none_iff_no_versym_section({name})", "holds" if okv else "violated", model_str(mdl, 16), mdl)
            continue
        if not is_ok(v):
            counts["err"] += 1
            continue
        counts["some"] += 1
        tbl = v.f[0].f[0]     # SymbolVersionTable { version_ids, verneeds, verdefs }
        ids, needs, defs = tbl.f[0], tbl.f[1], tbl.f[2]
        claim = z3.Or([z3.And(c, t["sh_entsize"] == 2, slice_is(ids.f[2], t["sh_offset"], t["sh_size"]), range_fits(t["sh_offset"], t["sh_size"], fl)) for (c, t) in vs_alts])
        okv, mdl = valid(res, solver, pc, claim)
        res.add(f"C13.versym_table_is_designated_range_with_entsize_2({name})", "holds" if okv else "violated", model_str(mdl, 16), mdl)
        for (label, opt, ty) in (("verneed", needs, SHT["GNU_VERNEED"]), ("verdef", defs, SHT["GNU_VERDEF"])):
            alts, none = the(ty)
            if opt.variant == "None":
                okv, mdl = valid(res, solver, pc, none)
                res.add(f"C13.{label}_absent_iff_no_section({name})", "holds" if okv else "violated", model_str(mdl, 16), mdl)
                continue
            it, strs = opt.f[0].f[0], opt.f[0].f[1]     # iterator {endian, class, count, data, offset}, StringTable {data}
            cs = []
            for (c, t) in alts:
                links, _oob = linked(cls, st, t["sh_link"])
                for (lc, lt) in links:
                    cs.append(z3.And(c, lc, it.f[2].e == z3.ZeroExt(32, t["sh_info"]), it.f[4].e == 0,
                                     slice_is(it.f[3], t["sh_offset"], t["sh_size"]), slice_is(strs.f[0], lt["sh_offset"], lt["sh_size"]),
                                     range_fits(t["sh_offset"], t["sh_size"], fl), range_fits(lt["sh_offset"], lt["sh_size"], fl)))
            okv, mdl = valid(res, solver, pc, z3.Or(cs))
            res.add(f"C13.{label}_iterator_wired_to_section_info_and_link({name})", "holds" if okv else "violated",
                    "" if okv else f"iterator={it!r} strtab={strs!r}: {model_str(mdl, 16)}"[:900], mdl)
    res.add(f"L9.witness.paths({name})", "holds" if all(counts[k] >= 1 for k in counts) else "inconclusive", str(counts))


def lemma_L6b(prog, res, cls="ELF64"):
    """find_common_data on files with ALL five common sections (5-entry table; the five kinds in every rotation of the order,
    so that each kind is last once), all other header fields symbolic: every member of CommonElfData is found and is the
    designated range of its section."""
    kinds = [("symtab", SHT["SYMTAB"]), ("dynsyms", SHT["DYNSYM"]), ("dynamic", SHT["DYNAMIC"]), ("sysv_hash", SHT["HASH"]), ("gnu_hash", SHT["GNU_HASH"])]
    ci = 0 if cls == "ELF32" else 1
    for rot in range(5):
        order = kinds[rot:] + kinds[:rot]
        name = f"find_common_data[{cls}, section order {'/'.join(k for k, _ in order)}]"

        def scope(ctx, obj, st, order=order):
            cs = [shdr_terms(cls, st, i)["sh_type"] == order[i][1] for i in range(5)]
            cs.append(no_compressed_sections(cls)(ctx, obj, st))
            return z3.And(cs)
        try:
            cp, csol, cst = run_file_method(prog, "bytes", "find_common_data", cls, True, False, tag=f"fc{rot}", scope=scope, k_sh=5, kmin_sh=5)
        except sym.Unsupported as u:
            res.add(f"L6b.encode({name})", "inconclusive", str(u))
            continue
        res.stats["queries"] += cst["queries"]
        res.stats["paths"] += cst["paths"]
        solver = new_solver()
        n_ok = 0
        for p in cp:
            if p["status"] != "ok":
                res.add(f"C01.no_panic({name}, engine B)", "violated", p["status"])
                continue
            v = p["value"]
            if not is_ok(v):
                continue
            n_ok += 1
            cd = v.f[0]       # symtab, symtab_strs, dynsyms, dynsyms_strs, dynamic, sysv_hash, gnu_hash
            st = p["env"]["tables"]
            pos = {k: i for i, (k, _) in enumerate(order)}
            members = {"symtab": cd.f[0], "dynsyms": cd.f[2], "dynamic": cd.f[4], "sysv_hash": cd.f[5], "gnu_hash": cd.f[6]}
            missing = [k for k, m in members.items() if m.variant != "Some"]
            if missing or cd.f[1].variant != "Some" or cd.f[3].variant != "Some":
                res.add(f"C20.common_data_finds_every_common_section({name})", "violated",
                        f"find_common_data returned Ok but left {missing or 'a string table'} empty although a section of that kind exists (position {[pos[k] for k in missing]} of 5)")
                continue
            claims = []
            for k in ("symtab", "dynsyms", "dynamic"):
                t = shdr_terms(cls, st, pos[k])
                claims.append(slice_is(members[k].f[0].f[2], t["sh_offset"], t["sh_size"]))
            for (k, strs) in (("symtab", cd.f[1]), ("dynsyms", cd.f[3])):
                t = shdr_terms(cls, st, pos[k])
                links, _ = linked(cls, st, t["sh_link"])
                claims.append(z3.Or([z3.And(lc, slice_is(strs.f[0].f[0], lt["sh_offset"], lt["sh_size"])) for (lc, lt) in links]))
            th = shdr_terms(cls, st, pos["sysv_hash"])
            claims.append(model.as_slice(members["sysv_hash"].f[0].f[0].f[2]).file_pos() == th["sh_offset"] + 8)
            tg = shdr_terms(cls, st, pos["gnu_hash"])
            claims.append(model.as_slice(members["gnu_hash"].f[0].f[3]).file_pos() == tg["sh_offset"] + 16)
            okv, mdl = valid(res, solver, p["pc"], z3.And(claims))
            res.add(f"C20.common_data_members_are_the_designated_ranges({name})", "holds" if okv else "violated", model_str(mdl, 12), mdl)
            res.add(f"C20.common_data_finds_every_common_section({name})", "holds")
        res.add(f"L6b.witness.ok_paths({name})", "holds" if n_ok >= 1 else "inconclusive", f"{n_ok} Ok paths of {len(cp)}")


def lemma_byname(prog, res, cls="ELF64"):
    """section_header_by_name (slice parser): the first section (table order) whose name string - the terminated UTF-8 entry of the
    section-name string table at sh_name - equals the query; None otherwise (C20)."""
    name = f"section_header_by_name[{cls}]"
    try:
        bp, bsol, bst = run_file_method(prog, "bytes", "section_header_by_name", cls, True, False, tag="byn", extra_args=query_arg, k_sh=3)
    except sym.Unsupported as u:
        res.add(f"L8.encode({name})", "inconclusive", str(u))
        return
    res.stats["queries"] += bst["queries"]
    res.stats["paths"] += bst["paths"]
    solver = new_solver()
    q = z3.BitVec("query.name", 64)
    okf = model.F("strtab_entry_is_terminated_utf8", model.BV64, model.BV64, z3.BoolSort())
    idf = model.F("strtab_entry_content", model.BV64, model.BV64, model.BV64)
    counts = dict(some=0, none=0)
    no_panic_summary(res, name, bp)
    for p in bp:
        if p["status"] != "ok":
            continue
        v = p["value"]
        if not is_ok(v):
            continue
        st = p["env"]["tables"]
        ehdr = p["env"]["obj"].f[0]
        shstrndx = ehdr.f[16].e
        n = z3.simplify(num_sections(cls, st)).as_long()
        ts = [shdr_terms(cls, st, i) for i in range(n)]
        idx = z3.If(shstrndx == 0xffff, z3.ZeroExt(32, ts[0]["sh_link"]), z3.ZeroExt(48, shstrndx))
        # string table = range of section idx (one alternative per concrete l)
        alts_some = []
        alts_none = [shstrndx == 0]
        for l in range(n):
            so, ss = ts[l]["sh_offset"], ts[l]["sh_size"]
            match = []
            for j in range(n):
                off = z3.ZeroExt(32, ts[j]["sh_name"])
                m_j = z3.And(z3.ULT(off, ss), okf(so + off, so + ss), idf(so + off, so + ss) == q)
                match.append(m_j)
            for j in range(n):
                first_j = z3.And(match[j], *[z3.Not(match[k]) for k in range(j)])
                alts_some.append((z3.And(shstrndx != 0, idx == l, first_j), j))
            alts_none.append(z3.And(shstrndx != 0, idx == l, *[z3.Not(m) for m in match]))
        if v.f[0].variant == "Some":
            counts["some"] += 1
            sh = v.f[0].f[0]
            claim = z3.Or([z3.And(c, equal_vals(sh, Agg([IntV(ts[j][f]) for (f, w) in model.SHDR_FIELDS], "SectionHeader"))) for (c, j) in alts_some])
            okv, mdl = valid(res, solver, p["pc"], claim)
            res.add(f"C20.by_name_returns_first_section_with_equal_name({name})", "holds" if okv else "violated", model_str(mdl, 16), mdl)
        else:
            counts["none"] += 1
            okv, mdl = valid(res, solver, p["pc"], z3.Or(alts_none))
            res.add(f"C20.by_name_none_iff_no_section_has_that_name({name})", "holds" if okv else "violated", model_str(mdl, 16), mdl)
    res.add(f"L8.witness.paths({name})", "holds" if counts["some"] >= 2 and counts["none"] >= 2 else "inconclusive", str(counts))



def crosscheck_cvc5(res):
    """re-decide a sample of the z3-decided queries with cvc5 (SMT-LIB2 through z3's printer); any disagreement is reported"""
    import tempfile
    agree = disagree = unknown = 0
    for (cs, verdict) in (RECORD or []):
        s = z3.Solver()
        s.add(*cs)
        smt = "(set-logic ALL)\n" + s.to_smt2()
        with tempfile.NamedTemporaryFile("w", suffix=".smt2", delete=False, dir=os.path.join(VERIF, ".build")) as f:
            f.write(smt)
            fn = f.name
        try:
            r = subprocess.run(["cvc5", "--lang", "smt2", "--tlimit=20000", fn], stdout=subprocess.PIPE, stderr=subprocess.STDOUT, text=True, timeout=40)
            out = r.stdout.strip().splitlines()
            ans = out[0].strip() if out else "unknown"
        except subprocess.TimeoutExpired:
            ans = "unknown"
        os.remove(fn)
        if ans == verdict:
            agree += 1
        elif ans in ("sat", "unsat"):
            disagree += 1
            res.add("XCHECK.cvc5_agrees_with_z3", "violated", f"z3 says {verdict}, cvc5 says {ans} on a recorded query")
        else:
            unknown += 1
    res.add("XCHECK.cvc5_agrees_with_z3", "holds" if disagree == 0 and agree > 0 else ("inconclusive" if agree == 0 else "violated"),
            f"{agree} sampled queries re-decided identically by cvc5, {unknown} cvc5 timeouts/unknown, {disagree} disagreements")



def lemma_L7strtab(prog, res):
    global LOOPED
    saved = LOOPED
    LOOPED = [("section_headers_with_strtab", False)]
    try:
        lemma_L7(prog, res)
    finally:
        LOOPED = saved



def lemma_L7symver3(prog, res):
    """stream vs slice symbol_version_table on 3-entry tables (.gnu.version + _r + _d together), fault-free, empty cache, pairwise
    distinct section ranges"""
    global LOOPED, K_OF
    saved = (LOOPED, K_OF)
    LOOPED = [("symbol_version_table", True)]
    K_OF = {"symbol_version_table": 3}
    try:
        lemma_L7(prog, res)
    finally:
        LOOPED, K_OF = saved



def lemma_L7symverfixed(prog, res, cls="ELF64"):
    """stream vs slice symbol_version_table on 3-entry tables whose section kinds are fixed (.gnu.version, .gnu.version_r, .gnu.version_d
    in two orders), every other header field symbolic, fault-free reader, empty cache, pairwise distinct ranges (quick-tier variant of L7symver3)"""
    orders = [(SHT["GNU_VERSYM"], SHT["GNU_VERNEED"], SHT["GNU_VERDEF"]), (SHT["GNU_VERNEED"], SHT["GNU_VERDEF"], SHT["GNU_VERSYM"])]
    for oi, order in enumerate(orders):
        name = f"symbol_version_table[{cls}, kinds {'/'.join(hex(t) for t in order)}]"

        def scope(ctx, obj, st, order=order):
            base = distinct_ranges(cls, no_compressed_sections(cls))(ctx, obj, st)
            return z3.And([base] + [shdr_terms(cls, st, i)["sh_type"] == order[i] for i in range(3)])
        try:
            sp, _, sst = run_file_method(prog, "stream", "symbol_version_table", cls, True, False, scope=scope, k_sh=3, kmin_sh=3, empty_cache=True, tag=f"sv{oi}")
            bp, _, bst = run_file_method(prog, "bytes", "symbol_version_table", cls, True, False, scope=scope, k_sh=3, kmin_sh=3, tag=f"bv{oi}")
        except sym.Unsupported as u:
            res.add(f"L7.encode({name})", "inconclusive", str(u))
            continue
        for st_ in (sst, bst):
            res.stats["queries"] += st_["queries"]
            res.stats["paths"] += st_["paths"]
        pair_compare(res, name, sp, bp, True)


# ---------------------------------------------------------------------------------------------------------
# Lprefix (C18): every slice-parser query on a proper prefix of a file is Err or exactly the full file's answer.
# Two executions of the same MIR body share the content function file_uW_at(pos) (a prefix has the same bytes at the positions it
# has) and differ only in the length symbol: file_len for the complete file, prefix_len <= file_len for the prefix. No size bound.


class _prefix_len:
    def __enter__(self):
        model.LEN_NAME = "prefix_len"

    def __exit__(self, *a):
        model.LEN_NAME = "file_len"


def prefix_compare(res, name, pp, fp_, proj=None):
    """pp: paths on the prefix, fp_: paths on the complete file"""
    solver = new_solver()
    rel = z3.ULE(z3.BitVec("prefix_len", 64), z3.BitVec("file_len", 64))
    pairs = both = errs = 0
    bad = False
    for a in pp:
        if a["status"] != "ok":
            continue
        if not is_ok(a["value"]):
            errs += 1
            continue          # an error on the prefix is always allowed
        for b in fp_:
            pc = a["pc"] + b["pc"] + [rel]
            res.stats["queries"] += 1
            if solver.check(*pc) != z3.sat:
                continue
            pairs += 1
            if b["status"] != "ok":
                continue      # a panic on the full file is C01's finding
            if not is_ok(b["value"]):
                mdl = solver.model()
                bad = True
                res.add(f"C18.prefix_ok_implies_full_ok({name})", "violated", f"prefix answers Ok({a['value'].f[0]!r}) where the complete file errs: {model_str(mdl, 24)}"[:900], mdl)
                continue
            both += 1
            x = proj(a["value"].f[0]) if proj else a["value"].f[0]
            y = proj(b["value"].f[0]) if proj else b["value"].f[0]
            okv, mdl = valid(res, solver, pc, equal_vals(x, y))
            if not okv:
                bad = True
            res.add(f"C18.prefix_answer_equals_full_answer({name})", "holds" if okv else "violated",
                    "" if okv else f"prefix={x!r} full={y!r} :: {model_str(mdl, 24)}"[:1200], mdl)
    res.add(f"C18.prefix_err_or_same({name})", "violated" if bad else "holds",
            f"{len(pp)} prefix paths ({errs} Err) x {len(fp_)} full-file paths, {pairs} joint Ok-prefix pairs, {both} both-Ok")
    res.add(f"Lprefix.witness.both_ok({name})", "holds" if both >= 1 and errs >= 1 else "inconclusive", f"both-Ok={both}, prefix-Err paths={errs}")


PREFIX_STRAIGHT = [("section_data", "shdr"), ("section_data_as_strtab", "shdr"), ("section_data_as_rels", "shdr"),
                   ("section_data_as_relas", "shdr"), ("section_data_as_notes", "shdr"), ("segment_data", "phdr"),
                   ("segment_data_as_notes", "phdr")]
PREFIX_LOOPED = ["symbol_table", "dynamic_symbol_table", "dynamic", "section_headers_with_strtab", "symbol_version_table",
                 "section_header_by_name", "find_common_data"]


def lemma_Lprefix(prog, res, classes=("ELF64",), straight=None, looped=None):
    def acct(*sts):
        for st in sts:
            res.stats["queries"] += st["queries"]
            res.stats["paths"] += st["paths"]
    # (a) open
    try:
        fpaths, _, fst = run_minimal_parse(prog, tag="pfF")
        with _prefix_len():
            ppaths, _, pst = run_minimal_parse(prog, tag="pfP")
        acct(fst, pst)
        # the ElfBytes value is (ehdr, data, shdrs, phdrs): everything but the data slice itself (whose length is the input's) must agree
        prefix_compare(res, "minimal_parse", ppaths, fpaths, proj=lambda eb: Agg([eb.f[0], eb.f[2], eb.f[3]], "proj"))
    except sym.Unsupported as u:
        res.add("Lprefix.encode(minimal_parse)", "inconclusive", str(u))
    for cls in classes:
        # (b) header-argument accessors (header fully symbolic, incl. SHF_COMPRESSED and SHT_NOBITS)
        for (method, kind) in (straight if straight is not None else PREFIX_STRAIGHT):
            name = f"{method}[{cls}]"
            mk = (lambda: [mk_shdr()]) if kind == "shdr" else (lambda: [mk_phdr()])
            try:
                fpaths, _, fst = run_bytes_method(prog, method, cls, mk, tag="pF" + method[-5:])
                with _prefix_len():
                    ppaths, _, pst = run_bytes_method(prog, method, cls, mk, tag="pP" + method[-5:])
            except sym.Unsupported as u:
                res.add(f"Lprefix.encode({name})", "inconclusive", str(u))
                continue
            acct(fst, pst)
            prefix_compare(res, name, ppaths, fpaths)
        # (c) table-driven accessors on bounded tables (the prefix opened with the same tables: both fit inside the prefix)
        for method in (looped if looped is not None else PREFIX_LOOPED):
            for (ws, wp) in (((True, True),) if method == "find_common_data" else ((True, False), (False, True)) if method == "dynamic" else ((True, False),)):
                name = f"{method}[{cls},{'sections+segments' if ws and wp else 'sections' if ws else 'segments only'}]"
                xa = query_arg if method == "section_header_by_name" else None
                try:
                    fpaths, _, fst = run_file_method(prog, "bytes", method, cls, ws, wp, extra_args=xa, tag="qF" + method[:5])
                    with _prefix_len():
                        ppaths, _, pst = run_file_method(prog, "bytes", method, cls, ws, wp, extra_args=xa, tag="qP" + method[:5])
                except sym.Unsupported as u:
                    res.add(f"Lprefix.encode({name})", "inconclusive", str(u))
                    continue
                acct(fst, pst)
                prefix_compare(res, name, ppaths, fpaths)


# ---------------------------------------------------------------------------------------------------------
# Lnoalloc (C06): no MIR body of the slice parser (everything outside elf_stream.rs and the alloc-gated *_to_string helpers)
# contains a call edge to an allocating function. Path-insensitive (every call terminator of every non-cleanup block counts), hence
# valid for all inputs with no bound; a reported edge is confirmed natively (counting allocator) before it becomes a VIOLATION.

ALLOC_TYPES = {"Vec", "String", "Box", "Rc", "Arc", "HashMap", "BTreeMap", "HashSet", "BTreeSet", "VecDeque", "BinaryHeap", "CString", "Cow", "RawVec"}
ALLOC_METHODS = {"to_vec", "to_owned", "to_string", "into_boxed_slice", "into_boxed_str", "into_owned", "with_capacity", "from_utf8_lossy", "format",
                 "exchange_malloc", "into_vec", "repeat", "to_uppercase", "to_lowercase", "concat", "join"}


def is_allocating_callee(callee):
    c = callee.strip()
    if re.search(r"(^|[\s<(&])alloc::(?!fmt::Arguments)", c) or "exchange_malloc" in c:
        return True
    ty, meth = mir.callee_key(c)
    if ty in ALLOC_TYPES:
        return True
    if meth in ALLOC_METHODS:
        return True
    if meth == "collect" and re.search(r"collect::<\s*(Vec|String|Box|alloc::|std::vec|std::string|std::collections|Rc|Arc|HashMap|BTreeMap)", c):
        return True
    return False


_fn_module_cache = {}


def fn_source_module(f, src_root):
    m = re.search(r"<impl at src/([\w/]+)\.rs", f.path)
    if m:
        return m.group(1)
    parts = f.path.split("::")
    if len(parts) > 1 and parts[0].islower():
        return parts[0]
    # free function printed without its module: look its definition up in the sources
    name = re.sub(r"<.*", "", parts[0])
    if not _fn_module_cache:
        srcdir = os.path.join(src_root, "src")
        for fn in sorted(os.listdir(srcdir)):
            if fn.endswith(".rs"):
                for mm in re.finditer(r"\bfn\s+(\w+)", open(os.path.join(srcdir, fn)).read()):
                    _fn_module_cache.setdefault(mm.group(1), set()).add(fn[:-3])
    mods = _fn_module_cache.get(name, set())
    return sorted(mods)[0] if len(mods) == 1 else ("?" + "|".join(sorted(mods)))


def lemma_noalloc(prog, res):
    fns = []
    for key, lst in prog.by_key.items():
        fns.extend(lst)
    seen = set()
    n_calls = n_fns = 0
    for f in fns:
        if id(f) in seen:
            continue
        seen.add(id(f))
        mod = fn_source_module(f, prog.src_root)
        if mod == "elf_stream" or (mod == "to_str" and "_to_string" in f.path):
            continue          # the stream parser owns buffers by design; *_to_string return String and are gated by the alloc feature
        n_fns += 1
        bad = []
        for bb, (stmts, term, cleanup) in f.blocks.items():
            if cleanup or not term:
                continue
            m = re.match(r"^(.+?) = (.+) -> \[return: (bb\d+)", term) or re.match(r"^(.+?) = (.+) -> unwind", term)
            if not m:
                continue
            try:
                callee, _ = sym.split_call(m.group(2))
            except Exception:
                continue
            n_calls += 1
            if is_allocating_callee(callee):
                bad.append((bb, callee))
        res.stats["queries"] += 1
        res.add(f"C06.no_allocating_callee({f.path[:120]})", "violated" if bad else "holds",
                "" if not bad else f"{f.path} ({bb_list(bad)}) calls an allocating function on some path of the slice parser")
    res.add("Lnoalloc.witness.bodies_scanned", "holds" if n_fns >= 100 and n_calls >= 300 else "inconclusive", f"{n_fns} MIR bodies, {n_calls} call edges")


def bb_list(bad):
    return "; ".join(f"{bb}: {c[:100]}" for bb, c in bad[:4])
