import sys, json, time, argparse, traceback
import z3
from . import lemmas, sym

LEMMAS = {
    "L1": lambda prog, res: (lemmas.lemma_L1(prog, res), lemmas.lemma_read_get(prog, res), lemmas.lemma_new(prog, res)),
    "L2": lambda prog, res: lemmas.lemma_L2(prog, res),
    "L2quick": lambda prog, res: lemmas.lemma_L2(prog, res, methods=["section_data", "segment_data_as_notes"], classes=("ELF64",)),
    "L3": lambda prog, res: lemmas.lemma_L3(prog, res),
    "L5": lambda prog, res: lemmas.lemma_L5(prog, res),
    "L8": lambda prog, res: lemmas.lemma_L8(prog, res),
    "L8both": lambda prog, res: lemmas.lemma_L8(prog, res, classes=("ELF32", "ELF64")),
    "L6": lambda prog, res: lemmas.lemma_L6(prog, res),
    "L9": lambda prog, res: (lemmas.lemma_L9(prog, res, "ELF64"), lemmas.lemma_L9(prog, res, "ELF32")),
    "L6b": lambda prog, res: lemmas.lemma_L6b(prog, res),
    "Lbyname": lambda prog, res: lemmas.lemma_byname(prog, res),
    "L7strtab": lambda prog, res: lemmas.lemma_L7strtab(prog, res),
    "L7symver3": lambda prog, res: lemmas.lemma_L7symver3(prog, res),
    "L7symverfixed": lambda prog, res: lemmas.lemma_L7symverfixed(prog, res),
    "L7": lambda prog, res: lemmas.lemma_L7(prog, res),
    "Lnoalloc": lambda prog, res: lemmas.lemma_noalloc(prog, res),
    "Lprefix": lambda prog, res: lemmas.lemma_Lprefix(prog, res),
    "Lprefixquick": lambda prog, res: lemmas.lemma_Lprefix(prog, res, looped=["symbol_table", "dynamic_symbol_table", "dynamic", "section_headers_with_strtab", "section_header_by_name"]),
    "Lprefix32": lambda prog, res: lemmas.lemma_Lprefix(prog, res, classes=("ELF32",), looped=["symbol_table", "dynamic_symbol_table", "dynamic", "section_headers_with_strtab", "section_header_by_name"]),
    "L7both": lambda prog, res: lemmas.lemma_L7(prog, res, classes=("ELF32", "ELF64")),
}


def main():
    ap = argparse.ArgumentParser()
    ap.add_argument("--lemmas", required=True)
    ap.add_argument("--out", required=True)
    a = ap.parse_args()
    t0 = time.time()
    errors = []
    prog = lemmas.load_program()
    res = lemmas.Result()
    lem = a.lemmas.split(",")
    if "XCHECK" in lem:
        lemmas.RECORD = []
    for l in [x for x in lem if x != "XCHECK"]:
        try:
            LEMMAS[l](prog, res)
        except sym.Unsupported as u:
            res.add(f"{l}.encode", "inconclusive", f"MIR construct or callee outside the encoder: {u}")
            errors.append(f"{l}: {u}")
        except Exception as ex:
            res.add(f"{l}.encode", "inconclusive", f"internal error: {ex!r}")
            errors.append(f"{l}: {traceback.format_exc()[-800:]}")
    if "XCHECK" in lem:
        lemmas.crosscheck_cvc5(res)
    obs = []
    for o in res.obligations:
        m = o.pop("model", None)
        if m is not None:
            mv = {}
            try:
                for dcl in m.decls():
                    if dcl.arity() == 0:
                        mv[dcl.name()] = str(m[dcl])
            except Exception:
                pass
            o["model_values"] = mv
        obs.append(o)
    json.dump(dict(obligations=obs, stats=res.stats, solver_s=round(time.time() - t0 - prog.mir_dump_s, 1),
                   functions_encoded=sorted(prog.encoded), summaries=sorted(prog.summarised), mir_lines=prog.mir_lines,
                   mir_dump_s=prog.mir_dump_s, z3_version=z3.get_version_string(), errors=errors), open(a.out, "w"), indent=1)


if __name__ == "__main__":
    main()
