"""Per-property check definitions. Each property has a list of groups; a group is one engine run.

Kani group keys: engine='kani', crate, filters (substring filters on harness names), tier ('quick' groups
also run in thorough), timeout_s (per harness), cbmc_args, features, functions (encoded entry points),
bounds (text), stubs (list).
"""

def K(crate, filters, tier="quick", timeout_s=600, cbmc_args=None, features=None, functions=None,
      bounds="", stubs=None, jobs=16, gen=None, extra_kani=None, expect_fail=None):
    return dict(engine="kani", crate=crate, filters=filters, tier=tier, timeout_s=timeout_s,
                cbmc_args=cbmc_args or [], features=features, functions=functions or [], bounds=bounds,
                stubs=stubs or [], jobs=jobs, gen=gen, extra_kani=extra_kani or [], expect_fail=expect_fail)


def X(kind, tier="quick", **kw):
    d = dict(engine="misc", kind=kind, tier=tier, filters=["misc:" + kind])
    d.update(kw)
    return d


def _gen_abi():
    from . import genabi
    genabi.main()

def M(lemmas, select, tier="quick", timeout_s=1800, bounds=""):
    return dict(engine="mirsym", lemmas=lemmas, select=select, tier=tier, timeout_s=timeout_s, bounds=bounds, filters=["mirsym:" + "+".join(lemmas)])

MIRSYM_ASSUME = [
    "engine B executes the MIR text of /repo's current tree (cargo +nightly rustc -Zunpretty=mir, overflow checks on), 64-bit usize",
    "trusted summaries: HashMap<(usize,usize),Box<[u8]>> as a finite map; Seek::seek(Start(p)/End(0)) = Err or Ok with position set; Read::read_exact = Err (buffer unspecified) or Ok only if pos+len <= file_len with buf == file[pos..pos+len] "
    "(std's contract; short reads and Interrupted retries happen inside read_exact); vec![0;n].into_boxed_slice() = one allocation of n bytes; Try/FromResidual/ok_or/expect/checked_add/checked_mul/try_into by definition",
    "leaf parsers parse_ident, FileHeader::parse_tail, SectionHeader::parse_at, CompressionHeader::parse_at are uninterpreted functions of the file position they read (same function on both sides) with the Ok-iff-bytes-present contract that engine A decides in C02/C10",
    "cache representation invariant Inv assumed for the pre-state: every cached key (s,e) holds file[s..e] with s <= e <= stream_len == file_len; shown preserved by every encoded operation (inductive step); the step to whole call histories is a pen-and-paper induction",
    "cleanup (unwind) blocks are not executed",
]

COMMON_ASSUME = [
    "usize is 64 bits (Kani models the x86_64 host target; no 32-bit target installed)",
    "Kani/CBMC 6.11 translation of MIR and CaDiCaL's verdict are trusted",
    "harness crates depend on /repo by path and are recompiled from its working tree on every run",
]

PROPS = {}

NOT_APPLICABLE = {f"C{i:02d}": "check not built yet (work in progress; see DESIGN.md for the plan)" for i in range(1, 21)}

PROPS["C04"] = dict(
    title="Endian-aware integer reads",
    technique="bounded model checking of the compiled code (Kani/CBMC, SAT): symbolic buffer, length and offset; iff-characterisation asserted",
    level_text="Every integer read of every byte-order spec is checked by the SAT solver for all buffers of <= 12 bytes, all lengths and all 2^64 offsets at once: "
               "Ok iff the bytes are there, value = bytes in that order, offset advanced by width, untouched on error; AnyEndian == fixed spec. "
               "Bounded model checking is the right level: the code is loop-free integer/slice arithmetic whose rare cases (offset overflow, read touching the end) are single points in a huge space.",
    level_note="Bound: buffer <= 12 bytes (the reads are <= 8 bytes wide, cost is independent of buffer size); usize = 64 bit; trusted: Kani's MIR translation, CBMC, CaDiCaL, the 8-line reference extractor in the harness.",
    groups=[
        K("core", ["c04::"], functions=["EndianParse::parse_{u8,u16,u32,u64,i32,i64}_at for LittleEndian, BigEndian, AnyEndian::{Little,Big}, NativeEndian",
                                        "is_little/is_big"],
          bounds="buffer capacity 12 bytes, length symbolic 0..=12, all byte values symbolic, offset any usize (2^64 values); unwind 10",
          timeout_s=300),
    ],
    assumptions=["reference value is computed in the harness by explicit shift/or over the byte positions"],
)

PROPS["C02"] = dict(
    title="ABI-exact decoding",
    technique="bounded model checking of the compiled parsers (Kani/CBMC, SAT) against gABI layout tables written in the harness",
    level_text="For each of the 17 ParseAt structures x both classes (byte order symbolic) plus FileHeader::parse_tail, the solver decides for ALL byte contents of one record, "
               "all buffer lengths and all 2^64 start offsets that parse succeeds iff the record's ABI size is available (and the version word is 1 for verdef/verneed), consumes exactly the ABI size and returns "
               "exactly the fields the gABI layout designates (zero/sign extension, r_info/st_info/st_other/version-index splits). This is effectively exhaustive over a record's bytes, which no finite test list is.",
    level_note="Bound: one record per call, buffer = ABI size + 4 bytes; private link fields (vd_aux/vd_next/...) and the note header are covered behaviourally by C13/C14; trusted: the layout tables in harness/core/src/c02.rs (from the gABI/GNU docs), Kani/CBMC/CaDiCaL; usize = 64 bit.",
    groups=[
        K("core", ["c02::", "c10::ident_"], functions=["file::parse_ident (16 symbolic e_ident bytes, 4 byte-order specs: class, data, OSABI and ABI version taken from bytes 4, 5, 7, 8)", "<T as ParseAt>::{parse_at,size_for,validate_entsize} for SectionHeader, ProgramHeader, Symbol, Rel, Rela, Dyn, CompressionHeader, SysVHashHeader, GnuHashHeader, VersionIndex, VerDef, VerDefAux, VerNeed, VerNeedAux, NoteGnuAbiTag, u32, u64",
                                        "FileHeader::parse_tail", "Symbol::{st_bind,st_symtype,st_vis,is_undefined}", "Dyn::{d_val,d_ptr}", "VersionIndex::{index,is_hidden,is_local,is_global}"],
          bounds="record bytes all symbolic; buffer capacity size+4 with symbolic length; start offset any usize; class fixed per harness; byte order symbolic; unwind 9",
          timeout_s=600),
    ],
    assumptions=["layout oracle: (field, offset, width, signedness) tables in harness/core/src/c02.rs written from the gABI and GNU symbol-versioning documents"],
)

PROPS["C09"] = dict(
    title="Lazy-table coherence",
    technique="bounded model checking (Kani/CBMC, SAT) of ParsingTable/ParsingIterator on symbolic bytes with ragged lengths and an unconstrained index",
    level_text="For each entry type the solver decides, for all table contents and all byte lengths 0..K*entsize+entsize-1 (K=2 quick, up to 3 thorough) and ANY usize index: len()==bytes/entsize, is_empty()==(len()==0), "
               "get(i) ok iff i<len(), get(i)==the ABI record at i*entsize, repeated access stable, iter()/into_iter() yield exactly len() items with item j == get(j), relocation iterators yield exactly the whole entries and then stop; positional Iterator methods on a table iterator (nth after s next() calls, skip, count, last) agree with get(s+m)/len().",
    level_note="Bound: at most K=2 (some K=3) whole entries plus a ragged tail; positional harness: u32 entries, <=3 entries, s<=2, m<=3; class fixed per harness; larger tables are outside the claim (the code is uniform in the index: one checked_mul + one parse). usize = 64 bit.",
    groups=[
        K("core", ["c09::"], functions=["ParsingTable::{new,len,is_empty,get,iter,into_iter}", "ParsingIterator::{new,next} and the Iterator methods layered on it (nth, skip, count, last)", "ParseAt for Symbol,u32,VersionIndex,Dyn,Rel,Rela (ELF32)"],
          bounds="bytes symbolic, length 0..=3*entsize-1, index any usize, byte order symbolic; unwind 5", timeout_s=900),
        K("core", ["c09t::"], tier="thorough", functions=["same for SectionHeader, ProgramHeader, Symbol, Dyn, u64 (both classes), K=3 for small entries"],
          bounds="length 0..=(K+1)*entsize-1, K=2 or 3; unwind 6", timeout_s=2700),
    ],
    assumptions=[],
)
PROPS["C15"] = dict(
    title="String-table lookup",
    technique="bounded model checking (Kani/CBMC, SAT) with an iff-characterisation of get_raw/get using symbolic witness positions",
    level_text="For every table of <= 8 bytes (all contents, all lengths) and ANY usize offset the solver decides: get_raw returns exactly the longest NUL-free run at the offset (pointer into the caller's buffer, "
               "NUL follows inside the table), errors exactly when the offset is outside or no NUL follows (BadOffset / StringTableMissingNul), and get == core::str::from_utf8 of that run.",
    level_note="Bound: table <= 8 bytes for get_raw (quick), <= 6 bytes for get (UTF-8 validation is a byte loop); larger in the thorough tier. The code is a single slice.get + position(), uniform in length. usize = 64 bit.",
    groups=[
        K("core", ["c15::"], functions=["StringTable::{new,get_raw,get}"], bounds="table capacity 8 (get_raw) / 6 (get) bytes with symbolic length and contents; offset any usize; unwind 10/8", timeout_s=900),
        K("core", ["c15t::"], tier="thorough", functions=["StringTable::{get_raw,get}"], bounds="table capacity 16 (get_raw) / 8 (get)", timeout_s=2700),
    ],
    assumptions=["core::str::from_utf8 is the UTF-8 reference"],
)

PROPS["C10"] = dict(
    title="Byte-order gating and ident diagnostics",
    technique="bounded model checking (Kani/CBMC, SAT): parse_ident / from_ei_data / minimal_parse on fully symbolic ident bytes with an iff oracle",
    level_text="parse_ident::<E> for E in {LittleEndian, BigEndian, AnyEndian, NativeEndian} is decided for ALL 2^128 ident byte strings: Ok iff magic, EI_VERSION==1, EI_CLASS in {1,2} and EI_DATA in E's set, with the order/class/osabi/abiversion "
               "taken from the right bytes; when exactly one of the four is wrong the error is the named variant carrying the offending byte(s). from_ei_data is decided over the whole u8 domain. Thorough tier repeats the iff through "
               "ElfBytes::<E>::minimal_parse on header-only files with all header bytes symbolic and compares the AnyEndian result with the fixed spec's field by field.",
    level_note="Bound: ident = 16 symbolic bytes (complete); file level = header-only files (e_shoff=e_phoff=0) of <= 66 bytes; AnyEndian == fixed spec at read level for all inputs is C04's agree harnesses. Stream side (open_stream uses the same parse_ident) is engine B's L3 in C07. usize = 64 bit.",
    groups=[
        K("core", ["c10::"], functions=["file::parse_ident::<E>", "EndianParse::from_ei_data", "is_little/is_big"], bounds="16 ident bytes fully symbolic; ei_data any u8; unwind 6 (4-byte magic memcmp)", timeout_s=300),
        K("core", ["c10t::"], tier="thorough", functions=["ElfBytes::<E>::minimal_parse for E in LittleEndian, BigEndian, AnyEndian x ELF32, ELF64", "parse_ident", "FileHeader::parse_tail"],
          bounds="header-only file, all header bytes symbolic except EI_CLASS (per harness) and e_shoff=e_phoff=0; length symbolic 0..=hsize+2", timeout_s=3000),
    ],
    assumptions=["multi-defect idents: only Err is required (the property fixes the variant for single defects only)"],
)

PROPS["C01"] = dict(
    title="Slice parser totality",
    engine="kani+mirsym",
    technique="bounded model checking (Kani/CBMC, SAT): Kani's automatic panic / overflow / index / shift / division / unwinding checks over drivers with unconstrained bytes and arguments",
    level_text="Every public entry point of the no_std core is driven with symbolic bytes, lengths and unconstrained caller arguments; Kani turns every reachable panic, unwrap/expect, index or slice failure, arithmetic overflow "
               "(the crate is compiled with overflow checks and debug assertions), bad shift and division by zero into a proof obligation that the SAT solver must show unreachable for all inputs within the bound.",
    level_note="Bounds per driver are listed in the evidence (buffer sizes 8..256 bytes, all argument values). Outside: larger buffers, 32-bit usize, Debug/Display formatting, ElfStream (C08). Trusted: Kani's panic instrumentation.",
    groups=[
        K("core", ["c01::", "c03::section_data_64le", "c03::segment_data_32be"], functions=["ElfBytes::section_data / segment_data with a fully symbolic header (incl. SHF_COMPRESSED)", "file::parse_ident on slices of any length 0..=20", "NoteIterator::next with any usize alignment", "GnuHashTable::{new,find} both classes", "SysVHashTable::{new,find}", "ParsingTable::get with any index"],
          bounds="ident buffer length 0..=20; note area <= 24 bytes, align any usize; GNU table 32/36 bytes (all header words arbitrary), 2 symbols; SysV table 28 bytes; all bytes symbolic", timeout_s=900, jobs=8),
        M(["L5", "L8", "L9", "Lbyname"], ["C01."], bounds="engine B: every panic edge (overflow assert, expect/unwrap, index) of minimal_parse/find_shdrs/find_phdrs (all header fields symbolic, no size bound) and of symbol_table, dynamic_symbol_table, "
          "dynamic, section_headers_with_strtab, symbol_version_table, section_header_by_name on section tables of 1..3 entries with every header field symbolic is unreachable"),
        K("core", ["c15::get_raw", "c16::", "c09::", "c14::", "c13::"], tier="thorough", functions=["string table, version iterators, hash chain walks, lazy tables, notes, symbol-version queries: same harnesses as C15/C16/C09/C14/C13 (they run under Kani's panic/overflow checks)"],
          bounds="as in those properties", timeout_s=1800, jobs=8),
    ],
    assumptions=[],
)

PROPS["C14"] = dict(
    title="Note iteration",
    technique="bounded model checking (Kani/CBMC, SAT): NoteIterator vs an independent reference walker on symbolic bytes, alignment any usize",
    level_text="For all note-area contents up to the bound, ALL usize alignments (0, 1, 2, 3, 4, 8, 16, 2^63, ...), both classes and byte orders, every item the iterator yields is compared with the reference walker: type word, "
               "name/desc pointer and length (so padding residues after name and descriptor are exact), typed GNU forms (ABI tag words, build-id bytes), count, end of iteration exactly where the next record does not fit, align==0 yields nothing; name_str == trimmed UTF-8.",
    level_note="Bound: note area <= 28 bytes / <= 2 notes (quick), <= 40 bytes / 3 notes (thorough); names for name_str <= 4 bytes. After the first None the iterator is not polled again. Trusted: the 40-line reference walker in harness/core/src/c14.rs. usize = 64 bit.",
    groups=[
        K("core", ["c14::"], functions=["NoteIterator::{new,next}", "Note::parse_at", "NoteHeader::parse_at", "NoteGnuAbiTag::parse_at", "NoteAny::name_str"],
          bounds="note bytes symbolic, length 0..=28, align any usize, ELF64 little-endian, <=2 notes; name_str: names <= 4 bytes; unwind 6/7", timeout_s=900),
        K("core", ["c14t::"], tier="thorough", functions=["NoteIterator (ELF32/ELF64, LE/BE)"], bounds="length 0..=40, <=3 notes, align any usize", timeout_s=3000),
    ],
    assumptions=["a GNU ABI-tag record with a descriptor shorter than 16 bytes ends iteration (property scopes ABI-tag notes to 16-byte descriptors)"],
)

_HASH_NOTE = ("Bound: soundness on arbitrary bytes: table <= 28..40 bytes (so nbucket, nchain/nbloom, nshift, symoffset are arbitrary 32-bit words), 3 symbols, string table <= 5..6 bytes, query <= 2 bytes. "
              "Completeness on builder-produced tables: NS <= 2 (quick) / 3 hashed symbols with symbolic names of 0..2 bytes over the full byte alphabet, nbucket 1..3, bloom words 1..2, shift 0..31 symbolic, symoffset 1..2, both classes, byte order symbolic. "
              "Hash function vs reference: all names <= 8 (quick) / 16 bytes. Outside: larger symbol sets / longer names in the completeness part. Trusted: reference builder in harness/core/src/{hashref,c11,c12}.rs. usize = 64 bit.")
PROPS["C11"] = dict(
    title="GNU hash lookup",
    technique="bounded model checking (Kani/CBMC, SAT): gnu_hash vs djb2 reference; GnuHashTable::find soundness on symbolic bytes; completeness on tables produced by a reference builder over symbolic names",
    level_text="The solver decides (i) gnu_hash == djb2 for every name up to the bound, (ii) on ARBITRARY table/symtab/strtab bytes a returned symbol is the entry at the returned index and its name equals the query (and no panic for nbloom=0, shift>=32, ...), "
               "(iii) on every well-formed table the reference builder can produce within the bound, every present name is found at the first index bearing it and every absent name (including bucket- and bloom-colliding ones) gives None.",
    level_note=_HASH_NOTE,
    groups=[
        K("core", ["c11::"], functions=["hash::gnu_hash", "GnuHashTable::{new,find}", "ParsingTable<u32/u64/Symbol>::get", "StringTable::get_raw"], bounds="see level_note; quick: ELF32 LE soundness 32-byte table; lean completeness/absent harnesses: nbucket=1, nbloom=1, two hashed symbols with symbolic 2-byte names (full non-NUL alphabet), shift 0..31 symbolic", timeout_s=1200, jobs=8),
        K("core", ["c11t::"], tier="thorough", functions=["same"], bounds="both classes, BE, nbucket<=3, nbloom<=2, NS<=3, names<=16 for the hash function", timeout_s=3000, jobs=3),
    ],
    assumptions=["hashed symbols are sorted by bucket (format requirement) — assumed on the symbolic names", "on corrupted tables find may return Err; soundness constrains only Ok(Some(_))"],
)
PROPS["C12"] = dict(
    title="SysV hash lookup",
    technique="bounded model checking (Kani/CBMC, SAT): sysv_hash vs gABI elf_hash reference; SysVHashTable::find soundness on symbolic bytes; completeness on tables produced by a reference builder over symbolic names",
    level_text="As C11 for the SysV .hash section: hash function equals the gABI reference (incl. the top-nibble fold, reached at >= 7 bytes), lookup is sound on arbitrary bytes (cyclic chains, out-of-range indexes give Err/None, never a wrong symbol or panic) and complete on builder-produced tables.",
    level_note=_HASH_NOTE,
    groups=[
        K("core", ["c12::"], functions=["hash::sysv_hash", "SysVHashTable::{new,find}", "ParsingTable<u32/Symbol>::get", "StringTable::get_raw"], bounds="see level_note; quick: ELF32 LE soundness 28-byte table; lean completeness/absent harnesses: nbucket=2, two hashed symbols with symbolic 2-byte names, absent query of 1..2 bytes (prefix case included)", timeout_s=1200, jobs=8),
        K("core", ["c12t::"], tier="thorough", functions=["same"], bounds="both classes, nbucket<=3, NS<=3, names<=16 for the hash function", timeout_s=3000, jobs=3),
    ],
    assumptions=["on corrupted tables find may return Err; soundness constrains only Ok(Some(_))"],
)

PROPS["C03"] = dict(
    title="Returned data is the exact designated range",
    technique="bounded model checking (Kani/CBMC, SAT): ElfBytes accessors on a constant file with a fully symbolic SectionHeader/ProgramHeader argument; iff-characterisation with pointer/length equality",
    level_text="For a 128-byte file of each class and ALL values of every header field (2^64 offsets and sizes, all flags/types) the solver decides: section_data / segment_data return Ok iff the range fits the file, and then the slice's pointer and "
               "length are exactly [sh_offset, sh_offset+sh_size) (minus the class-sized compression header, which equals CompressionHeader::parse_at there) / [p_offset, p_offset+p_filesz); NOBITS gives empty; p_memsz never matters. "
               "Thorough: string-table and note views hand out pointers inside the same range. String-table entries and note name/desc pointers on arbitrary bytes are C15/C14.",
    level_note="Bound: file length 128 bytes (contents constant: which bytes are returned does not depend on their values; decoding of values is C02/C09); header arguments unconstrained. usize = 64 bit.",
    groups=[
        K("core", ["c03::", "c15::get_raw_b8"], functions=["StringTable::get_raw (8 symbolic bytes, any offset: the returned slice points at table+offset and ends before the first NUL)", "ElfBytes::minimal_parse (constant file)", "ElfBytes::section_data", "ElfBytes::segment_data", "SectionHeader::get_data_range", "ProgramHeader::get_file_data_range", "ReadBytesExt::get_bytes", "CompressionHeader::parse_at"],
          bounds="file = constant 128-byte ELF64-LE / ELF32-BE image; SectionHeader/ProgramHeader argument fully symbolic", timeout_s=600),
        K("core", ["c03t::"], tier="thorough", functions=["ElfBytes::section_data_as_strtab", "section_data_as_notes", "segment_data_as_notes", "StringTable::get_raw", "NoteIterator::next"], bounds="same files; first item / any get_raw offset", timeout_s=3000),
    ],
    assumptions=[],
)
PROPS["C13"] = dict(
    title="Symbol-version queries",
    engine="kani+mirsym",
    technique="bounded model checking (Kani/CBMC, SAT): SymbolVersionTable on sections serialised by a reference writer from a symbolic version model; query index any usize; expected-answer oracle",
    level_text="For every assignment of ids, flags, hashes, hidden bits, record counts and versym entries of the model, in each enumerated forward layout (gaps between records), the solver decides that get_requirement/get_definition return exactly the first "
               "auxiliary record / the definition whose index equals versym[i] & 0x7fff (file, name, hash, flags, names in order, hidden = bit 15), None otherwise, and Err for indexes beyond the versym table.",
    level_note="Bound: quick 1 needed file x <=2 aux and 1 definition x <=2 names, 3 versym entries, one layout each; thorough adds 2x2 models and more layouts. Strings are fixed distinct entries of a constant string table. Wiring through ElfBytes::symbol_version_table: see DESIGN. usize = 64 bit.",
    groups=[
        K("core", ["c13::"], functions=["SymbolVersionTable::{new,get_requirement,get_definition}", "VerNeedIterator/VerNeedAuxIterator/VerDefIterator/VerDefAuxIterator::next", "SymbolNamesIterator::next", "VersionIndex::{index,is_hidden}", "StringTable::get"],
          bounds="models 1 file x 2 aux, 1 def x 2 names, 2 files x 1 aux in headers-first (non-contiguous) layout; all ids/flags/hashes/counts/versym entries symbolic; symbol index any usize; byte order fixed per harness", timeout_s=1500, jobs=4),
        M(["L9"], ["C13.", "L9."], bounds="wiring through ElfBytes::symbol_version_table: section tables of 1..3 entries, every header field symbolic, both classes: the table handed out is SymbolVersionTable::new over exactly "
          "[versym range, entsize 2], VerNeed/VerDef iterators with count = sh_info, offset 0, data = the section's range and strings = the range of shdr[sh_link]"),
        K("core", ["c13t::"], tier="thorough", functions=["same"], bounds="2 files x 2 aux, 2 defs x 2 names, interleaved / slack layouts", timeout_s=3000, cbmc_args=["--max-field-sensitivity-array-size", "160"]),
    ],
    assumptions=["reference writer in harness/core/src/c13.rs follows the GNU symbol versioning ABI record layouts"],
)
PROPS["C16"] = dict(
    title="Termination and bounded work",
    technique="bounded model checking (Kani/CBMC, SAT): unwinding assertions decide termination within N iterations for all inputs up to the bound; explicit yield counters",
    level_text="For all contents of tables up to the bound (cyclic/self-referential SysV chains, GNU chains without stop bit, version records with arbitrary next/aux offsets and declared counts up to 2^64-1, any starting offset) "
               "every loop exits within the unwind bound derived from the byte length (unwinding assertions on), version iterators never yield more than their declared count nor more than one record per input byte; a single next() of each version-record iterator, from an arbitrary state (declared count 0..2 or >= 2^40, any start offset, any 0..24 bytes), completes within unwind bound 26 = bytes + 2 (a loop inside one step must advance with the input, not with the declared count).",
    level_note="Bound: areas of 16..48 bytes. The wall-clock clause (64 KiB within seconds) is a time measurement and outside this technique; it rests on the linear bounds shown here. Note/entry iterator bounds are in C14/C09. usize = 64 bit.",
    groups=[
        K("core", ["c16::"], functions=["VerNeedIterator/VerNeedAuxIterator/VerDefIterator/VerDefAuxIterator::next", "SysVHashTable::find", "GnuHashTable::find"], bounds="version areas 16..26 bytes, count any, start any usize (whole iteration, unwind 8..12; one step, unwind 26); SysV table <= 36 bytes, GNU table <= 48 bytes, all bytes symbolic", timeout_s=900),
        K("core", ["c16t::"], tier="thorough", functions=["version iterators"], bounds="areas 32..40 bytes", timeout_s=3000),
    ],
    assumptions=[],
)

PROPS["C07"] = dict(
    title="Stream parser == slice parser",
    engine="mirsym",
    technique="symbolic execution of the MIR of elf_stream.rs/elf_bytes.rs by an own executor, path-pair product with z3 (QF_ABV/UF) deciding every obligation; inductive cache invariant",
    level_text="All loop-free bodies of the stream parser (CachingReader::{new,load_bytes,get_bytes,read_bytes,clear_cache}, section_data, section_data_as_{strtab,rels,relas,notes}, segment_data_as_notes, open_stream, "
               "parse_section_headers, parse_program_headers) and their ElfBytes twins are executed path-completely on fully symbolic 64-bit arguments and header fields from an arbitrary cache state satisfying the invariant; "
               "z3 decides for every jointly satisfiable (stream path, slice path) pair that Ok-ness coincides (slice Ok => stream Ok everywhere, and the converse for section_data, segment notes and open) and that both sides designate the same file bytes / "
               "same constructor arguments; L1 shows the cache invariant is preserved by every operation, so the equivalence extends to any sequence of calls by induction. No size bound on this side: offsets, sizes and counts are unconstrained 64-bit values.",
    level_note="Scope: sections not flagged SHF_COMPRESSED (property's own scoping). Not encoded (loops over the section table): section_header_by_name, symbol_table/dynamic_symbol_table/dynamic beyond their straight-line tail, symbol_version_table — outside this claim. "
               "Trusted: the summaries listed in assumptions; the executor itself (validated by seeded mutants and by replaying counterexamples natively).",
    groups=[
        M(["L1", "L2", "L3", "L7", "L7symverfixed"], ["L1.", "C07.", "L2.", "L3.", "L7."], bounds="all u64 ranges / header fields; cache pre-state arbitrary under Inv; all straight-line accessors x both classes; open_stream vs minimal_parse with all header fields symbolic; "
          "looped accessors (symbol_table, dynamic_symbol_table, dynamic, section_headers_with_strtab, symbol_version_table, section_header_by_name) on section/program tables of 1..2 entries with every header field symbolic (ELF64); "
          "symbol_version_table additionally on 3-entry tables holding .gnu.version/_r/_d (two fixed orders of the kinds, everything else symbolic, fault-free, empty cache, distinct ranges)"),
        M(["L7both"], ["C07.", "L7."], tier="thorough", bounds="looped accessors, both classes"),
        M(["L7symver3"], ["C07.", "L7."], tier="thorough", timeout_s=3300, bounds="symbol_version_table stream vs slice on 3-entry section tables (.gnu.version, _r and _d together), fault-free reader, empty cache, pairwise distinct section ranges"),
        M(["L1", "L2", "L5", "L8", "XCHECK"], ["XCHECK."], tier="thorough", bounds="every 7th z3-decided query of L1/L2/L5/L8 (at most 150) re-decided by cvc5 1.0 through SMT-LIB2; a disagreement makes the check inconclusive"),
    ],
    assumptions=MIRSYM_ASSUME,
)
PROPS["C08"] = dict(
    title="Stream memory and I/O bounded by the stream",
    engine="mirsym",
    technique="symbolic execution of the MIR of elf_stream.rs by an own executor; z3 decides allocation-size, read-range and panic-edge obligations on every path",
    level_text="On every path of load_bytes/read_bytes/get_bytes/new and of every encoded accessor and open_stream (arbitrary 64-bit header claims, arbitrary fault schedule): each allocation event has size <= stream_len (z3: path condition && size > stream_len is unsat), "
               "each read_exact covers exactly the designated range after an absolute seek to its start, open performs at most the ident/tail/shdr[0]/two-table reads and clears its cache, and no panic edge (expect, index, overflow assert, unwrap) is reachable under the cache invariant.",
    level_note="Outside: allocations inside std's HashMap/Vec growth (summarised), the Vec<SectionHeader>/Vec<ProgramHeader> built by collect() (at most bytes_read/entsize entries, argued in DESIGN), looped accessors. 64-bit usize.",
    groups=[
        M(["L1", "L2", "L3", "L7"], ["C08."], bounds="all u64 ranges / header fields; all straight-line accessors x both classes; open_stream with all header fields symbolic; looped accessors on tables of 1..2 entries"),
        M(["L7both"], ["C08."], tier="thorough", bounds="looped accessors, both classes"),
    ],
    assumptions=MIRSYM_ASSUME,
)
PROPS["C17"] = dict(
    title="Stream I/O failures surface as errors, no residue",
    engine="mirsym",
    technique="symbolic execution of the MIR of elf_stream.rs with nondeterministic Err results for every seek/read_exact (all fault schedules of a call at once); z3 decides the obligations per path",
    level_text="Every I/O call in the encoded bodies may fail independently (one fork per call, so all single- and multi-fault schedules of a call are covered). Decided: a path through any failed I/O returns Err (IOError at the reader level) and performs no cache insert; "
               "the only insert is dominated by a successful absolute seek and a successful read_exact of the very buffer inserted (so the entry equals the file bytes of its key); Ok paths preserve the cache invariant. Hence after a failed call the state is one a fault-free history could have produced, "
               "and later answers are those of a fault-free stream (C07).",
    level_note="Premature EOF and short reads are the Err arm of read_exact's contract summary. Outside: looped accessors, panics inside std. 64-bit usize.",
    groups=[
        M(["L1", "L2", "L3", "L7"], ["C17."], bounds="all fault schedules per call; all u64 ranges; all straight-line accessors x both classes; open_stream; looped accessors on tables of 1..2 entries"),
        M(["L7both"], ["C17."], tier="thorough", bounds="looped accessors, both classes"),
    ],
    assumptions=MIRSYM_ASSUME,
)

PROPS["C18"] = dict(
    title="Truncation / extension monotonicity",
    engine="kani+mirsym",
    technique="bounded model checking (Kani/CBMC, SAT): differential of the same accessor on a file and on its prefix with a fully symbolic header argument; stream side by engine B (z3)",
    level_text="For a 128-byte file and each enumerated proper prefix (quick: 64, 65, 100, 127 of 128 and 90 of 128 ELF32-BE; thorough: every cut point at once as a symbolic length) the solver decides for ALL header values that "
               "section_data / segment_data (thorough: string-table and note views) on the prefix return Err or exactly the full file's answer (same file offset, length, compression header). Read the other way this is the appended-bytes clause. "
               "Stream parser: engine B decides that load_bytes on a fault-free stream returns Ok iff range_end <= stream length (so a shorter stream can only turn answers into errors). "
               "Engine B, lemma Lprefix: the MIR of minimal_parse, of the header-argument accessors and of the table-driven accessors is executed twice, on a file of symbolic length file_len and on its prefix of symbolic length "
               "prefix_len <= file_len with the same contents at common positions; z3 decides for every jointly satisfiable path pair that an Ok answer on the prefix implies the same Ok answer (same file ranges, same decoded header fields) on the complete file.",
    level_note="Bound (Kani part): file 128 bytes (contents constant; the ranges are what is symbolic), prefixes enumerated in the quick tier. Lprefix has no file-size bound; its table-driven accessors run on section/program header tables of 1..2 entries. usize = 64 bit.",
    groups=[
        K("core", ["c18::"], functions=["ElfBytes::minimal_parse", "ElfBytes::section_data", "ElfBytes::segment_data", "get_data_range", "get_file_data_range", "ReadBytesExt::get_bytes"],
          bounds="full file 128 bytes constant, prefixes {64,65,100,127} (ELF64-LE) and {90} (ELF32-BE) constant; header argument fully symbolic", timeout_s=900),
        M(["L1", "Lprefixquick"], ["C18.", "Lprefix."], bounds="L1: all u64 ranges, stream length symbolic. Lprefix: two executions of the same MIR body sharing the content function file_uW_at(pos), lengths prefix_len <= file_len both symbolic u64 (no size bound): "
          "minimal_parse (both classes, all header fields symbolic); section_data / section_data_as_strtab/rels/relas/notes / segment_data / segment_data_as_notes with a fully symbolic header argument (ELF64); "
          "symbol_table, dynamic_symbol_table, dynamic (via .dynamic and via PT_DYNAMIC), section_headers_with_strtab, section_header_by_name on section/program tables of 1..2 entries with every header field symbolic (ELF64; both tables fit in the prefix)"),
        M(["Lprefix", "Lprefix32"], ["C18.", "Lprefix."], tier="thorough", timeout_s=3600, bounds="as quick plus symbol_version_table and find_common_data (ELF64, 1..2-entry tables), and the quick set for ELF32"),
        K("core", ["c18t::"], tier="thorough", functions=["same + section_data_as_strtab/get_raw"], bounds="cut point symbolic 0..127", timeout_s=3000, jobs=4),
    ],
    assumptions=MIRSYM_ASSUME[:3],
)
PROPS["C20"] = dict(
    title="Alternative access paths agree",
    engine="kani+mirsym",
    technique="bounded model checking (Kani/CBMC, SAT): typed views vs raw bytes with a fully symbolic header argument, by-name lookup with a symbolic query; find_common_data vs targeted accessors by symbolic execution of their MIR with z3 (bounded tables)",
    level_text="Typed views (section_data_as_rels/relas/strtab/notes, segment_data_as_notes): for ALL header values the solver decides refusal with Unexpected{Section,Segment}Type((found, expected)) iff the type differs, and otherwise a view whose "
               "first entries equal the ABI records decodable from section_data's bytes (notes: NoteIterator over those bytes with the header's alignment). section_header_by_name: for every ASCII query of 0..3 bytes the result is the first section whose name string equals the query "
               "on a generated file with prefix/suffix/duplicate/empty/non-UTF-8 names.",
    level_note="Bound: 128-byte constant files for the typed views (header argument symbolic); one generated 9-section file for by-name (section table concrete, query symbolic, ASCII). find_common_data vs targeted accessors and .dynamic vs PT_DYNAMIC: see DESIGN (engine-B extension). Typed views of ElfStream: engine-B lemmas L1/L2 (no size bound). usize = 64 bit.",
    groups=[
        K("core", ["c20::"], functions=["ElfBytes::section_data_as_{rels,relas,strtab,notes}", "ElfBytes::segment_data_as_notes", "ParsingIterator::next"],
          bounds="typed views: constant 128-byte files, header argument fully symbolic, first 2 entries; unwind 6", timeout_s=1200, jobs=8),
        M(["L6", "L6b", "L8", "Lbyname"], ["C20.", "L6.", "L6b."], bounds="find_common_data vs symbol_table/dynamic_symbol_table/dynamic on files with section and program tables of 1..2 entries each, every header field symbolic, at most one section of each kind, "
          "PT_DYNAMIC only together with .dynamic, no SHF_COMPRESSED (ELF64); dynamic via .dynamic == [sh_offset,sh_size) and via PT_DYNAMIC == [p_offset,p_filesz); "
          "L6b: 5-section tables holding all five common kinds in each of the 5 rotations of their order, all other header fields symbolic: every member is found and is its section's designated range; "
          "Lbyname: section tables of 1..3 entries, names/validity abstract (uninterpreted functions of their position in the designated string table), query abstract: first equal name wins"),
        M(["L1", "L2"], ["L1.", "L2.", "C07.same_content", "C07.okness_coincides", "C17.cache_inv_preserved"], bounds="typed views on the STREAM side (ElfStream::section_data_as_{strtab,rels,relas,notes}, segment_data_as_notes, both classes): refused / granted exactly like the slice views and "
          "designating the same file bytes, from any cache state satisfying the invariant that L1 shows every operation preserves, so a view does not depend on which other views (e.g. a PT_NOTE segment starting at the same offset as a section) were taken before; all u64 header fields"),
    ],
    assumptions=["by-name queries are ASCII (valid UTF-8 by construction)"] + MIRSYM_ASSUME[:4],
)

_STUBS = ["std::alloc::alloc -> assert(false)", "std::alloc::alloc_zeroed -> assert(false)", "std::alloc::realloc -> assert(false)"]
PROPS["C06"] = dict(
    title="Zero heap allocation; feature matrix",
    technique="bounded model checking (Kani/CBMC, SAT) with every allocator entry point stubbed by an asserting function: allocation reachability is a solver verdict; feature matrix = build obligations",
    level_text="The elf crate is compiled with DEFAULT features (where an allocation could compile) and std::alloc::{alloc, alloc_zeroed, realloc} are replaced by stubs that assert false; the solver shows that no path of opening a file, "
               "every ElfBytes accessor (caller-supplied fully symbolic headers, so corrupted inputs included), lazy tables, string table and note iteration reaches an allocator entry point for any input within the bounds. A witness harness that does allocate must fail (it does). "
               "The feature-matrix clause has no symbolic variable: each of the 8 subsets of {alloc,std,to_str} must compile, and the --no-default-features rlib must list only core and compiler_builtins as external crates (rustc -Zls).",
    level_note="Bound: 128-byte constant file with symbolic header arguments; header bytes symbolic for open (<=66 bytes); views on <=24 symbolic bytes. Long hash chains are out of the bounded harnesses' reach (a 71-link constant-table harness did not finish in 35 min / 13 GB and was dropped). Engine B's structural obligation (no call edge to an allocating function in any MIR body of the slice parser) has no input bound at all. The feature matrix is a build obligation, not a solver verdict (stated in DESIGN).",
    groups=[
        K("alloc", ["z::", "zt::"], functions=["SysVHashTable::{new,find}", "ElfBytes::minimal_parse and every ElfBytes accessor", "ParsingTable::{get,iter}", "StringTable::{get,get_raw}", "NoteIterator::next", "section_header_by_name on a 3-section file with a non-UTF-8 section name"], stubs=_STUBS,
          bounds="constant 128-byte file + fully symbolic SectionHeader/ProgramHeader arguments; open on <=66 symbolic bytes; views on <=24 symbolic bytes; SysV hash lookup: 28-byte ELF32 table with every bucket and chain word symbolic, 3 symbols with symbolic names, query 0..2 symbolic bytes", timeout_s=1500, extra_kani=["-Z", "stubbing"], jobs=4),
        K("alloc", ["zw::"], functions=["witness: Vec::with_capacity under the same stubs must be caught"], stubs=_STUBS, bounds="n in 1..7", timeout_s=300, extra_kani=["-Z", "stubbing"],
          expect_fail="heap allocation reached"),
        M(["Lnoalloc"], ["C06.", "Lnoalloc."], bounds="engine B, structural: every MIR body of the crate built with default features, except those of elf_stream.rs and the alloc-gated *_to_string helpers, is scanned for call edges "
          "(all call terminators of all non-cleanup blocks, closures included) to an allocating function (Vec/String/Box/Rc/Arc/collections/Cow methods, to_vec/to_owned/to_string/format/with_capacity/collect::<Vec..>, alloc::*). "
          "Path-insensitive, so it holds for every input with no size or loop bound; an edge found is confirmed natively with the counting-allocator program before it is reported"),
        K("alloc", ["zs::"], tier="thorough", functions=["GnuHashTable::{new,find}", "SymbolVersionTable::{get_requirement,get_definition}", "VerNeedIterator/VerDefIterator/VerDefAuxIterator::next"], stubs=_STUBS,
          bounds="GNU 32-byte ELF32 table with symoffset, shift, bloom word, bucket and both chain words symbolic, 3 symbols with symbolic names, query 0..2 symbolic bytes; symbol versions: one Verneed (cnt<=2) + two Vernaux, one Verdef (cnt<=1) + one Verdaux "
          "with symbolic links, ids, flags, two version indexes, any query index", timeout_s=3000, extra_kani=["-Z", "stubbing"], jobs=2),
        X("features"),
    ],
    assumptions=["allocation is reachable only through std::alloc::{alloc, alloc_zeroed, realloc} (Rust's global allocator API)"],
)
PROPS["C19"] = dict(
    title="ABI definitions agree with the reference",
    technique="bounded model checking (Kani/CBMC, SAT) over harnesses generated on every run from abi.rs/to_str.rs and glibc's <elf.h>: symbolic-argument None-outside-constants queries; ground constant/layout/name assertions decided on the compiled crate",
    level_text="Generated from /repo's current sources on every run: (i) for every *_to_str function and a SYMBOLIC argument outside the set of exported constant values of its type the result is None (a real forall over u8/u16/u32/i64); "
               "(ii) for every constant value the result is None or the identifier of an exported constant with exactly that value and type; (iii) every exported integer constant that glibc's elf.h defines has the reference value; "
               "(iv) the 16 #[repr(C)] structs have the reference size, alignment and field offsets (offsetof/sizeof evaluated by gcc against elf.h).",
    level_note="Reference = glibc <elf.h> only (LLVM's headers are not installed); names glibc lacks are skipped and counted in the evidence; EM_ALPHA is excluded because the references disagree among themselves (abi_reference_exclusions.txt). "
               "(iii)/(iv) are ground facts (no free variable) discharged by constant folding in CBMC; the *_to_string fallback text (format!) is outside the claim.",
    groups=[
        K("abi", ["consts::", "layout::", "tostr::"], gen=_gen_abi, functions=["elf::abi::* constants", "elf::to_str::*_to_str", "#[repr(C)] Elf32_*/Elf64_* structs"],
          bounds="to_str argument fully symbolic (whole u8/u16/u32/i64 domain minus the constant set); ~1085 constants, 16 structs", timeout_s=1200, jobs=8),
    ],
    assumptions=["glibc <elf.h> (/usr/include/elf.h) is the reference table", "display-text helpers (*_human_str, note_abi_tag_os_to_str) are only required to return None outside the constant set"],
)

PROPS["C05"] = dict(
    title="Header tables located as declared",
    engine="kani+mirsym",
    technique="symbolic execution of the MIR of minimal_parse/find_shdrs/find_phdrs and open_stream/parse_*_headers by an own executor, z3 deciding an absolute gABI oracle (L5) and stream==slice (L3); Kani byte-level harness in the thorough tier",
    level_text="L5: on every path of ElfBytes::minimal_parse with ALL header fields and shdr[0] fields symbolic 64/32/16-bit values and a symbolic file length (no size bound: counts crossing 0xff00/0xffff, tables anywhere, sizes up to 2^64-1), z3 decides: "
               "Ok => each table is absent iff its offset is 0 and otherwise is exactly [off, off+n*entsize) with n = e_shnum (or shdr[0].sh_size when 0) / e_phnum (or shdr[0].sh_info when 0xffff), declared entsize == the class's structure size, no overflow, inside the file; "
               "Err => one of those conditions fails. L3: open_stream requests/keeps exactly the same table ranges and succeeds iff minimal_parse does. validate_entsize for all entsize values is decided by Kani in C02; that get(i) is the ABI record at i*entsize is C09.",
    level_note="The byte->field decoding of the file header and of shdr[0] is an uninterpreted function here (decided byte-exactly by engine A in C02). Scoping: with e_phnum == 0xffff the property presupposes a section table (e_shoff != 0). "
               "section_headers_with_strtab (SHN_XINDEX) and the sh_entsize gates of symbol/dynamic/version tables: see the engine-B file-level lemmas (thorough).",
    groups=[
        M(["L5", "L3", "L8", "L7strtab"], ["C05.", "L5.", "L3.", "L8."], bounds="all header fields symbolic (u16/u32/u64), file length symbolic u64; both classes; open is loop-free; "
          "L8 (SHN_XINDEX string table, sh_entsize gates of symtab/dynsym/.dynamic): section tables of 1..2 entries with every header field symbolic"),
        M(["L8both", "L9"], ["C05.", "L8.", "C13.versym"], tier="thorough", bounds="L8 for both classes; .gnu.version entsize gate"),
        K("core", ["c05::"], tier="thorough", functions=["ElfBytes::minimal_parse", "find_shdrs", "find_phdrs", "SectionHeaderTable::get", "SegmentTable::get"],
          bounds="file <= 144 symbolic bytes, ELF64 LE, plain numbering; Ok-iff oracle, len(), first/last word of entry i vs the raw bytes at off+i*entsize", timeout_s=3300, jobs=2),
        K("core", ["c05t::"], tier="thorough", functions=["same, extended numbering (e_shnum==0, e_phnum==0xffff), ELF32"], bounds="file <= 144 symbolic bytes", timeout_s=3300, jobs=2),
    ],
    assumptions=MIRSYM_ASSUME,
)
NOT_APPLICABLE = {}
