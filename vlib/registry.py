"""Per-property check definitions. Each property has a list of groups; a group is one engine run.

Kani group keys: engine='kani', crate, filters (substring filters on harness names), tier ('quick' groups
also run in thorough), timeout_s (per harness), cbmc_args, features, functions (encoded entry points),
bounds (text), stubs (list).
"""

def K(crate, filters, tier="quick", timeout_s=600, cbmc_args=None, features=None, functions=None,
      bounds="", stubs=None, jobs=16, gen=None, extra_kani=None):
    return dict(engine="kani", crate=crate, filters=filters, tier=tier, timeout_s=timeout_s,
                cbmc_args=cbmc_args or [], features=features, functions=functions or [], bounds=bounds,
                stubs=stubs or [], jobs=jobs, gen=gen, extra_kani=extra_kani or [])

COMMON_ASSUME = [
    "usize is 64 bits (Kani models the x86_64 host target; no 32-bit target installed)",
    "Kani/CBMC 6.11 translation of MIR and CaDiCaL's verdict are trusted",
    "harness crates depend on /repo by path and are recompiled from its working tree on every run",
]

PROPS = {}

NOT_APPLICABLE = {f"C{i:02d}": "check not built yet (work in progress; see DESIGN.md for the plan)" for i in range(1, 21)}

PROPS["C04"] = dict(
    title="Endian-aware integer reads",
    technique="bounded model checking of the compiled code (Kani/CBMC, SAT): symbolic buffer, length and offset; iff-characterisation asserted",
    level_text="Every integer read of every byte-order spec is checked by the SAT solver for all buffers of <= 12 bytes, all lengths and all 2^64 offsets at once: "
               "Ok iff the bytes are there, value = bytes in that order, offset advanced by width, untouched on error; AnyEndian == fixed spec. "
               "Bounded model checking is the right level: the code is loop-free integer/slice arithmetic whose rare cases (offset overflow, read touching the end) are single points in a huge space.",
    level_note="Bound: buffer <= 12 bytes (the reads are <= 8 bytes wide, cost is independent of buffer size); usize = 64 bit; trusted: Kani's MIR translation, CBMC, CaDiCaL, the 8-line reference extractor in the harness.",
    groups=[
        K("core", ["c04::"], functions=["EndianParse::parse_{u8,u16,u32,u64,i32,i64}_at for LittleEndian, BigEndian, AnyEndian::{Little,Big}, NativeEndian",
                                        "is_little/is_big"],
          bounds="buffer capacity 12 bytes, length symbolic 0..=12, all byte values symbolic, offset any usize (2^64 values); unwind 10",
          timeout_s=300),
    ],
    assumptions=["reference value is computed in the harness by explicit shift/or over the byte positions"],
)

PROPS["C02"] = dict(
    title="ABI-exact decoding",
    technique="bounded model checking of the compiled parsers (Kani/CBMC, SAT) against gABI layout tables written in the harness",
    level_text="For each of the 17 ParseAt structures x both classes (byte order symbolic) plus FileHeader::parse_tail, the solver decides for ALL byte contents of one record, "
               "all buffer lengths and all 2^64 start offsets that parse succeeds iff the record's ABI size is available (and the version word is 1 for verdef/verneed), consumes exactly the ABI size and returns "
               "exactly the fields the gABI layout designates (zero/sign extension, r_info/st_info/st_other/version-index splits). This is effectively exhaustive over a record's bytes, which no finite test list is.",
    level_note="Bound: one record per call, buffer = ABI size + 4 bytes; private link fields (vd_aux/vd_next/...) and the note header are covered behaviourally by C13/C14; trusted: the layout tables in harness/core/src/c02.rs (from the gABI/GNU docs), Kani/CBMC/CaDiCaL; usize = 64 bit.",
    groups=[
        K("core", ["c02::"], functions=["<T as ParseAt>::{parse_at,size_for,validate_entsize} for SectionHeader, ProgramHeader, Symbol, Rel, Rela, Dyn, CompressionHeader, SysVHashHeader, GnuHashHeader, VersionIndex, VerDef, VerDefAux, VerNeed, VerNeedAux, NoteGnuAbiTag, u32, u64",
                                        "FileHeader::parse_tail", "Symbol::{st_bind,st_symtype,st_vis,is_undefined}", "Dyn::{d_val,d_ptr}", "VersionIndex::{index,is_hidden,is_local,is_global}"],
          bounds="record bytes all symbolic; buffer capacity size+4 with symbolic length; start offset any usize; class fixed per harness; byte order symbolic; unwind 9",
          timeout_s=600),
    ],
    assumptions=["layout oracle: (field, offset, width, signedness) tables in harness/core/src/c02.rs written from the gABI and GNU symbol-versioning documents"],
)
