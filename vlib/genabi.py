"""C19: regenerates harness/abi/src/*.rs from /repo/src/{abi,to_str,...}.rs and the reference /usr/include/elf.h (glibc).
Run on every check. Raises GenError (=> inconclusive) when the sources cannot be parsed."""
import os, re, subprocess, json

VERIF = os.path.dirname(os.path.dirname(os.path.abspath(__file__)))
REPO = "/repo"
OUT = os.path.join(VERIF, "harness", "abi", "src")
EXCLUDE_FILE = os.path.join(VERIF, "abi_reference_exclusions.txt")
INT_T = ("u8", "u16", "u32", "u64", "usize", "i32", "i64")


class GenError(Exception):
    pass


def parse_consts():
    txt = open(os.path.join(REPO, "src", "abi.rs")).read()
    consts = {}
    order = []
    pending = []
    for m in re.finditer(r"^pub const (\w+): (\w+) = ([^;]+);", txt, re.M):
        if m.group(2) in INT_T:
            pending.append((m.group(1), m.group(2), m.group(3).strip()))
            order.append(m.group(1))
    for _ in range(5):
        rest = []
        for name, ty, expr in pending:
            e = re.sub(r"(\d)_(?=[\da-fA-F])", r"\1", expr)
            e = re.sub(r"\b(0x[0-9a-fA-F]+|\d+)(u8|u16|u32|u64|usize|i32|i64)\b", r"\1", e)
            e = re.sub(r"\bas (u8|u16|u32|u64|usize|i32|i64)\b", "", e)
            ids = {i for i in re.findall(r"\b[A-Za-z_]\w*\b", e) if not re.match(r"^0x", i)}
            if all(i in consts for i in ids) and re.match(r"^[\w\s<>|&+\-*()~]+$", e):
                for i in sorted(ids, key=len, reverse=True):
                    e = re.sub(r"\b%s\b" % i, "(" + str(consts[i][0]) + ")", e)
                try:
                    consts[name] = (int(eval(e, {"__builtins__": {}}, {})), ty)
                    continue
                except Exception:
                    pass
            rest.append((name, ty, expr))
        pending = rest
    if len(consts) < 1000:
        raise GenError(f"abi.rs: only {len(consts)} integer constants could be parsed (unparsed: {[p[0] for p in pending][:10]})")
    return consts, order, [p[0] for p in pending]


def reference_values(names):
    work = os.path.join(VERIF, ".build", "abi_ref")
    os.makedirs(work, exist_ok=True)
    c = ["#include <stdio.h>", "#include <elf.h>", "int main(void){"]
    for n in names:
        c.append(f"#ifdef {n}\n printf(\"{n}=%lld\\n\", (long long)({n}));\n#endif")
    c.append("return 0;}")
    open(os.path.join(work, "ref.c"), "w").write("\n".join(c))
    r = subprocess.run(["gcc", "-w", "-o", os.path.join(work, "ref"), os.path.join(work, "ref.c")], stdout=subprocess.PIPE, stderr=subprocess.STDOUT, text=True)
    if r.returncode != 0:
        raise GenError("reference C program does not compile: " + r.stdout[-800:])
    out = subprocess.run([os.path.join(work, "ref")], stdout=subprocess.PIPE, text=True).stdout
    ref = {}
    for line in out.splitlines():
        k, v = line.split("=")
        ref[k] = int(v)
    return ref


def parse_structs():
    structs = []
    for fn in sorted(os.listdir(os.path.join(REPO, "src"))):
        if not fn.endswith(".rs"):
            continue
        txt = open(os.path.join(REPO, "src", fn)).read()
        for m in re.finditer(r"#\[repr\(C\)\]\s*pub struct (Elf(?:32|64)_\w+) \{(.*?)\n\}", txt, re.S):
            fields = re.findall(r"pub (\w+): ([^,\n]+),", m.group(2))
            structs.append((fn[:-3], m.group(1), fields))
    if len(structs) < 16:
        raise GenError(f"only {len(structs)} #[repr(C)] Elf structs found")
    return structs


def reference_layout(structs):
    work = os.path.join(VERIF, ".build", "abi_ref")
    os.makedirs(work, exist_ok=True)
    c = ["#include <stdio.h>", "#include <stddef.h>", "#include <elf.h>", "int main(void){"]
    for mod, name, fields in structs:
        c.append(f" printf(\"{name} size %zu align %zu\\n\", sizeof({name}), _Alignof({name}));")
        for f, _t in fields:
            c.append(f" printf(\"{name} field {f} %zu %zu\\n\", offsetof({name}, {f}), sizeof((({name}*)0)->{f}));")
    c.append("return 0;}")
    open(os.path.join(work, "lay.c"), "w").write("\n".join(c))
    r = subprocess.run(["gcc", "-w", "-o", os.path.join(work, "lay"), os.path.join(work, "lay.c")], stdout=subprocess.PIPE, stderr=subprocess.STDOUT, text=True)
    if r.returncode != 0:
        raise GenError("reference layout program does not compile (a field the ABI struct lacks?): " + r.stdout[-800:])
    out = subprocess.run([os.path.join(work, "lay")], stdout=subprocess.PIPE, text=True).stdout
    lay = {}
    for line in out.splitlines():
        p = line.split()
        if p[1] == "size":
            lay[p[0]] = dict(size=int(p[2]), align=int(p[4]), fields={})
        else:
            lay[p[0]]["fields"][p[2]] = (int(p[3]), int(p[4]))
    return lay


def parse_to_str():
    txt = open(os.path.join(REPO, "src", "to_str.rs")).read()
    fns = re.findall(r"pub fn (\w+_to_str)\((\w+): (\w+)\) -> Option<&'static str>", txt)
    if len(fns) < 8:
        raise GenError("to_str.rs: fewer than 8 *_to_str functions parsed")
    return [f for f in fns if not f[0].endswith("_human_str") and f[0] != "note_abi_tag_os_to_str"], \
           [f for f in fns if f[0].endswith("_human_str") or f[0] == "note_abi_tag_os_to_str"]


def main():
    consts, order, unparsed = parse_consts()
    ref = reference_values(order)
    excl = set()
    if os.path.exists(EXCLUDE_FILE):
        for l in open(EXCLUDE_FILE):
            l = l.split("#")[0].strip()
            if l:
                excl.add(l)
    os.makedirs(OUT, exist_ok=True)
    lib = ["//! GENERATED by vlib/genabi.py from /repo/src and /usr/include/elf.h on every run of the C19 check.",
           "#![cfg_attr(not(kani), no_std)]", "#![allow(dead_code, unused_imports, non_snake_case, clippy::all)]"]
    stats = dict(constants=len(consts), in_reference=0, skipped_not_in_reference=0, excluded=sorted(excl), unparsed=unparsed)
    # ---- constants vs reference (ground assertions)
    names = [n for n in order if n in consts and n in ref and n not in excl]
    stats["in_reference"] = len(names)
    stats["skipped_not_in_reference"] = len([n for n in order if n in consts and n not in ref])
    body = ["//! exported constants == glibc <elf.h> (ground assertions; no free variable)", "#[cfg(kani)]", "pub mod consts {"]
    CH = 120
    for ci in range(0, len(names), CH):
        body.append("    #[kani::proof]")
        body.append(f"    pub fn chunk_{ci // CH:02d}() {{")
        for n in names[ci:ci + CH]:
            body.append(f"        assert!(elf::abi::{n} as i128 == {ref[n]}i128, \"{n}\");")
        body.append("    }")
    body.append("}")
    open(os.path.join(OUT, "consts.rs"), "w").write("\n".join(body) + "\n")
    lib.append("pub mod consts;")
    # ---- struct layouts
    structs = parse_structs()
    lay = reference_layout(structs)
    body = ["//! #[repr(C)] structs have the ABI's size, alignment and field offsets (reference: elf.h via offsetof/sizeof)", "#[cfg(kani)]", "pub mod layout {"]
    for mod, name, fields in structs:
        L = lay[name]
        body.append("    #[kani::proof]")
        body.append(f"    pub fn {name}() {{")
        body.append(f"        assert!(core::mem::size_of::<elf::{mod}::{name}>() == {L['size']}, \"{name} size\");")
        body.append(f"        assert!(core::mem::align_of::<elf::{mod}::{name}>() == {L['align']}, \"{name} align\");")
        for f, _t in fields:
            off, sz = L["fields"][f]
            body.append(f"        assert!(core::mem::offset_of!(elf::{mod}::{name}, {f}) == {off}, \"{name}.{f} offset\");")
        body.append("    }")
    body.append("}")
    open(os.path.join(OUT, "layout.rs"), "w").write("\n".join(body) + "\n")
    lib.append("pub mod layout;")
    stats["structs"] = len(structs)
    # ---- to_str
    strict, display = parse_to_str()
    body = ["//! *_to_str: None outside the set of exported constant values of the argument type (symbolic x);",
            "//! for every constant value, None or the identifier of an exported constant with that value and type.", "#[cfg(kani)]", "pub mod tostr {",
            "    fn eq(a: &str, b: &str) -> bool {", "        let (a, b) = (a.as_bytes(), b.as_bytes());", "        if a.len() != b.len() { return false; }",
            "        let mut i = 0;", "        while i < a.len() { if a[i] != b[i] { return false; } i += 1; }", "        true", "    }"]
    by_type = {}
    for n in order:
        if n in consts:
            v, t = consts[n]
            by_type.setdefault(t, {}).setdefault(v, []).append(n)
    stats["to_str_functions"] = [f[0] for f in strict]
    for fname, arg, ty in strict + display:
        vals = by_type.get(ty, {})
        if not vals:
            raise GenError(f"no constants of type {ty} for {fname}")
        vs = sorted(vals)
        body.append("    #[kani::proof]")
        body.append(f"    pub fn {fname}_none_outside_constants() {{")
        body.append(f"        let x: {ty} = kani::any();")
        for i in range(0, len(vs), 12):
            body.append("        kani::assume(" + " && ".join(f"x != {v}" for v in vs[i:i + 12]) + ");")
        body.append(f"        assert!(elf::to_str::{fname}(x).is_none());")
        body.append("    }")
        if (fname, arg, ty) in display:
            continue
        maxlen = max(len(n) for ns in vals.values() for n in ns) + 2
        for ci in range(0, len(vs), 60):
            body.append("    #[kani::proof]")
            body.append(f"    #[kani::unwind({maxlen + 1})]")
            body.append(f"    pub fn {fname}_names_{ci // 60:02d}() {{")
            for v in vs[ci:ci + 60]:
                alts = " || ".join(f"eq(s, \"{n}\")" for n in vals[v])
                body.append(f"        if let Some(s) = elf::to_str::{fname}({v}) {{ assert!({alts}, \"{fname}({v})\"); }}")
            body.append("    }")
    body.append("}")
    open(os.path.join(OUT, "tostr.rs"), "w").write("\n".join(body) + "\n")
    lib.append("pub mod tostr;")
    open(os.path.join(OUT, "lib.rs"), "w").write("\n".join(lib) + "\n")
    json.dump(stats, open(os.path.join(VERIF, ".build", "abi_gen_stats.json"), "w"), indent=1)
    return stats


if __name__ == "__main__":
    print(json.dumps(main(), indent=1)[:1500])
