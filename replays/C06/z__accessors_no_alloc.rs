// no concrete playback test was generated
/*
Kani Rust Verifier 0.68.0 (cargo plugin)
CBMC 6.11.0
   Compiling vh_alloc v0.0.0 (/verif/harness/alloc)
warning: use of an unstable feature
 --> <crate attribute>:1:12
  |
1 | #![feature(register_tool)]
  |            ^^^^^^^^^^^^^
  |
  = note: requested on the command line with `--force-warn unstable-features`

warning: use of an unstable feature
 --> <crate attribute>:1:12
  |
1 | #![feature(register_tool)]
  |            ^^^^^^^^^^^^^
  |
  = note: requested on the command line with `--force-warn unstable-features`

error: Using the stub attribute requires activating the unstable `stubbing` feature
  --> src/lib.rs:87:5
   |
87 |     #[kani::stub(std::alloc::realloc, no_realloc)]
   |     ^^^^^^^^^^^^^^^^^^^^^^^^^^^^^^^^^^^^^^^^^^^^^^
   |
   = note: this error originates in the attribute macro `kani::stub` (in Nightly builds, run with -Z macro-backtrace for more info)

error: could not compile `vh_alloc` (lib) due to 1 previous error; 1 warning emitted
error: Failed to execute cargo (exit status: 101). Found 1 compilation errors.

*/
