// no concrete playback test was generated
/*
n::AnyEndian as elf::endian::EndianParse>::parse_u64_at.pointer_dereference.28
	 - Status: SUCCESS
	 - Description: "dereference failure: dead object"
	 - Location: ../../../repo/src/endian.rs:45:13 in function <elf::endian::AnyEndian as elf::endian::EndianParse>::parse_u64_at

Check 705: memcmp.pointer_dereference.1
	 - Status: ERROR
	 - Description: "dereference failure: pointer NULL"
	 - Location: <builtin-library-memcmp>:27 in function memcmp

Check 706: memcmp.pointer_dereference.2
	 - Status: ERROR
	 - Description: "dereference failure: pointer invalid"
	 - Location: <builtin-library-memcmp>:27 in function memcmp

Check 707: memcmp.pointer_dereference.3
	 - Status: ERROR
	 - Description: "dereference failure: deallocated dynamic object"
	 - Location: <builtin-library-memcmp>:27 in function memcmp

Check 708: memcmp.pointer_dereference.4
	 - Status: ERROR
	 - Description: "dereference failure: dead object"
	 - Location: <builtin-library-memcmp>:27 in function memcmp

Check 709: memcmp.pointer_dereference.5
	 - Status: ERROR
	 - Description: "dereference failure: pointer outside object bounds"
	 - Location: <builtin-library-memcmp>:27 in function memcmp

Check 710: memcmp.pointer_dereference.6
	 - Status: ERROR
	 - Description: "dereference failure: invalid integer address"
	 - Location: <builtin-library-memcmp>:27 in function memcmp

Check 711: memcmp.pointer_dereference.7
	 - Status: SUCCESS
	 - Description: "dereference failure: pointer NULL"
	 - Location: <builtin-library-memcmp>:27 in function memcmp

Check 712: memcmp.pointer_dereference.8
	 - Status: SUCCESS
	 - Description: "dereference failure: pointer invalid"
	 - Location: <builtin-library-memcmp>:27 in function memcmp

Check 713: memcmp.pointer_dereference.9
	 - Status: SUCCESS
	 - Description: "dereference failure: deallocated dynamic object"
	 - Location: <builtin-library-memcmp>:27 in function memcmp

Check 714: memcmp.pointer_dereference.10
	 - Status: SUCCESS
	 - Description: "dereference failure: dead object"
	 - Location: <builtin-library-memcmp>:27 in function memcmp

Check 715: memcmp.pointer_dereference.11
	 - Status: ERROR
	 - Description: "dereference failure: pointer outside object bounds"
	 - Location: <builtin-library-memcmp>:27 in function memcmp

Check 716: memcmp.pointer_dereference.12
	 - Status: SUCCESS
	 - Description: "dereference failure: invalid integer address"
	 - Location: <builtin-library-memcmp>:27 in function memcmp

Check 717: <std::slice::Iter<'_, u8> as std::iter::Iterator>::position::<{closure@elf::string_table::StringTable<'_>::get_raw::{closure#0}}>.unwind.0
	 - Status: ERROR
	 - Description: "unwinding assertion loop 0"
	 - Location: ../../../home/runner/.rustup/toolchains/nightly-2026-08-21-x86_64-unknown-linux-gnu/lib/rustlib/src/rust/library/core/src/slice/iter/macros.rs:378:17 in function <std::slice::Iter<'_, u8> as std::iter::Iterator>::position::<{closure@elf::string_table::StringTable<'_>::get_raw::{closure#0}}>

Check 718: memcmp.unwind.0
	 - Status: ERROR
	 - Description: "unwinding assertion loop 0"
	 - Location: <builtin-library-memcmp>:25 in function memcmp

Check 719: elf::hash::GnuHashTable::<'_, elf::endian::AnyEndian>::find.unwind.0
	 - Status: ERROR
	 - Description: "unwinding assertion loop 0"
	 - Location: ../../../repo/src/hash.rs:304:9 in function elf::hash::GnuHashTable::<'_, elf::endian::AnyEndian>::find


SUMMARY:
 ** 0 of 719 failed (2 unreachable)

VERIFICATION:- FAILED
Verification Time: 352.6169s

WARNING: Kani could not produce a concrete playback for `c01::gnu_find_total_elf64` because there were no failing panic checks or satisfiable cover statements.
The concrete playback feature did not generate unit tests, but there were failing harnesses. Please file a bug report at https://github.com/model-checking/kani/issues/new?labels=bug&template=bug_report.md
Manual Harness Summary:
Verification failed for - c01::gnu_find_total_elf64
Complete - 0 successfully verified harnesses, 1 failures, 1 total.

*/
