//! Native confirmation for C06 (zero heap allocation in the slice parser): runs the slice-parser API on the crate's sample objects
//! and on variants with corrupted fields / non-UTF-8 section names under a counting global allocator.
//! Prints `FAIL C06 <scenario> :: allocated N time(s)` and exits 1 if any slice-parser call allocates.
use elf::endian::AnyEndian;
use elf::ElfBytes;
use std::alloc::{GlobalAlloc, Layout, System};
use std::cell::Cell;

thread_local! { static COUNT: Cell<usize> = const { Cell::new(0) }; static ON: Cell<bool> = const { Cell::new(false) }; }
struct Counting;
unsafe impl GlobalAlloc for Counting {
    unsafe fn alloc(&self, l: Layout) -> *mut u8 {
        let _ = ON.try_with(|on| if on.get() { let _ = COUNT.try_with(|c| c.set(c.get() + 1)); });
        System.alloc(l)
    }
    unsafe fn dealloc(&self, p: *mut u8, l: Layout) {
        System.dealloc(p, l)
    }
    unsafe fn realloc(&self, p: *mut u8, l: Layout, n: usize) -> *mut u8 {
        let _ = ON.try_with(|on| if on.get() { let _ = COUNT.try_with(|c| c.set(c.get() + 1)); });
        System.realloc(p, l, n)
    }
}
#[global_allocator]
static A: Counting = Counting;

fn exercise(f: &[u8]) {
    let e = match ElfBytes::<AnyEndian>::minimal_parse(f) {
        Ok(e) => e,
        Err(_) => return,
    };
    let _ = e.section_headers_with_strtab();
    for name in [".text", ".interp", ".dynsym", "", "zz", ".note.gnu.build-id"] {
        let _ = e.section_header_by_name(name);
    }
    if let Some(t) = e.section_headers() {
        for sh in t.iter().take(40) {
            let _ = e.section_data(&sh);
            if let Ok(mut it) = e.section_data_as_notes(&sh) {
                let _ = it.next();
            }
            if let Ok(mut it) = e.section_data_as_rels(&sh) {
                let _ = it.next();
            }
            if let Ok(mut it) = e.section_data_as_relas(&sh) {
                let _ = it.next();
            }
            if let Ok(s) = e.section_data_as_strtab(&sh) {
                let _ = s.get(1);
            }
        }
    }
    if let Some(t) = e.segments() {
        for ph in t.iter().take(20) {
            let _ = e.segment_data(&ph);
            if let Ok(mut it) = e.segment_data_as_notes(&ph) {
                let _ = it.next();
            }
        }
    }
    if let Ok(cd) = e.find_common_data() {
        if let (Some(h), Some(st), Some(ss)) = (&cd.gnu_hash, &cd.dynsyms, &cd.dynsyms_strs) {
            let _ = h.find(b"memset", st, ss);
            let _ = h.find(b"nonexistent_symbol", st, ss);
        }
        if let (Some(h), Some(st), Some(ss)) = (&cd.sysv_hash, &cd.dynsyms, &cd.dynsyms_strs) {
            let _ = h.find(b"memset", st, ss);
        }
    }
    let _ = e.symbol_table();
    let _ = e.dynamic_symbol_table();
    let _ = e.dynamic();
    if let Ok(Some(v)) = e.symbol_version_table() {
        for i in 0..6 {
            let _ = v.get_requirement(i);
            if let Ok(Some(d)) = v.get_definition(i) {
                for n in d.names {
                    let _ = n;
                }
            }
        }
    }
}

/// (.hash, .gnu.hash, .dynsym, .dynstr) with one bucket whose chain has `links` entries; all symbols are named "" but the last ("zz")
fn long_chain_tables(class: elf::file::Class, links: usize, cyclic: bool) -> (Vec<u8>, Vec<u8>, Vec<u8>, Vec<u8>) {
    let nsym = links + 1;
    let symsize = if class == elf::file::Class::ELF32 { 16 } else { 24 };
    let mut syms = vec![0u8; symsize * nsym];
    syms[symsize * (nsym - 1)] = 1;
    let strs = vec![0u8, b'z', b'z', 0];
    let mut sysv = Vec::new();
    for w in [1u32, nsym as u32, 1] {
        sysv.extend_from_slice(&w.to_le_bytes());
    }
    for i in 0..nsym {
        let next = if i == 0 { 0 } else if i + 1 < nsym { i + 1 } else if cyclic { 1 } else { 0 };
        sysv.extend_from_slice(&(next as u32).to_le_bytes());
    }
    let mut gnu = Vec::new();
    for w in [1u32, 1, 1, 0] {
        gnu.extend_from_slice(&w.to_le_bytes());
    }
    if class == elf::file::Class::ELF32 {
        gnu.extend_from_slice(&u32::MAX.to_le_bytes());
    } else {
        gnu.extend_from_slice(&u64::MAX.to_le_bytes());
    }
    gnu.extend_from_slice(&1u32.to_le_bytes());
    // djb2("zz") = 5381*33*33 + 122*33 + 122 = 5864057 (the last symbol's chain word carries it with the stop bit)
    let hzz: u32 = 5381u32 * 33 * 33 + 122 * 33 + 122;
    for i in 0..links {
        let w = if i + 1 < links { 2 } else if cyclic { hzz & !1 } else { hzz | 1 };
        gnu.extend_from_slice(&w.to_le_bytes());
    }
    (sysv, gnu, syms, strs)
}

fn main() {
    let mut names: Vec<_> = std::fs::read_dir("/repo/sample-objects").map(|d| d.filter_map(|e| e.ok()).map(|e| e.path()).collect()).unwrap_or_default();
    names.sort();
    let mut failed = false;
    let mut n = 0;
    for p in names {
        let file = match std::fs::read(&p) {
            Ok(f) if f.len() >= 64 => f,
            _ => continue,
        };
        let mut variants = vec![("original".to_string(), file.clone())];
        // non-UTF-8 bytes in the section-name string table (ELF64 LE files)
        if file[4] == 2 && file[5] == 1 {
            let shoff = u64::from_le_bytes(file[40..48].try_into().unwrap()) as usize;
            let ndx = u16::from_le_bytes(file[62..64].try_into().unwrap()) as usize;
            let p = shoff + 64 * ndx;
            if p + 64 <= file.len() {
                let off = u64::from_le_bytes(file[p + 24..p + 32].try_into().unwrap()) as usize;
                let size = u64::from_le_bytes(file[p + 32..p + 40].try_into().unwrap()) as usize;
                for k in [1usize, 2, 9, 17] {
                    if k < size && off + k < file.len() {
                        let mut f = file.clone();
                        f[off + k] = 0xff;
                        variants.push((format!("section-name byte {k} = 0xff"), f));
                    }
                }
            }
            for (what, pos) in [("e_shnum", 60usize), ("e_phnum", 56), ("e_shstrndx", 62)] {
                let mut f = file.clone();
                f[pos] = 0xff;
                f[pos + 1] = 0xff;
                variants.push((format!("{what}=0xffff"), f));
            }
        }
        for (what, f) in variants {
            COUNT.with(|c| c.set(0));
            ON.with(|o| o.set(true));
            exercise(&f);
            ON.with(|o| o.set(false));
            let c = COUNT.with(|c| c.get());
            n += 1;
            if c > 0 {
                println!("FAIL C06 {} [{}] :: the slice parser allocated {} time(s)", p.display(), what, c);
                failed = true;
            }
        }
    }
    // synthetic hash tables with chains far longer than any sample's (open and cyclic), ELF32 and ELF64, looked up directly
    for class in [elf::file::Class::ELF32, elf::file::Class::ELF64] {
        for links in [3usize, 40, 200] {
            for cyclic in [false, true] {
                let (sysv, gnu, syms, strs) = long_chain_tables(class, links, cyclic);
                COUNT.with(|c| c.set(0));
                ON.with(|o| o.set(true));
                let symtab = elf::symbol::SymbolTable::new(AnyEndian::Little, class, &syms);
                let strtab = elf::string_table::StringTable::new(&strs);
                if let Ok(t) = elf::hash::SysVHashTable::new(AnyEndian::Little, class, &sysv) {
                    let _ = t.find(b"zz", &symtab, &strtab);
                    let _ = t.find(b"qq", &symtab, &strtab);
                }
                if let Ok(t) = elf::hash::GnuHashTable::new(AnyEndian::Little, class, &gnu) {
                    let _ = t.find(b"zz", &symtab, &strtab);
                    let _ = t.find(b"qq", &symtab, &strtab);
                }
                ON.with(|o| o.set(false));
                let c = COUNT.with(|c| c.get());
                n += 1;
                if c > 0 {
                    println!("FAIL C06 synthetic hash tables with a {links}-link chain (cyclic={cyclic}, {class:?}) :: the hash lookups allocated {c} time(s)");
                    failed = true;
                }
            }
        }
    }
    if failed {
        std::process::exit(1);
    }
    println!("C06: {n} files exercised through the slice-parser API with 0 heap allocations");
}
