//! C06 — zero heap allocation in the slice parser. Every allocator entry point is stubbed by a function that asserts
//! false, so "no allocation on any path for any input within the bound" is a reachability verdict of the solver.
#![allow(dead_code, unused_imports)]
#[cfg(kani)]
macro_rules! hash_no_alloc {
    ($name:ident, |$e:ident, $symtab:ident, $strtab:ident, $q:ident| $body:block) => {
        #[kani::proof]
        #[kani::stub(std::alloc::alloc, no_alloc)]
        #[kani::stub(std::alloc::alloc_zeroed, no_alloc)]
        #[kani::stub(std::alloc::realloc, no_realloc)]
        #[kani::unwind(7)]
        pub fn $name() {
            let $e = AnyEndian::Little;
            let mut syms = [0u8; 48];
            w32(&mut syms, 16, kani::any());
            w32(&mut syms, 32, kani::any());
            let $symtab: SymbolTable<'_, AnyEndian> = ParsingTable::new($e, Class::ELF32, &syms);
            let sb: [u8; 5] = [kani::any(), kani::any(), kani::any(), kani::any(), 0];
            let $strtab = StringTable::new(&sb);
            let qb: [u8; 2] = kani::any();
            let ql: usize = kani::any();
            kani::assume(ql <= 2);
            let $q = &qb[..ql];
            $body
        }
    };
}

#[cfg(kani)]
pub mod z {
    use core::alloc::Layout;
    use elf::endian::{AnyEndian, EndianParse};
    use elf::file::Class;
    use elf::gnu_symver::{SymbolVersionTable, VerDefIterator, VerNeedIterator, VersionIndexTable};
    use elf::hash::{GnuHashTable, SysVHashTable};
    use elf::note::NoteIterator;
    use elf::parse::ParsingTable;
    use elf::relocation::Rel;
    use elf::section::SectionHeader;
    use elf::segment::ProgramHeader;
    use elf::string_table::StringTable;
    use elf::symbol::{Symbol, SymbolTable};
    use elf::ElfBytes;

    pub unsafe fn no_alloc(_l: Layout) -> *mut u8 {
        kani::assert(false, "heap allocation reached (alloc / alloc_zeroed)");
        core::ptr::null_mut()
    }
    pub unsafe fn no_realloc(_p: *mut u8, _l: Layout, _n: usize) -> *mut u8 {
        kani::assert(false, "heap allocation reached (realloc)");
        core::ptr::null_mut()
    }

    const N: usize = 128;
    const fn header_only() -> [u8; N] {
        let mut f = [0u8; N];
        let mut i = 0;
        while i < N {
            f[i] = (i as u8).wrapping_mul(7).wrapping_add(3);
            i += 1;
        }
        f[0] = 0x7f;
        f[1] = b'E';
        f[2] = b'L';
        f[3] = b'F';
        f[4] = 2;
        f[5] = 1;
        f[6] = 1;
        let mut i = 7;
        while i < 64 {
            f[i] = 0;
            i += 1;
        }
        f[16] = 2;
        f[18] = 62;
        f[20] = 1;
        f
    }
    pub const FILE: [u8; N] = header_only();

    fn any_shdr() -> SectionHeader {
        SectionHeader {
            sh_name: kani::any(),
            sh_type: kani::any(),
            sh_flags: kani::any(),
            sh_addr: kani::any(),
            sh_offset: kani::any(),
            sh_size: kani::any(),
            sh_link: kani::any(),
            sh_info: kani::any(),
            sh_addralign: kani::any(),
            sh_entsize: kani::any(),
        }
    }
    fn any_phdr() -> ProgramHeader {
        ProgramHeader {
            p_type: kani::any(),
            p_offset: kani::any(),
            p_vaddr: kani::any(),
            p_paddr: kani::any(),
            p_filesz: kani::any(),
            p_memsz: kani::any(),
            p_flags: kani::any(),
            p_align: kani::any(),
        }
    }

    macro_rules! no_alloc_harness {
        ($name:ident, |$f:ident| $body:block) => {
            #[kani::proof]
            #[kani::stub(std::alloc::alloc, no_alloc)]
            #[kani::stub(std::alloc::alloc_zeroed, no_alloc)]
            #[kani::stub(std::alloc::realloc, no_realloc)]
            #[kani::unwind(6)]
            pub fn $name() {
                let file: &'static [u8] = &FILE;
                let $f = match ElfBytes::<AnyEndian>::minimal_parse(file) {
                    Ok(f) => f,
                    Err(_) => return,
                };
                $body
            }
        };
    }
    // every accessor taking a caller-supplied (fully symbolic, hence also corrupted) header; one harness per accessor family
    no_alloc_harness!(section_data_no_alloc, |f| {
        let sh = any_shdr();
        let r = f.section_data(&sh);
        kani::cover!(r.is_err(), "corrupted header argument reaches the error path");
        let _ = f.section_data_as_strtab(&sh);
    });
    no_alloc_harness!(rel_views_no_alloc, |f| {
        let sh = any_shdr();
        if let Ok(mut it) = f.section_data_as_rels(&sh) {
            let _ = it.next();
        }
        if let Ok(mut it) = f.section_data_as_relas(&sh) {
            let _ = it.next();
        }
    });
    no_alloc_harness!(note_views_no_alloc, |f| {
        let sh = any_shdr();
        if let Ok(mut it) = f.section_data_as_notes(&sh) {
            let _ = it.next();
        }
    });
    no_alloc_harness!(segment_no_alloc, |f| {
        let ph = any_phdr();
        let _ = f.segment_data(&ph);
        if let Ok(mut it) = f.segment_data_as_notes(&ph) {
            let _ = it.next();
        }
    });
    no_alloc_harness!(table_accessors_no_alloc, |f| {
        let _ = f.section_headers();
        let _ = f.segments();
        let _ = f.section_headers_with_strtab();
        let _ = f.symbol_table();
        let _ = f.dynamic_symbol_table();
        let _ = f.dynamic();
        let _ = f.symbol_version_table();
        let _ = f.find_common_data();
    });

    /// opening arbitrary (also invalid) header bytes allocates nothing
    #[kani::proof]
    #[kani::stub(std::alloc::alloc, no_alloc)]
    #[kani::stub(std::alloc::alloc_zeroed, no_alloc)]
    #[kani::stub(std::alloc::realloc, no_realloc)]
    #[kani::unwind(9)]
    pub fn open_no_alloc() {
        let buf: [u8; 64] = kani::any();
        let len: usize = kani::any();
        kani::assume(len <= 64);
        let r = ElfBytes::<AnyEndian>::minimal_parse(&buf[..len]);
        kani::cover!(r.is_err(), "rejected header");
    }

    pub fn w32(buf: &mut [u8], pos: usize, v: u32) {
        let b = v.to_le_bytes();
        buf[pos] = b[0];
        buf[pos + 1] = b[1];
        buf[pos + 2] = b[2];
        buf[pos + 3] = b[3];
    }
    pub fn w16(buf: &mut [u8], pos: usize, v: u16) {
        let b = v.to_le_bytes();
        buf[pos] = b[0];
        buf[pos + 1] = b[1];
    }

    // hash lookups on small tables with symbolic bucket / chain / bloom words, symbol names and query (ELF32 LE)
    hash_no_alloc!(sysv_find_no_alloc, |e, symtab, strtab, q| {
        // SysV: nbucket=2, nchain=3, every bucket and chain word symbolic (cycles and out-of-range links included)
        let mut tab = [0u8; 28];
        w32(&mut tab, 0, 2);
        w32(&mut tab, 4, 3);
        w32(&mut tab, 8, kani::any());
        w32(&mut tab, 12, kani::any());
        w32(&mut tab, 16, kani::any());
        w32(&mut tab, 20, kani::any());
        w32(&mut tab, 24, kani::any());
        if let Ok(t) = SysVHashTable::new(e, Class::ELF32, &tab) {
            let r = t.find(q, &symtab, &strtab);
            kani::cover!(r.is_err(), "SysV lookup error path");
        }
    });
    /// lazy tables, string table, notes on symbolic bytes
    #[kani::proof]
    #[kani::stub(std::alloc::alloc, no_alloc)]
    #[kani::stub(std::alloc::alloc_zeroed, no_alloc)]
    #[kani::stub(std::alloc::realloc, no_realloc)]
    #[kani::unwind(8)]
    pub fn views_no_alloc() {
        let buf: [u8; 24] = kani::any();
        let len: usize = kani::any();
        kani::assume(len <= 24);
        let data = &buf[..len];
        let e = if kani::any() { AnyEndian::Little } else { AnyEndian::Big };
        let t: SymbolTable<'_, AnyEndian> = ParsingTable::new(e, Class::ELF32, data);
        let _ = t.get(kani::any());
        let _ = t.iter().next();
        let st = StringTable::new(&data[..if len > 6 { 6 } else { len }]);
        let _ = st.get_raw(kani::any());
        let _ = st.get(kani::any());
        let mut ni = NoteIterator::new(e, Class::ELF64, kani::any(), data);
        let _ = ni.next();
    }
}

#[cfg(kani)]
pub mod zs {
    //! thorough tier: GNU hash lookups and symbol-version queries under the allocator stub
    use super::z::*;
    use elf::endian::AnyEndian;
    use elf::file::Class;
    use elf::gnu_symver::{SymbolVersionTable, VerDefIterator, VerNeedIterator, VersionIndexTable};
    use elf::hash::{GnuHashTable, SysVHashTable};
    use elf::parse::ParsingTable;
    use elf::string_table::StringTable;
    use elf::symbol::SymbolTable;

    hash_no_alloc!(gnu_find_no_alloc, |e, symtab, strtab, q| {
        // GNU: nbucket=1, symoffset, bloom size 1, shift, bloom word, bucket, two chain words: all symbolic but the counts
        let mut g = [0u8; 32];
        w32(&mut g, 0, 1);
        w32(&mut g, 4, kani::any());
        w32(&mut g, 8, 1);
        w32(&mut g, 12, kani::any());
        w32(&mut g, 16, kani::any());
        w32(&mut g, 20, kani::any());
        w32(&mut g, 24, kani::any());
        w32(&mut g, 28, kani::any());
        if let Ok(t) = GnuHashTable::new(e, Class::ELF32, &g) {
            let r = t.find(q, &symtab, &strtab);
            kani::cover!(matches!(r, Ok(None)), "GNU lookup miss");
        }
    });

    /// symbol-version queries (requirement and definition) on small version sections with symbolic ids / flags / links
    #[kani::proof]
    #[kani::stub(std::alloc::alloc, no_alloc)]
    #[kani::stub(std::alloc::alloc_zeroed, no_alloc)]
    #[kani::stub(std::alloc::realloc, no_realloc)]
    #[kani::unwind(6)]
    pub fn symver_queries_no_alloc() {
        let e = AnyEndian::Little;
        let strs: [u8; 6] = [0, b'a', 0, b'l', kani::any(), 0];
        // verneed: one file record (cnt symbolic <= 2) + two aux records; vn_aux / vna_next / names symbolic
        let mut need = [0u8; 48];
        let cnt: u16 = kani::any();
        kani::assume(cnt <= 2);
        w16(&mut need, 0, 1);
        w16(&mut need, 2, cnt);
        w32(&mut need, 4, kani::any());
        w32(&mut need, 8, kani::any());
        w32(&mut need, 12, 0);
        w32(&mut need, 16, kani::any());
        w16(&mut need, 20, kani::any());
        w16(&mut need, 22, kani::any());
        w32(&mut need, 24, kani::any());
        w32(&mut need, 28, kani::any());
        w16(&mut need, 38, kani::any());
        w32(&mut need, 40, 1);
        // verdef: one definition with one name record; vd_aux / vd_next / vd_cnt symbolic
        let mut def = [0u8; 28];
        w16(&mut def, 0, 1);
        w16(&mut def, 2, kani::any());
        let dcnt: u16 = kani::any();
        kani::assume(dcnt <= 1);
        w16(&mut def, 4, kani::any());
        w16(&mut def, 6, dcnt);
        w32(&mut def, 8, kani::any());
        w32(&mut def, 12, kani::any());
        w32(&mut def, 16, kani::any());
        w32(&mut def, 20, kani::any());
        w32(&mut def, 24, 0);
        let mut vs = [0u8; 4];
        w16(&mut vs, 0, kani::any());
        w16(&mut vs, 2, kani::any());
        let ids: VersionIndexTable<'_, AnyEndian> = ParsingTable::new(e, Class::ELF64, &vs);
        let table = SymbolVersionTable::new(
            ids,
            Some((VerNeedIterator::new(e, Class::ELF64, 1, 0, &need), StringTable::new(&strs))),
            Some((VerDefIterator::new(e, Class::ELF64, 1, 0, &def), StringTable::new(&strs))),
        );
        let i: usize = kani::any();
        let r = table.get_requirement(i);
        kani::cover!(matches!(r, Ok(Some(_))), "requirement found");
        kani::cover!(r.is_err(), "requirement lookup error path");
        if let Ok(Some(d)) = table.get_definition(i) {
            let mut names = d.names;
            let n = names.next();
            kani::cover!(matches!(n, Some(Err(_))), "definition name error path");
        }
    }

}

#[cfg(kani)]
pub mod zn {
    //! by-name lookup on a file whose section names include non-UTF-8 bytes, duplicates and prefixes (symbolic query)
    use super::z::*;
    use elf::endian::AnyEndian;
    use elf::ElfBytes;
    include!("../../core/src/gen_files.rs");

    #[kani::proof]
    #[kani::stub(std::alloc::alloc, no_alloc)]
    #[kani::stub(std::alloc::alloc_zeroed, no_alloc)]
    #[kani::stub(std::alloc::realloc, no_realloc)]
    #[kani::unwind(18)]
    pub fn by_name_no_alloc() {
        let file: &'static [u8] = &NAMES_A_FILE;
        let f = ElfBytes::<AnyEndian>::minimal_parse(file).unwrap();
        // a concrete absent name: every section name (incl. the non-UTF-8 one) is visited; the file is constant
        let r = f.section_header_by_name("zz");
        kani::cover!(matches!(r, Ok(None)), "name not present: every section name (incl. the non-UTF-8 one) was visited");
    }
}

#[cfg(kani)]
pub mod zt {
    //! by-name lookup on a tiny 3-section file whose only named section has a non-UTF-8 name (concrete absent query)
    use super::z::*;
    use elf::endian::AnyEndian;
    use elf::ElfBytes;
    include!("../../core/src/gen_files.rs");

    #[kani::proof]
    #[kani::stub(std::alloc::alloc, no_alloc)]
    #[kani::stub(std::alloc::alloc_zeroed, no_alloc)]
    #[kani::stub(std::alloc::realloc, no_realloc)]
    #[kani::unwind(6)]
    pub fn by_name_tiny_no_alloc() {
        let file: &'static [u8] = &NAMES_T_FILE;
        let f = ElfBytes::<AnyEndian>::minimal_parse(file).unwrap();
        let r = f.section_header_by_name("z");
        kani::cover!(matches!(r, Ok(None)), "name not present: the non-UTF-8 section name was visited");
    }
}

#[cfg(kani)]
pub mod zw {
    //! reachability witness: the same stubs DO catch an allocation (this harness must fail with the stub's assertion)
    use super::z::*;
    #[kani::proof]
    #[kani::stub(std::alloc::alloc, no_alloc)]
    #[kani::stub(std::alloc::alloc_zeroed, no_alloc)]
    #[kani::stub(std::alloc::realloc, no_realloc)]
    pub fn witness_vec_allocation_is_caught() {
        let n: usize = kani::any();
        kani::assume(n > 0 && n < 8);
        let v: Vec<u8> = Vec::with_capacity(n);
        assert!(v.capacity() >= n);
    }
}
