//! Native confirmation program for engine-B (mirsym) counterexamples.
//! Drives the REAL ElfStream through a scripted, fault-injecting Read+Seek and the REAL ElfBytes on the same bytes,
//! over small families of concrete scenarios (seeded by hints taken from the solver's model), and checks the
//! stream-parser properties natively: equivalence with the slice parser (C07/C05), bounded allocation, laziness and
//! no panic (C08), faults surface as errors and leave no residue (C17), truncation monotonicity (C18).
//! Prints `FAIL <property> <scenario> :: <what>` and exits 1 on the first violation; exits 0 when every scenario passes.
use elf::endian::AnyEndian;
use elf::section::SectionHeader;
use elf::segment::ProgramHeader;
use elf::{ElfBytes, ElfStream};
use std::alloc::{GlobalAlloc, Layout, System};
use std::io::{Read, Seek, SeekFrom};
use std::panic::{catch_unwind, AssertUnwindSafe};
use std::sync::atomic::{AtomicUsize, Ordering};

/// bytes delivered by the scripted reader (laziness accounting)
static BYTES_READ: AtomicUsize = AtomicUsize::new(0);

struct CountingAlloc;
static MAX_ALLOC: AtomicUsize = AtomicUsize::new(0);
static ALLOC_LIMIT: AtomicUsize = AtomicUsize::new(usize::MAX);
unsafe impl GlobalAlloc for CountingAlloc {
    unsafe fn alloc(&self, l: Layout) -> *mut u8 {
        MAX_ALLOC.fetch_max(l.size(), Ordering::Relaxed);
        if l.size() > ALLOC_LIMIT.load(Ordering::Relaxed) {
            return std::ptr::null_mut();
        }
        System.alloc(l)
    }
    unsafe fn alloc_zeroed(&self, l: Layout) -> *mut u8 {
        MAX_ALLOC.fetch_max(l.size(), Ordering::Relaxed);
        if l.size() > ALLOC_LIMIT.load(Ordering::Relaxed) {
            return std::ptr::null_mut();
        }
        System.alloc_zeroed(l)
    }
    unsafe fn dealloc(&self, p: *mut u8, l: Layout) {
        System.dealloc(p, l)
    }
    unsafe fn realloc(&self, p: *mut u8, l: Layout, n: usize) -> *mut u8 {
        MAX_ALLOC.fetch_max(n, Ordering::Relaxed);
        if n > ALLOC_LIMIT.load(Ordering::Relaxed) {
            return std::ptr::null_mut();
        }
        System.realloc(p, l, n)
    }
}
#[global_allocator]
static A: CountingAlloc = CountingAlloc;

#[derive(Clone, Copy, PartialEq, Debug)]
enum Fault {
    None,
    Error,       // the I/O call returns Err(Other)
    Eof,         // read returns Ok(0) (premature EOF) / seek fails
    Interrupted, // read returns Err(Interrupted) once, then proceeds (legal behaviour, must be transparent)
    PartialTimedOut,   // the read delivers at most 3 bytes (legal short read), the NEXT read returns Err(TimedOut) once
    PartialWouldBlock, // same with Err(WouldBlock): the reader has consumed bytes when the error surfaces
}
impl Fault {
    /// a fault after which the call that hit it may (must, unless it re-seeks and re-reads correctly) return Err
    fn hard(self) -> bool {
        matches!(self, Fault::Error | Fault::Eof | Fault::PartialTimedOut | Fault::PartialWouldBlock)
    }
}

/// Scripted reader: serves `data`; `short` makes every read deliver at most 1 byte (legal); a fault at I/O call index `at`.
struct ScriptReader<'a> {
    data: &'a [u8],
    pos: u64,
    ops: usize,
    at: usize,
    fault: Fault,
    short: bool,
    fired: bool,
    stage: u8,
    bytes_read: usize,
}
impl<'a> ScriptReader<'a> {
    fn new(data: &'a [u8], at: usize, fault: Fault, short: bool) -> Self {
        ScriptReader { data, pos: 0, ops: 0, at, fault, short, fired: false, stage: 0, bytes_read: 0 }
    }
}
impl Read for ScriptReader<'_> {
    fn read(&mut self, buf: &mut [u8]) -> std::io::Result<usize> {
        let idx = self.ops;
        self.ops += 1;
        let partial = matches!(self.fault, Fault::PartialTimedOut | Fault::PartialWouldBlock);
        if partial && self.stage == 1 {
            self.stage = 2;
            self.fired = true;
            let kind = if self.fault == Fault::PartialTimedOut { std::io::ErrorKind::TimedOut } else { std::io::ErrorKind::WouldBlock };
            return Err(std::io::Error::new(kind, "injected transient error after a partial read"));
        }
        let mut cap = usize::MAX;
        if partial && idx == self.at && self.stage == 0 && buf.len() > 3 {
            self.stage = 1;
            cap = 3;
        }
        if idx == self.at && !self.fired && !partial {
            self.fired = true;
            match self.fault {
                Fault::Error => return Err(std::io::Error::new(std::io::ErrorKind::Other, "injected read error")),
                Fault::Eof => return Ok(0),
                Fault::Interrupted => return Err(std::io::Error::new(std::io::ErrorKind::Interrupted, "injected EINTR")),
                _ => {}
            }
        }
        let avail = if self.pos >= self.data.len() as u64 { 0 } else { self.data.len() - self.pos as usize };
        let mut n = buf.len().min(avail).min(cap);
        if self.short {
            n = n.min(1);
        }
        buf[..n].copy_from_slice(&self.data[self.pos as usize..self.pos as usize + n]);
        self.pos += n as u64;
        self.bytes_read += n;
        BYTES_READ.fetch_add(n, Ordering::Relaxed);
        Ok(n)
    }
}
impl Seek for ScriptReader<'_> {
    fn seek(&mut self, to: SeekFrom) -> std::io::Result<u64> {
        let idx = self.ops;
        self.ops += 1;
        if idx == self.at && !self.fired && (self.fault == Fault::Error || self.fault == Fault::Eof) {
            self.fired = true;
            return Err(std::io::Error::new(std::io::ErrorKind::Other, "injected seek error"));
        }
        let np = match to {
            SeekFrom::Start(p) => p as i128,
            SeekFrom::End(d) => self.data.len() as i128 + d as i128,
            SeekFrom::Current(d) => self.pos as i128 + d as i128,
        };
        if np < 0 {
            return Err(std::io::Error::new(std::io::ErrorKind::InvalidInput, "negative seek"));
        }
        self.pos = np as u64;
        Ok(self.pos)
    }
}

fn header_only(len: usize) -> Vec<u8> {
    let mut f: Vec<u8> = (0..len).map(|i| (i as u8).wrapping_mul(7).wrapping_add(3)).collect();
    let hdr: [u8; 64] = {
        let mut h = [0u8; 64];
        h[0] = 0x7f;
        h[1] = b'E';
        h[2] = b'L';
        h[3] = b'F';
        h[4] = 2;
        h[5] = 1;
        h[6] = 1;
        h[16] = 2;
        h[18] = 62;
        h[20] = 1;
        h[52] = 64;
        h
    };
    let n = len.min(64);
    f[..n].copy_from_slice(&hdr[..n]);
    f
}

fn shdr(ty: u32, off: u64, size: u64) -> SectionHeader {
    SectionHeader { sh_name: 0, sh_type: ty, sh_flags: 0, sh_addr: 0, sh_offset: off, sh_size: size, sh_link: 0, sh_info: 0, sh_addralign: 4, sh_entsize: 0 }
}

struct Failure(String);

macro_rules! fail {
    ($($t:tt)*) => { return Err(Failure(format!($($t)*))) };
}

/// Family A: header-only file of `len` bytes; a sequence of section_data / segment-notes queries over `ranges`;
/// fault `fault` injected at I/O call `at` (counted from the start of the stream's life), `short` reads.
fn scenario_a(len: usize, seq: &[(u64, u64)], at: usize, fault: Fault, short: bool) -> Result<usize, Failure> {
    let file = header_only(len);
    let bytes = ElfBytes::<AnyEndian>::minimal_parse(&file);
    MAX_ALLOC.store(0, Ordering::Relaxed);
    let reader = ScriptReader::new(&file, at, fault, short);
    let opened = catch_unwind(AssertUnwindSafe(|| ElfStream::<AnyEndian, _>::open_stream(reader)));
    let opened = match opened {
        Ok(o) => o,
        Err(_) => fail!("C08 open_stream panicked"),
    };
    let bound = 4 * len + 8192;
    if MAX_ALLOC.load(Ordering::Relaxed) > bound {
        fail!("C08 open_stream made a single allocation of {} bytes for a {}-byte stream", MAX_ALLOC.load(Ordering::Relaxed), len);
    }
    let mut stream = match (opened, &bytes) {
        (Ok(s), Ok(_)) => s,
        (Err(_), Err(_)) => return Ok(0),
        (Err(e), Ok(_)) => {
            // open may fail only because of the injected hard fault
            if fault.hard() {
                return Ok(0);
            }
            fail!("C07 open_stream failed ({e}) where minimal_parse succeeds, no hard fault injected");
        }
        (Ok(_), Err(e)) => fail!("C07 open_stream succeeded where minimal_parse fails ({e})"),
    };
    let bytes = bytes.unwrap();
    let mut total_ops = 0usize;
    for (qi, &(off, size)) in seq.iter().enumerate() {
        let sh = shdr(1, off, size);
        let expect = bytes.section_data(&sh);
        MAX_ALLOC.store(0, Ordering::Relaxed);
        BYTES_READ.store(0, Ordering::Relaxed);
        let got = catch_unwind(AssertUnwindSafe(|| stream.section_data(&sh).map(|(b, c)| (b.to_vec(), c))));
        if !short && fault == Fault::None && (BYTES_READ.load(Ordering::Relaxed) as u64) > size {
            fail!("C08 section_data({off},{size}) read {} bytes from the stream, more than the designated range", BYTES_READ.load(Ordering::Relaxed));
        }
        let got = match got {
            Ok(g) => g,
            Err(_) => fail!("C08 section_data panicked at query {qi} range ({off},{size})"),
        };
        if MAX_ALLOC.load(Ordering::Relaxed) > bound {
            fail!("C08 section_data({off},{size}) made a single allocation of {} bytes for a {}-byte stream", MAX_ALLOC.load(Ordering::Relaxed), len);
        }
        match (&got, &expect) {
            (Ok((g, _)), Ok((e, _))) => {
                if g.as_slice() != *e {
                    if fault.hard() {
                        fail!("C17 section_data({off},{size}) at query {qi}: under an injected {fault:?} the stream returned Ok with fabricated/different bytes (len {} vs {})", g.len(), e.len());
                    }
                    fail!("C07 section_data({off},{size}) at query {qi}: stream returned different bytes than the slice parser (len {} vs {})", g.len(), e.len());
                }
            }
            (Err(_), Err(_)) => {}
            (Ok(_), Err(e)) => fail!("{} section_data({off},{size}) at query {qi}: stream Ok where the slice parser fails ({e})", if fault.hard() { "C17" } else { "C07" }),
            (Err(e), Ok(_)) => {
                // acceptable only if a hard fault fired during this life of the stream and it is this query that hit it
                let hard = fault.hard();
                if !hard {
                    fail!("C07 section_data({off},{size}) at query {qi}: stream Err ({e}) where the slice parser succeeds (reader is fault-free/legal)");
                }
            }
        }
        total_ops += 1;
    }
    Ok(total_ops)
}

/// after a hard fault in query k, later fault-free queries must give the fault-free answers: run twice and compare
fn scenario_a_residue(len: usize, seq: &[(u64, u64)], at: usize, fault: Fault) -> Result<(), Failure> {
    let file = header_only(len);
    let bytes = match ElfBytes::<AnyEndian>::minimal_parse(&file) {
        Ok(b) => b,
        Err(_) => return Ok(()),
    };
    let reader = ScriptReader::new(&file, at, fault, false);
    let mut stream = match catch_unwind(AssertUnwindSafe(|| ElfStream::<AnyEndian, _>::open_stream(reader))) {
        Ok(Ok(s)) => s,
        Ok(Err(_)) => return Ok(()),
        Err(_) => fail!("C08 open_stream panicked"),
    };
    let mut faulted = false;
    for (qi, &(off, size)) in seq.iter().enumerate() {
        let sh = shdr(1, off, size);
        let expect = bytes.section_data(&sh);
        let got = match catch_unwind(AssertUnwindSafe(|| stream.section_data(&sh).map(|(b, _)| b.to_vec()))) {
            Ok(g) => g,
            Err(_) => fail!("C17 section_data panicked at query {qi} under fault {fault:?}@{at}"),
        };
        match (&got, &expect) {
            (Ok(g), Ok((e, _))) => {
                if g.as_slice() != *e {
                    fail!("C17 after fault {fault:?}@{at}: section_data({off},{size}) at query {qi} returned fabricated/different data");
                }
            }
            (Ok(_), Err(_)) => fail!("C17 after fault {fault:?}@{at}: section_data({off},{size}) Ok where the fault-free answer is Err"),
            (Err(_), Ok(_)) => {
                if faulted {
                    fail!("C17 fault {fault:?}@{at} left residue: query {qi} ({off},{size}) fails again although the reader is healthy now");
                }
                faulted = true; // the one query that hit the injected fault
            }
            (Err(_), Err(_)) => {}
        }
    }
    Ok(())
}

fn ranges(len: usize, hints: &[(String, u64)]) -> Vec<(u64, u64)> {
    let l = len as u64;
    let mut r = vec![(0, 0), (0, l), (l, 0), (l - 1, 1), (10, 10), (10, 20), (5, 15), (10, l - 9), (l, 1), (64, 8), (64, 16), (72, 8)];
    r.extend([(1u64 << 63, 1), (u64::MAX, 1), (1, u64::MAX), (0, 1 << 40), (16, 1 << 33)]);
    let get = |k: &str| hints.iter().find(|(n, _)| n == k).map(|(_, v)| *v);
    if let (Some(s), Some(e)) = (get("range_start"), get("range_end")) {
        r.push((s, e.wrapping_sub(s)));
        r.push((s % l, (e.wrapping_sub(s)) % (l + 2)));
    }
    if let (Some(o), Some(s)) = (get("arg.sh_offset"), get("arg.sh_size")) {
        r.push((o, s));
        r.push((o % l, s % (l + 2)));
    }
    r
}

static mut FAILS: Vec<String> = Vec::new();
/// keep the first failure of each distinct kind ("<property> <next two words>") and continue with the next scenario
fn note<T: Default>(r: Result<T, Failure>) -> T {
    match r {
        Ok(v) => v,
        Err(f) => {
            unsafe {
                let fails = &mut *std::ptr::addr_of_mut!(FAILS);
                let key: String = f.0.split(' ').take(3).collect::<Vec<_>>().join(" ");
                if fails.len() < 60 && !fails.iter().any(|x| x.starts_with(&key)) {
                    fails.push(f.0);
                }
            }
            T::default()
        }
    }
}

fn run_family_a(hints: &[(String, u64)]) -> Result<usize, Failure> {
    let mut n = 0usize;
    let mut lens = vec![64usize, 65, 100, 200];
    if let Some((_, v)) = hints.iter().find(|(k, _)| k == "file_len") {
        if *v >= 64 && *v <= 4096 {
            lens.push(*v as usize);
        }
    }
    for &len in &lens {
        let rs = ranges(len, hints);
        // single queries and ordered pairs / a-b-a triples (cache interplay: shared start, shared end)
        let mut seqs: Vec<Vec<(u64, u64)>> = rs.iter().map(|r| vec![*r]).collect();
        for a in rs.iter().take(12) {
            for b in rs.iter().take(12) {
                seqs.push(vec![*a, *b, *a]);
            }
        }
        for seq in &seqs {
            note(scenario_a(len, seq, usize::MAX, Fault::None, false).map_err(|f| Failure(format!("{} [len={len} seq={seq:?} no fault]", f.0))));
            n += 1;
        }
        for seq in seqs.iter().filter(|s| s.len() == 3).step_by(7) {
            note(scenario_a(len, seq, usize::MAX, Fault::None, true).map_err(|f| Failure(format!("{} [len={len} seq={seq:?} short reads]", f.0))));
            for at in 0..14 {
                note(scenario_a(len, seq, at, Fault::Interrupted, false).map_err(|f| Failure(format!("{} [len={len} seq={seq:?} EINTR@{at}]", f.0))));
                for fault in [Fault::Error, Fault::Eof, Fault::PartialTimedOut, Fault::PartialWouldBlock] {
                    note(scenario_a(len, seq, at, fault, false).map_err(|f| Failure(format!("{} [len={len} seq={seq:?} {fault:?}@{at}]", f.0))));
                    note(scenario_a_residue(len, seq, at, fault).map_err(|f| Failure(format!("{} [len={len} seq={seq:?}]", f.0))));
                    n += 2;
                }
            }
        }
    }
    Ok(n)
}

/// Family B: whole files (the crate's sample objects and corrupted variants): open + accessor equivalence.
fn compare_file(name: &str, file: &[u8], at: usize, fault: Fault, short: bool) -> Result<(), Failure> {
    let bytes = ElfBytes::<AnyEndian>::minimal_parse(file);
    MAX_ALLOC.store(0, Ordering::Relaxed);
    BYTES_READ.store(0, Ordering::Relaxed);
    let reader = ScriptReader::new(file, at, fault, short);
    let opened = match catch_unwind(AssertUnwindSafe(|| ElfStream::<AnyEndian, _>::open_stream(reader))) {
        Ok(o) => o,
        Err(_) => fail!("C08 open_stream panicked on {name}"),
    };
    let hard = fault.hard();
    if let Ok(b) = &bytes {
        // laziness of open: no more than the file header, shdr[0] (twice at most) and the two tables
        let sh = b.section_headers().map(|t| t.len()).unwrap_or(0) * 64;
        let ph = b.segments().map(|t| t.len()).unwrap_or(0) * 56;
        let allowed = 64 + 2 * 64 + sh + ph;
        if fault == Fault::None && BYTES_READ.load(Ordering::Relaxed) > allowed {
            fail!("C08 open_stream on {name} read {} bytes, more than header + tables ({allowed})", BYTES_READ.load(Ordering::Relaxed));
        }
    }
    if MAX_ALLOC.load(Ordering::Relaxed) > 4 * file.len() + 8192 {
        fail!("C08 open_stream on {name}: single allocation of {} bytes for a {}-byte stream", MAX_ALLOC.load(Ordering::Relaxed), file.len());
    }
    let (mut s, b) = match (opened, bytes) {
        (Ok(s), Ok(b)) => (s, b),
        (Err(_), Err(_)) => return Ok(()),
        (Err(e), Ok(_)) => {
            if hard {
                return Ok(());
            }
            fail!("C07/C05 open_stream fails ({e}) on {name} where minimal_parse succeeds");
        }
        (Ok(_), Err(e)) => fail!("C07/C05 open_stream succeeds on {name} where minimal_parse fails ({e})"),
    };
    if s.ehdr != b.ehdr {
        if hard {
            fail!("C17 {name}: open_stream succeeded under an injected {fault:?} with a fabricated file header");
        }
        fail!("C07 {name}: file headers differ");
    }
    let bsh: Vec<SectionHeader> = b.section_headers().map(|t| t.iter().collect()).unwrap_or_default();
    if *s.section_headers() != bsh {
        fail!("C05/C07 {name}: section header tables differ ({} vs {} entries)", s.section_headers().len(), bsh.len());
    }
    let bph: Vec<ProgramHeader> = b.segments().map(|t| t.iter().collect()).unwrap_or_default();
    if *s.segments() != bph {
        fail!("C05/C07 {name}: program header tables differ ({} vs {} entries)", s.segments().len(), bph.len());
    }
    if hard {
        // a fault may have been injected into open (then we never get here with Ok) or is still pending: whatever the next queries
        // return must be an error or exactly the fault-free answer, never a fabricated "absent"/different answer
        let want = b.section_header_by_name(".text").ok().flatten();
        if let Ok(got) = s.section_header_by_name(".text") {
            if got.copied() != want {
                fail!("C17 {name}: under an injected {fault:?}@{at} section_header_by_name(.text) returned {} instead of an error or the fault-free answer", if got.is_some() { "a different section" } else { "None" });
            }
        }
        let want_sym = b.symbol_table().ok().flatten().map(|(t, _)| t.len());
        if let Ok(got) = s.symbol_table() {
            if got.map(|(t, _)| t.len()) != want_sym {
                fail!("C17 {name}: under an injected {fault:?}@{at} symbol_table() returned a different answer instead of an error");
            }
        }
        return Ok(());
    }
    let nonempty_or_absent = b.section_headers().map(|t| !t.is_empty()).unwrap_or(true);
    for sh in bsh.iter().filter(|h| h.sh_flags & 0x800 == 0) {
        let e = b.section_data(sh);
        let g = match catch_unwind(AssertUnwindSafe(|| s.section_data(sh).map(|(d, _)| d.to_vec()))) {
            Ok(g) => g,
            Err(_) => fail!("C08 {name}: section_data panicked"),
        };
        match (g, e) {
            (Ok(g), Ok((e, _))) => {
                if g.as_slice() != e {
                    fail!("C07 {name}: section_data differs for section at {:#x}", sh.sh_offset);
                }
            }
            (Err(_), Err(_)) => {}
            (Ok(_), Err(_)) => fail!("C07 {name}: stream section_data Ok, slice Err"),
            (Err(_), Ok(_)) => fail!("C07 {name}: stream section_data Err, slice Ok"),
        }
    }
    if nonempty_or_absent {
        // symbol tables: success coincides, same symbols and same names
        let bs = b.symbol_table();
        BYTES_READ.store(0, Ordering::Relaxed);
        let designated: usize = bsh.iter().find(|h| h.sh_type == 2).map(|h| {
            let l = bsh.get(h.sh_link as usize).map(|x| x.sh_size).unwrap_or(0);
            (h.sh_size.saturating_add(l)).min(usize::MAX as u64) as usize
        }).unwrap_or(0);
        let ss = s.symbol_table();
        if fault == Fault::None && !short && BYTES_READ.load(Ordering::Relaxed) > designated {
            fail!("C08 {name}: symbol_table() read {} bytes, more than the symbol table and its string table ({designated})", BYTES_READ.load(Ordering::Relaxed));
        }
        match (ss, bs) {
            (Ok(Some((st, sstr))), Ok(Some((bt, bstr)))) => {
                if st.len() != bt.len() {
                    fail!("C07 {name}: symbol_table lengths differ");
                }
                for i in 0..st.len().min(64) {
                    let (x, y) = (st.get(i), bt.get(i));
                    if x.as_ref().ok() != y.as_ref().ok() {
                        fail!("C07 {name}: symbol {i} differs");
                    }
                    if let (Ok(x), Ok(_)) = (x, y) {
                        if sstr.get_raw(x.st_name as usize).ok() != bstr.get_raw(x.st_name as usize).ok() {
                            fail!("C07 {name}: symbol {i} name differs");
                        }
                    }
                }
            }
            (Ok(None), Ok(None)) | (Err(_), Err(_)) => {}
            (Err(_), Ok(None)) | (Ok(None), Err(_)) => fail!("C07 {name}: symbol_table None vs Err"),
            (Ok(Some(_)), _) => fail!("C07 {name}: stream symbol_table Ok(Some), slice not"),
            (_, Ok(Some(_))) => fail!("C07 {name}: slice symbol_table Ok(Some), stream not"),
        }
        let bn = b.section_header_by_name(".text").ok().flatten();
        let sn = s.section_header_by_name(".text").ok().flatten().copied();
        if bn != sn {
            fail!("C07 {name}: section_header_by_name(.text) differs");
        }
        // the name of section 1 must be found by both (exercises the section-name string table incl. extended numbering)
        if let (Ok((Some(t), Some(strs))), true) = (b.section_headers_with_strtab(), bsh.len() > 1) {
            if let Some(nm) = t.get(1).ok().and_then(|h| strs.get(h.sh_name as usize).ok()) {
                let nm = nm.to_string();
                let bn = b.section_header_by_name(&nm).ok().flatten();
                let sn = s.section_header_by_name(&nm).ok().flatten().copied();
                if bn != sn {
                    fail!("C07/C05 {name}: section_header_by_name({nm:?}) differs (slice {:?}, stream {:?})", bn.is_some(), sn.is_some());
                }
            }
        }
        // symbol versions: same answers for the first symbols
        match (b.symbol_version_table(), s.symbol_version_table()) {
            (Ok(Some(bt)), Ok(Some(st))) => {
                for i in 0..8usize {
                    let br = bt.get_requirement(i).ok().flatten().map(|r| (r.file.to_string(), r.name.to_string(), r.hash, r.flags, r.hidden));
                    let sr = st.get_requirement(i).ok().flatten().map(|r| (r.file.to_string(), r.name.to_string(), r.hash, r.flags, r.hidden));
                    if br != sr {
                        fail!("C07 {name}: get_requirement({i}) differs between stream and slice");
                    }
                    let bd_: Option<(u32, u16, bool, Vec<Option<String>>)> = bt.get_definition(i).ok().flatten().map(|d| (d.hash, d.flags, d.hidden, d.names.map(|n| n.ok().map(|x| x.to_string())).collect()));
                    let sd_: Option<(u32, u16, bool, Vec<Option<String>>)> = st.get_definition(i).ok().flatten().map(|d| (d.hash, d.flags, d.hidden, d.names.map(|n| n.ok().map(|x| x.to_string())).collect()));
                    if bd_ != sd_ {
                        fail!("C07 {name}: get_definition({i}) differs between stream and slice ({:?} vs {:?})", sd_.map(|x| x.3), bd_.map(|x| x.3));
                    }
                }
            }
            (Ok(None), Ok(None)) | (Err(_), Err(_)) => {}
            (Ok(Some(_)), Err(_)) => fail!("C07 {name}: symbol_version_table: slice Ok, stream Err"),
            (Err(_), Ok(Some(_))) => fail!("C07 {name}: symbol_version_table: stream Ok, slice Err"),
            _ => fail!("C07 {name}: symbol_version_table Some/None/Err differs"),
        }
        let bd: Option<Vec<_>> = b.dynamic().ok().flatten().map(|t| t.iter().collect());
        let sd: Option<Vec<_>> = s.dynamic().ok().flatten().map(|t| t.iter().collect());
        if bd.is_some() && bd != sd {
            fail!("C07 {name}: dynamic table differs");
        }
        // both succeed => identical content, None included (which of the two tables is consulted is part of the answer)
        if let (Ok(x), Ok(y)) = (b.dynamic(), s.dynamic()) {
            if x.is_none() != y.is_none() {
                fail!("C07 {name}: dynamic(): slice answers {} but the stream answers {}", if x.is_none() { "None" } else { "Some" }, if y.is_none() { "None" } else { "Some" });
            }
        }
    }
    Ok(())
}

fn corruptions(file: &[u8]) -> Vec<(String, Vec<u8>)> {
    let mut out = vec![("original".to_string(), file.to_vec())];
    if file.len() < 64 || file[4] != 2 || file[5] != 1 {
        return out;
    }
    let put = |f: &mut Vec<u8>, pos: usize, v: u64, w: usize| f[pos..pos + w].copy_from_slice(&v.to_le_bytes()[..w]);
    for (what, pos, w, vals) in [
        ("e_shnum", 60usize, 2usize, vec![0u64, 1, 0xffff, 0xff00]),
        ("e_phnum", 56, 2, vec![0, 0xffff, 0xfffe]),
        ("e_shentsize", 58, 2, vec![0, 63, 65]),
        ("e_phentsize", 54, 2, vec![0, 55, 57]),
        ("e_shstrndx", 62, 2, vec![0, 0xffff, 0xfffe]),
        ("e_shoff", 40, 8, vec![0, 1, file.len() as u64 - 1, file.len() as u64, 1 << 63, u64::MAX]),
        ("e_phoff", 32, 8, vec![0, file.len() as u64, u64::MAX - 10]),
    ] {
        for v in vals {
            let mut f = file.to_vec();
            put(&mut f, pos, v, w);
            out.push((format!("{what}={v:#x}"), f));
        }
    }
    // shdr[0] fields used by the extended numbering rules
    let shoff = u64::from_le_bytes(file[40..48].try_into().unwrap()) as usize;
    if shoff + 64 <= file.len() {
        for (sz, info, link) in [(3u64, 2u32, 1u32), (u64::MAX, u32::MAX, u32::MAX), (1 << 40, 0, 0)] {
            let mut f = file.to_vec();
            put(&mut f, 60, 0, 2);
            put(&mut f, 56, 0xffff, 2);
            put(&mut f, 62, 0xffff, 2);
            put(&mut f, shoff + 32, sz, 8);
            put(&mut f, shoff + 44, info as u64, 4);
            put(&mut f, shoff + 40, link as u64, 4);
            out.push((format!("xnum shdr0 size={sz:#x} info={info:#x} link={link:#x}"), f));
        }
    }
    // .gnu.version_d / .gnu.version_r pointing at another string table (or nowhere)
    if shoff + 64 <= file.len() {
        let n = u16::from_le_bytes(file[60..62].try_into().unwrap()) as usize;
        let strndx = u16::from_le_bytes(file[62..64].try_into().unwrap()) as u64;
        for i in 0..n {
            let p = shoff + 64 * i;
            if p + 64 > file.len() {
                break;
            }
            let ty = u32::from_le_bytes(file[p + 4..p + 8].try_into().unwrap());
            if ty == 0x6ffffffd || ty == 0x6ffffffe {
                for l in [strndx, 0xfff0u64] {
                    let mut f = file.to_vec();
                    put(&mut f, p + 40, l, 4);
                    out.push((format!("section {i} (type {ty:#x}) sh_link={l:#x}"), f));
                }
            }
        }
        // extended numbering with the real counts kept: e_shnum=0 -> shdr[0].sh_size, e_shstrndx=0xffff -> shdr[0].sh_link
        let mut f = file.to_vec();
        put(&mut f, 60, 0, 2);
        put(&mut f, 62, 0xffff, 2);
        put(&mut f, shoff + 32, n as u64, 8);
        put(&mut f, shoff + 40, strndx, 4);
        out.push(("extended numbering (e_shnum=0, e_shstrndx=0xffff) with the real values in shdr[0]".to_string(), f));
        let mut f = file.to_vec();
        put(&mut f, 60, 0, 2);
        put(&mut f, shoff + 32, n as u64, 8);
        out.push(("e_shnum=0 with the real count in shdr[0].sh_size".to_string(), f));
    }
    {
        // PN_XNUM without a section table / with a zero-entry section table
        let mut f = file.to_vec();
        put(&mut f, 56, 0xffff, 2);
        put(&mut f, 40, 0, 8);
        out.push(("e_phnum=0xffff with e_shoff=0".to_string(), f));
        if shoff + 64 <= file.len() {
            let mut f = file.to_vec();
            put(&mut f, 56, 0xffff, 2);
            put(&mut f, 60, 0, 2);
            put(&mut f, shoff + 32, 0, 8);
            put(&mut f, shoff + 44, 1, 4);
            out.push(("e_phnum=0xffff, e_shnum=0 with shdr[0].sh_size=0, sh_info=1".to_string(), f));
        }
    }
    for cut in [file.len() / 2, file.len() - 1, 63, 64, 120] {
        if cut < file.len() {
            out.push((format!("truncated to {cut}"), file[..cut].to_vec()));
        }
    }
    out
}

/// Family C: a synthetic ELF64 object whose symbol table and its string table are far apart (padding in between): laziness of
/// symbol_table()/dynamic_symbol_table(), plus the generic stream == slice comparison.
fn synthetic_gap_file(gap: usize, symtype: u32) -> Vec<u8> {
    let mut f = vec![0u8; 64];
    let sym_off = f.len();
    f.extend((0..48u8).map(|i| i.wrapping_mul(3)));
    f.extend(std::iter::repeat(0x5a).take(gap));
    let str_off = f.len();
    f.extend_from_slice(b"\0abc\0de\0");
    let shoff = f.len();
    let mut sh = |name: u32, ty: u32, off: usize, size: usize, link: u32, entsize: u64| {
        let mut h = vec![0u8; 64];
        h[0..4].copy_from_slice(&name.to_le_bytes());
        h[4..8].copy_from_slice(&ty.to_le_bytes());
        h[24..32].copy_from_slice(&(off as u64).to_le_bytes());
        h[32..40].copy_from_slice(&(size as u64).to_le_bytes());
        h[40..44].copy_from_slice(&link.to_le_bytes());
        h[48..56].copy_from_slice(&1u64.to_le_bytes());
        h[56..64].copy_from_slice(&entsize.to_le_bytes());
        h
    };
    let hs = [sh(0, 0, 0, 0, 0, 0), sh(1, symtype, sym_off, 48, 2, 24), sh(5, 3, str_off, 8, 0, 0)];
    for h in hs.iter() {
        f.extend_from_slice(h);
    }
    f[0..4].copy_from_slice(b"\x7fELF");
    f[4] = 2;
    f[5] = 1;
    f[6] = 1;
    f[16] = 2;
    f[18] = 62;
    f[20] = 1;
    f[40..48].copy_from_slice(&(shoff as u64).to_le_bytes());
    f[52..54].copy_from_slice(&64u16.to_le_bytes());
    f[58..60].copy_from_slice(&64u16.to_le_bytes());
    f[60..62].copy_from_slice(&3u16.to_le_bytes());
    f[62..64].copy_from_slice(&2u16.to_le_bytes());
    f
}

/// Tables first: header | 3 section headers | symbol table | padding | string table; optionally with extended numbering
/// (e_shnum = 0, e_shstrndx = 0xffff, real values in section header 0). Whatever open reads beyond header + table shows up in
/// the byte accounting because the bulk of the file lies BEHIND the section header table.
fn synthetic_tables_first(pad: usize, xnum: bool) -> Vec<u8> {
    let late = synthetic_gap_file(pad, 2);
    let old_shoff = u64::from_le_bytes(late[40..48].try_into().unwrap()) as usize;
    let mut f = late[..64].to_vec();
    f.extend_from_slice(&late[old_shoff..old_shoff + 192]);
    f.extend_from_slice(&late[64..old_shoff]);
    f[40..48].copy_from_slice(&64u64.to_le_bytes());
    for i in 1..3 {
        let p = 64 + 64 * i + 24;
        let o = u64::from_le_bytes(f[p..p + 8].try_into().unwrap()) + 192;
        f[p..p + 8].copy_from_slice(&o.to_le_bytes());
    }
    if xnum {
        f[60..62].copy_from_slice(&0u16.to_le_bytes());
        f[62..64].copy_from_slice(&0xffffu16.to_le_bytes());
        f[64 + 32..64 + 40].copy_from_slice(&3u64.to_le_bytes());
        f[64 + 40..64 + 44].copy_from_slice(&2u32.to_le_bytes());
    }
    f
}

fn run_family_c() -> usize {
    let mut n = 0;
    for pad in [0usize, 100, 1 << 16] {
        for xnum in [false, true] {
            let f = synthetic_tables_first(pad, xnum);
            note(compare_file(&format!("synthetic object with the section header table first, {pad} bytes of padding behind it, extended numbering={xnum}"), &f, usize::MAX, Fault::None, false));
            n += 1;
        }
    }
    // overlapping symbol table / string table ranges whose sizes add up to more than the stream (each range is in bounds):
    // accessors that load several ranges before borrowing them must still find every one of them in the cache
    for symtype in [2u32, 11] {
        for (sym, strs) in [((0usize, 240usize), (100usize, 200usize)), ((64, 240), (0, 304)), ((0, 312), (0, 312))] {
            let mut f = synthetic_gap_file(0, symtype);
            let shoff = u64::from_le_bytes(f[40..48].try_into().unwrap()) as usize;
            for (k, (o, sz)) in [(1usize, sym), (2usize, strs)] {
                f[shoff + 64 * k + 24..shoff + 64 * k + 32].copy_from_slice(&(o as u64).to_le_bytes());
                f[shoff + 64 * k + 32..shoff + 64 * k + 40].copy_from_slice(&(sz as u64).to_le_bytes());
            }
            let label = format!("synthetic object with overlapping symbol table {sym:?} and string table {strs:?} (offset, size) in a {}-byte stream (type {symtype})", f.len());
            match catch_unwind(AssertUnwindSafe(|| compare_file(&label, &f, usize::MAX, Fault::None, false))) {
                Ok(r) => note(r),
                Err(_) => note::<()>(Err(Failure(format!("C08 {label}: a stream query panicked")))),
            }
            n += 1;
        }
    }
    // a PT_DYNAMIC segment next to a non-empty section header table that has no SHT_DYNAMIC section (and one that has):
    // which table dynamic() consults must be the same decision on both sides
    for with_dyn_section in [false, true] {
        let mut f = synthetic_gap_file(0, 2);
        let phoff = f.len();
        let mut ph = vec![0u8; 56];
        ph[0..4].copy_from_slice(&2u32.to_le_bytes());
        ph[8..16].copy_from_slice(&64u64.to_le_bytes());
        ph[32..40].copy_from_slice(&32u64.to_le_bytes());
        f.extend_from_slice(&ph);
        f[32..40].copy_from_slice(&(phoff as u64).to_le_bytes());
        f[54..56].copy_from_slice(&56u16.to_le_bytes());
        f[56..58].copy_from_slice(&1u16.to_le_bytes());
        if with_dyn_section {
            // retype the symbol table section as SHT_DYNAMIC over its first 16 bytes (entsize 16)
            let shoff = u64::from_le_bytes(f[40..48].try_into().unwrap()) as usize;
            f[shoff + 64 + 4..shoff + 64 + 8].copy_from_slice(&6u32.to_le_bytes());
            f[shoff + 64 + 32..shoff + 64 + 40].copy_from_slice(&16u64.to_le_bytes());
            f[shoff + 64 + 56..shoff + 64 + 64].copy_from_slice(&16u64.to_le_bytes());
        }
        let label = format!("synthetic object with a PT_DYNAMIC segment and a section header table {} SHT_DYNAMIC section", if with_dyn_section { "with a" } else { "without any" });
        note(compare_file(&label, &f, usize::MAX, Fault::None, false));
        n += 1;
    }
    for gap in [0usize, 1, 100, 4096] {
        for symtype in [2u32, 11] {
            let f = synthetic_gap_file(gap, symtype);
            let label = format!("synthetic object, {gap} bytes of padding between the symbol table and its string table (type {symtype})");
            note(compare_file(&label, &f, usize::MAX, Fault::None, false));
            // laziness of the dynamic symbol table query too
            if symtype == 11 {
                if let Ok(mut s) = ElfStream::<AnyEndian, _>::open_stream(ScriptReader::new(&f, usize::MAX, Fault::None, false)) {
                    BYTES_READ.store(0, Ordering::Relaxed);
                    let _ = s.dynamic_symbol_table();
                    if BYTES_READ.load(Ordering::Relaxed) > 56 {
                        note::<()>(Err(Failure(format!("C08 {label}: dynamic_symbol_table() read {} bytes, more than the symbol table and its string table (56)", BYTES_READ.load(Ordering::Relaxed)))));
                    }
                }
            }
            n += 1;
        }
    }
    n
}

fn run_family_b() -> Result<usize, Failure> {
    let dir = "/repo/sample-objects";
    let mut n = 0;
    let mut names: Vec<_> = std::fs::read_dir(dir).map(|d| d.filter_map(|e| e.ok()).map(|e| e.path()).collect()).unwrap_or_default();
    names.sort();
    for p in names {
        let file = match std::fs::read(&p) {
            Ok(f) if f.len() >= 16 => f,
            _ => continue,
        };
        for (what, f) in corruptions(&file) {
            let label = format!("{} [{}]", p.display(), what);
            note(compare_file(&label, &f, usize::MAX, Fault::None, false));
            n += 1;
            if f.len() <= 8192 {
                note(compare_file(&label, &f, usize::MAX, Fault::None, true).map_err(|x| Failure(format!("{} (short reads)", x.0))));
                for at in 0..12 {
                    for fault in [Fault::Error, Fault::Eof, Fault::Interrupted] {
                        note(compare_file(&label, &f, at, fault, false).map_err(|x| Failure(format!("{} ({fault:?}@{at})", x.0))));
                        n += 1;
                    }
                }
            }
        }
    }
    Ok(n)
}

fn main() {
    let args: Vec<String> = std::env::args().collect();
    let mut hints: Vec<(String, u64)> = Vec::new();
    let mut i = 1;
    while i < args.len() {
        if args[i] == "--hint" && i + 1 < args.len() {
            if let Some((k, v)) = args[i + 1].split_once('=') {
                if let Ok(v) = v.parse::<u64>() {
                    hints.push((k.to_string(), v));
                }
            }
            i += 1;
        }
        i += 1;
    }
    std::panic::set_hook(Box::new(|_| {}));
    // an allocation far beyond any stream used here is refused (the allocator returns null => the process aborts):
    // guard so that a missing length check shows up as a reported failure instead of exhausting memory
    ALLOC_LIMIT.store(1 << 36, Ordering::Relaxed);
    let a = run_family_a(&hints);
    match a {
        Err(f) => {
            println!("FAIL {}", f.0);
            std::process::exit(1);
        }
        Ok(n) => println!("family A (header-only files, range queries, fault schedules): {n} scenarios run"),
    }
    match run_family_b() {
        Err(f) => {
            println!("FAIL {}", f.0);
            std::process::exit(1);
        }
        Ok(n) => println!("family B (sample objects and corruptions, accessors, fault schedules): {n} scenarios run"),
    }
    println!("family C (synthetic objects with padding between tables): {} scenarios run", run_family_c());
    let fails = unsafe { &*std::ptr::addr_of!(FAILS) };
    for f in fails {
        println!("FAIL {f}");
    }
    if !fails.is_empty() {
        std::process::exit(1);
    }
}
