//! *_to_str: None outside the set of exported constant values of the argument type (symbolic x);
//! for every constant value, None or the identifier of an exported constant with that value and type.
#[cfg(kani)]
pub mod tostr {
    fn eq(a: &str, b: &str) -> bool {
        let (a, b) = (a.as_bytes(), b.as_bytes());
        if a.len() != b.len() { return false; }
        let mut i = 0;
        while i < a.len() { if a[i] != b[i] { return false; } i += 1; }
        true
    }
    #[kani::proof]
    pub fn e_osabi_to_str_none_outside_constants() {
        let x: u8 = kani::any();
        kani::assume(x != 0 && x != 1 && x != 2 && x != 3 && x != 4 && x != 5 && x != 6 && x != 7 && x != 8 && x != 9 && x != 10 && x != 11);
        kani::assume(x != 12 && x != 13 && x != 14 && x != 15 && x != 16 && x != 17 && x != 18 && x != 69 && x != 70 && x != 76 && x != 127 && x != 128);
        kani::assume(x != 224);
        assert!(elf::to_str::e_osabi_to_str(x).is_none());
    }
    #[kani::proof]
    #[kani::unwind(26)]
    pub fn e_osabi_to_str_names_00() {
        if let Some(s) = elf::to_str::e_osabi_to_str(0) { assert!(eq(s, "ELFCLASSNONE") || eq(s, "ELFDATANONE") || eq(s, "ELFOSABI_NONE") || eq(s, "ELFOSABI_SYSV") || eq(s, "EV_NONE") || eq(s, "STT_NOTYPE") || eq(s, "STB_LOCAL") || eq(s, "STV_DEFAULT"), "e_osabi_to_str(0)"); }
        if let Some(s) = elf::to_str::e_osabi_to_str(1) { assert!(eq(s, "ELFCLASS32") || eq(s, "ELFDATA2LSB") || eq(s, "ELFOSABI_HPUX") || eq(s, "EV_CURRENT") || eq(s, "STT_OBJECT") || eq(s, "STB_GLOBAL") || eq(s, "STV_INTERNAL"), "e_osabi_to_str(1)"); }
        if let Some(s) = elf::to_str::e_osabi_to_str(2) { assert!(eq(s, "ELFCLASS64") || eq(s, "ELFDATA2MSB") || eq(s, "ELFOSABI_NETBSD") || eq(s, "STT_FUNC") || eq(s, "STB_WEAK") || eq(s, "STV_HIDDEN"), "e_osabi_to_str(2)"); }
        if let Some(s) = elf::to_str::e_osabi_to_str(3) { assert!(eq(s, "ELFOSABI_GNU") || eq(s, "ELFOSABI_LINUX") || eq(s, "STT_SECTION") || eq(s, "STV_PROTECTED"), "e_osabi_to_str(3)"); }
        if let Some(s) = elf::to_str::e_osabi_to_str(4) { assert!(eq(s, "STT_FILE"), "e_osabi_to_str(4)"); }
        if let Some(s) = elf::to_str::e_osabi_to_str(5) { assert!(eq(s, "STT_COMMON") || eq(s, "STO_PPC64_LOCAL_BIT"), "e_osabi_to_str(5)"); }
        if let Some(s) = elf::to_str::e_osabi_to_str(6) { assert!(eq(s, "ELFOSABI_SOLARIS") || eq(s, "STT_TLS"), "e_osabi_to_str(6)"); }
        if let Some(s) = elf::to_str::e_osabi_to_str(7) { assert!(eq(s, "ELFOSABI_AIX"), "e_osabi_to_str(7)"); }
        if let Some(s) = elf::to_str::e_osabi_to_str(8) { assert!(eq(s, "ELFOSABI_IRIX"), "e_osabi_to_str(8)"); }
        if let Some(s) = elf::to_str::e_osabi_to_str(9) { assert!(eq(s, "ELFOSABI_FREEBSD"), "e_osabi_to_str(9)"); }
        if let Some(s) = elf::to_str::e_osabi_to_str(10) { assert!(eq(s, "ELFOSABI_TRU64") || eq(s, "STT_GNU_IFUNC") || eq(s, "STT_LOOS") || eq(s, "STB_GNU_UNIQUE") || eq(s, "STB_LOOS"), "e_osabi_to_str(10)"); }
        if let Some(s) = elf::to_str::e_osabi_to_str(11) { assert!(eq(s, "ELFOSABI_MODESTO"), "e_osabi_to_str(11)"); }
        if let Some(s) = elf::to_str::e_osabi_to_str(12) { assert!(eq(s, "ELFOSABI_OPENBSD") || eq(s, "STT_HIOS") || eq(s, "STB_HIOS"), "e_osabi_to_str(12)"); }
        if let Some(s) = elf::to_str::e_osabi_to_str(13) { assert!(eq(s, "ELFOSABI_OPENVMS") || eq(s, "STT_LOPROC") || eq(s, "STB_LOPROC"), "e_osabi_to_str(13)"); }
        if let Some(s) = elf::to_str::e_osabi_to_str(14) { assert!(eq(s, "ELFOSABI_NSK"), "e_osabi_to_str(14)"); }
        if let Some(s) = elf::to_str::e_osabi_to_str(15) { assert!(eq(s, "ELFOSABI_AROS") || eq(s, "STT_HIPROC") || eq(s, "STB_HIPROC"), "e_osabi_to_str(15)"); }
        if let Some(s) = elf::to_str::e_osabi_to_str(16) { assert!(eq(s, "ELFOSABI_FENIXOS"), "e_osabi_to_str(16)"); }
        if let Some(s) = elf::to_str::e_osabi_to_str(17) { assert!(eq(s, "ELFOSABI_CLOUDABI"), "e_osabi_to_str(17)"); }
        if let Some(s) = elf::to_str::e_osabi_to_str(18) { assert!(eq(s, "ELFOSABI_OPENVOS"), "e_osabi_to_str(18)"); }
        if let Some(s) = elf::to_str::e_osabi_to_str(69) { assert!(eq(s, "ELFMAG1"), "e_osabi_to_str(69)"); }
        if let Some(s) = elf::to_str::e_osabi_to_str(70) { assert!(eq(s, "ELFMAG3"), "e_osabi_to_str(70)"); }
        if let Some(s) = elf::to_str::e_osabi_to_str(76) { assert!(eq(s, "ELFMAG2"), "e_osabi_to_str(76)"); }
        if let Some(s) = elf::to_str::e_osabi_to_str(127) { assert!(eq(s, "ELFMAG0"), "e_osabi_to_str(127)"); }
        if let Some(s) = elf::to_str::e_osabi_to_str(128) { assert!(eq(s, "STO_AARCH64_VARIANT_PCS") || eq(s, "STO_RISCV_VARIANT_CC"), "e_osabi_to_str(128)"); }
        if let Some(s) = elf::to_str::e_osabi_to_str(224) { assert!(eq(s, "STO_PPC64_LOCAL_MASK"), "e_osabi_to_str(224)"); }
    }
    #[kani::proof]
    pub fn e_type_to_str_none_outside_constants() {
        let x: u16 = kani::any();
        kani::assume(x != 0 && x != 1 && x != 2 && x != 3 && x != 4 && x != 5 && x != 6 && x != 7 && x != 8 && x != 9 && x != 10 && x != 15);
        kani::assume(x != 17 && x != 18 && x != 19 && x != 20 && x != 21 && x != 22 && x != 23 && x != 36 && x != 37 && x != 38 && x != 39 && x != 40);
        kani::assume(x != 41 && x != 42 && x != 43 && x != 44 && x != 45 && x != 46 && x != 47 && x != 48 && x != 49 && x != 50 && x != 51 && x != 52);
        kani::assume(x != 53 && x != 54 && x != 55 && x != 56 && x != 57 && x != 58 && x != 59 && x != 60 && x != 61 && x != 62 && x != 63 && x != 64);
        kani::assume(x != 65 && x != 66 && x != 67 && x != 68 && x != 69 && x != 70 && x != 71 && x != 72 && x != 73 && x != 74 && x != 75 && x != 76);
        kani::assume(x != 77 && x != 78 && x != 79 && x != 80 && x != 81 && x != 82 && x != 83 && x != 84 && x != 85 && x != 86 && x != 87 && x != 88);
        kani::assume(x != 89 && x != 90 && x != 91 && x != 92 && x != 93 && x != 94 && x != 95 && x != 96 && x != 97 && x != 98 && x != 99 && x != 100);
        kani::assume(x != 101 && x != 102 && x != 103 && x != 104 && x != 105 && x != 106 && x != 107 && x != 108 && x != 109 && x != 110 && x != 111 && x != 112);
        kani::assume(x != 113 && x != 114 && x != 115 && x != 116 && x != 117 && x != 118 && x != 119 && x != 120 && x != 131 && x != 132 && x != 133 && x != 134);
        kani::assume(x != 135 && x != 136 && x != 137 && x != 138 && x != 139 && x != 140 && x != 141 && x != 142 && x != 143 && x != 144 && x != 160 && x != 161);
        kani::assume(x != 162 && x != 163 && x != 164 && x != 165 && x != 166 && x != 167 && x != 168 && x != 169 && x != 170 && x != 171 && x != 172 && x != 173);
        kani::assume(x != 174 && x != 175 && x != 176 && x != 177 && x != 178 && x != 179 && x != 180 && x != 181 && x != 183 && x != 185 && x != 186 && x != 187);
        kani::assume(x != 188 && x != 189 && x != 190 && x != 191 && x != 192 && x != 193 && x != 194 && x != 195 && x != 196 && x != 197 && x != 198 && x != 199);
        kani::assume(x != 200 && x != 201 && x != 202 && x != 203 && x != 204 && x != 205 && x != 206 && x != 207 && x != 208 && x != 209 && x != 210 && x != 211);
        kani::assume(x != 212 && x != 213 && x != 214 && x != 215 && x != 216 && x != 217 && x != 218 && x != 219 && x != 220 && x != 221 && x != 222 && x != 223);
        kani::assume(x != 224 && x != 243 && x != 244 && x != 247 && x != 251 && x != 252 && x != 258 && x != 21569 && x != 32767 && x != 32768 && x != 65024 && x != 65279);
        kani::assume(x != 65280 && x != 65521 && x != 65522 && x != 65535);
        assert!(elf::to_str::e_type_to_str(x).is_none());
    }
    #[kani::proof]
    #[kani::unwind(19)]
    pub fn e_type_to_str_names_00() {
        if let Some(s) = elf::to_str::e_type_to_str(0) { assert!(eq(s, "ET_NONE") || eq(s, "EM_NONE") || eq(s, "SHN_UNDEF") || eq(s, "VER_NDX_LOCAL"), "e_type_to_str(0)"); }
        if let Some(s) = elf::to_str::e_type_to_str(1) { assert!(eq(s, "ET_REL") || eq(s, "EM_M32") || eq(s, "VER_NDX_GLOBAL") || eq(s, "VER_DEF_CURRENT") || eq(s, "VER_NEED_CURRENT") || eq(s, "VER_FLG_BASE"), "e_type_to_str(1)"); }
        if let Some(s) = elf::to_str::e_type_to_str(2) { assert!(eq(s, "ET_EXEC") || eq(s, "EM_SPARC") || eq(s, "VER_FLG_WEAK"), "e_type_to_str(2)"); }
        if let Some(s) = elf::to_str::e_type_to_str(3) { assert!(eq(s, "ET_DYN") || eq(s, "EM_386"), "e_type_to_str(3)"); }
        if let Some(s) = elf::to_str::e_type_to_str(4) { assert!(eq(s, "ET_CORE") || eq(s, "EM_68K") || eq(s, "VER_FLG_INFO"), "e_type_to_str(4)"); }
        if let Some(s) = elf::to_str::e_type_to_str(5) { assert!(eq(s, "EM_88K"), "e_type_to_str(5)"); }
        if let Some(s) = elf::to_str::e_type_to_str(6) { assert!(eq(s, "EM_IAMCU"), "e_type_to_str(6)"); }
        if let Some(s) = elf::to_str::e_type_to_str(7) { assert!(eq(s, "EM_860"), "e_type_to_str(7)"); }
        if let Some(s) = elf::to_str::e_type_to_str(8) { assert!(eq(s, "EM_MIPS"), "e_type_to_str(8)"); }
        if let Some(s) = elf::to_str::e_type_to_str(9) { assert!(eq(s, "EM_S370"), "e_type_to_str(9)"); }
        if let Some(s) = elf::to_str::e_type_to_str(10) { assert!(eq(s, "EM_MIPS_RS3_LE"), "e_type_to_str(10)"); }
        if let Some(s) = elf::to_str::e_type_to_str(15) { assert!(eq(s, "EM_PARISC"), "e_type_to_str(15)"); }
        if let Some(s) = elf::to_str::e_type_to_str(17) { assert!(eq(s, "EM_VPP500"), "e_type_to_str(17)"); }
        if let Some(s) = elf::to_str::e_type_to_str(18) { assert!(eq(s, "EM_SPARC32PLUS"), "e_type_to_str(18)"); }
        if let Some(s) = elf::to_str::e_type_to_str(19) { assert!(eq(s, "EM_960"), "e_type_to_str(19)"); }
        if let Some(s) = elf::to_str::e_type_to_str(20) { assert!(eq(s, "EM_PPC"), "e_type_to_str(20)"); }
        if let Some(s) = elf::to_str::e_type_to_str(21) { assert!(eq(s, "EM_PPC64"), "e_type_to_str(21)"); }
        if let Some(s) = elf::to_str::e_type_to_str(22) { assert!(eq(s, "EM_S390"), "e_type_to_str(22)"); }
        if let Some(s) = elf::to_str::e_type_to_str(23) { assert!(eq(s, "EM_SPU"), "e_type_to_str(23)"); }
        if let Some(s) = elf::to_str::e_type_to_str(36) { assert!(eq(s, "EM_V800"), "e_type_to_str(36)"); }
        if let Some(s) = elf::to_str::e_type_to_str(37) { assert!(eq(s, "EM_FR20"), "e_type_to_str(37)"); }
        if let Some(s) = elf::to_str::e_type_to_str(38) { assert!(eq(s, "EM_RH32"), "e_type_to_str(38)"); }
        if let Some(s) = elf::to_str::e_type_to_str(39) { assert!(eq(s, "EM_RCE"), "e_type_to_str(39)"); }
        if let Some(s) = elf::to_str::e_type_to_str(40) { assert!(eq(s, "EM_ARM"), "e_type_to_str(40)"); }
        if let Some(s) = elf::to_str::e_type_to_str(41) { assert!(eq(s, "EM_ALPHA"), "e_type_to_str(41)"); }
        if let Some(s) = elf::to_str::e_type_to_str(42) { assert!(eq(s, "EM_SH"), "e_type_to_str(42)"); }
        if let Some(s) = elf::to_str::e_type_to_str(43) { assert!(eq(s, "EM_SPARCV9"), "e_type_to_str(43)"); }
        if let Some(s) = elf::to_str::e_type_to_str(44) { assert!(eq(s, "EM_TRICORE"), "e_type_to_str(44)"); }
        if let Some(s) = elf::to_str::e_type_to_str(45) { assert!(eq(s, "EM_ARC"), "e_type_to_str(45)"); }
        if let Some(s) = elf::to_str::e_type_to_str(46) { assert!(eq(s, "EM_H8_300"), "e_type_to_str(46)"); }
        if let Some(s) = elf::to_str::e_type_to_str(47) { assert!(eq(s, "EM_H8_300H"), "e_type_to_str(47)"); }
        if let Some(s) = elf::to_str::e_type_to_str(48) { assert!(eq(s, "EM_H8S"), "e_type_to_str(48)"); }
        if let Some(s) = elf::to_str::e_type_to_str(49) { assert!(eq(s, "EM_H8_500"), "e_type_to_str(49)"); }
        if let Some(s) = elf::to_str::e_type_to_str(50) { assert!(eq(s, "EM_IA_64"), "e_type_to_str(50)"); }
        if let Some(s) = elf::to_str::e_type_to_str(51) { assert!(eq(s, "EM_MIPS_X"), "e_type_to_str(51)"); }
        if let Some(s) = elf::to_str::e_type_to_str(52) { assert!(eq(s, "EM_COLDFIRE"), "e_type_to_str(52)"); }
        if let Some(s) = elf::to_str::e_type_to_str(53) { assert!(eq(s, "EM_68HC12"), "e_type_to_str(53)"); }
        if let Some(s) = elf::to_str::e_type_to_str(54) { assert!(eq(s, "EM_MMA"), "e_type_to_str(54)"); }
        if let Some(s) = elf::to_str::e_type_to_str(55) { assert!(eq(s, "EM_PCP"), "e_type_to_str(55)"); }
        if let Some(s) = elf::to_str::e_type_to_str(56) { assert!(eq(s, "EM_NCPU"), "e_type_to_str(56)"); }
        if let Some(s) = elf::to_str::e_type_to_str(57) { assert!(eq(s, "EM_NDR1"), "e_type_to_str(57)"); }
        if let Some(s) = elf::to_str::e_type_to_str(58) { assert!(eq(s, "EM_STARCORE"), "e_type_to_str(58)"); }
        if let Some(s) = elf::to_str::e_type_to_str(59) { assert!(eq(s, "EM_ME16"), "e_type_to_str(59)"); }
        if let Some(s) = elf::to_str::e_type_to_str(60) { assert!(eq(s, "EM_ST100"), "e_type_to_str(60)"); }
        if let Some(s) = elf::to_str::e_type_to_str(61) { assert!(eq(s, "EM_TINYJ"), "e_type_to_str(61)"); }
        if let Some(s) = elf::to_str::e_type_to_str(62) { assert!(eq(s, "EM_X86_64"), "e_type_to_str(62)"); }
        if let Some(s) = elf::to_str::e_type_to_str(63) { assert!(eq(s, "EM_PDSP"), "e_type_to_str(63)"); }
        if let Some(s) = elf::to_str::e_type_to_str(64) { assert!(eq(s, "EM_PDP10"), "e_type_to_str(64)"); }
        if let Some(s) = elf::to_str::e_type_to_str(65) { assert!(eq(s, "EM_PDP11"), "e_type_to_str(65)"); }
        if let Some(s) = elf::to_str::e_type_to_str(66) { assert!(eq(s, "EM_FX66"), "e_type_to_str(66)"); }
        if let Some(s) = elf::to_str::e_type_to_str(67) { assert!(eq(s, "EM_ST9PLUS"), "e_type_to_str(67)"); }
        if let Some(s) = elf::to_str::e_type_to_str(68) { assert!(eq(s, "EM_ST7"), "e_type_to_str(68)"); }
        if let Some(s) = elf::to_str::e_type_to_str(69) { assert!(eq(s, "EM_68HC16"), "e_type_to_str(69)"); }
        if let Some(s) = elf::to_str::e_type_to_str(70) { assert!(eq(s, "EM_68HC11"), "e_type_to_str(70)"); }
        if let Some(s) = elf::to_str::e_type_to_str(71) { assert!(eq(s, "EM_68HC08"), "e_type_to_str(71)"); }
        if let Some(s) = elf::to_str::e_type_to_str(72) { assert!(eq(s, "EM_68HC05"), "e_type_to_str(72)"); }
        if let Some(s) = elf::to_str::e_type_to_str(73) { assert!(eq(s, "EM_SVX"), "e_type_to_str(73)"); }
        if let Some(s) = elf::to_str::e_type_to_str(74) { assert!(eq(s, "EM_ST19"), "e_type_to_str(74)"); }
        if let Some(s) = elf::to_str::e_type_to_str(75) { assert!(eq(s, "EM_VAX"), "e_type_to_str(75)"); }
        if let Some(s) = elf::to_str::e_type_to_str(76) { assert!(eq(s, "EM_CRIS"), "e_type_to_str(76)"); }
    }
    #[kani::proof]
    #[kani::unwind(19)]
    pub fn e_type_to_str_names_01() {
        if let Some(s) = elf::to_str::e_type_to_str(77) { assert!(eq(s, "EM_JAVELIN"), "e_type_to_str(77)"); }
        if let Some(s) = elf::to_str::e_type_to_str(78) { assert!(eq(s, "EM_FIREPATH"), "e_type_to_str(78)"); }
        if let Some(s) = elf::to_str::e_type_to_str(79) { assert!(eq(s, "EM_ZSP"), "e_type_to_str(79)"); }
        if let Some(s) = elf::to_str::e_type_to_str(80) { assert!(eq(s, "EM_MMIX"), "e_type_to_str(80)"); }
        if let Some(s) = elf::to_str::e_type_to_str(81) { assert!(eq(s, "EM_HUANY"), "e_type_to_str(81)"); }
        if let Some(s) = elf::to_str::e_type_to_str(82) { assert!(eq(s, "EM_PRISM"), "e_type_to_str(82)"); }
        if let Some(s) = elf::to_str::e_type_to_str(83) { assert!(eq(s, "EM_AVR"), "e_type_to_str(83)"); }
        if let Some(s) = elf::to_str::e_type_to_str(84) { assert!(eq(s, "EM_FR30"), "e_type_to_str(84)"); }
        if let Some(s) = elf::to_str::e_type_to_str(85) { assert!(eq(s, "EM_D10V"), "e_type_to_str(85)"); }
        if let Some(s) = elf::to_str::e_type_to_str(86) { assert!(eq(s, "EM_D30V"), "e_type_to_str(86)"); }
        if let Some(s) = elf::to_str::e_type_to_str(87) { assert!(eq(s, "EM_V850"), "e_type_to_str(87)"); }
        if let Some(s) = elf::to_str::e_type_to_str(88) { assert!(eq(s, "EM_M32R"), "e_type_to_str(88)"); }
        if let Some(s) = elf::to_str::e_type_to_str(89) { assert!(eq(s, "EM_MN10300"), "e_type_to_str(89)"); }
        if let Some(s) = elf::to_str::e_type_to_str(90) { assert!(eq(s, "EM_MN10200"), "e_type_to_str(90)"); }
        if let Some(s) = elf::to_str::e_type_to_str(91) { assert!(eq(s, "EM_PJ"), "e_type_to_str(91)"); }
        if let Some(s) = elf::to_str::e_type_to_str(92) { assert!(eq(s, "EM_OPENRISC"), "e_type_to_str(92)"); }
        if let Some(s) = elf::to_str::e_type_to_str(93) { assert!(eq(s, "EM_ARC_COMPACT"), "e_type_to_str(93)"); }
        if let Some(s) = elf::to_str::e_type_to_str(94) { assert!(eq(s, "EM_XTENSA"), "e_type_to_str(94)"); }
        if let Some(s) = elf::to_str::e_type_to_str(95) { assert!(eq(s, "EM_VIDEOCORE"), "e_type_to_str(95)"); }
        if let Some(s) = elf::to_str::e_type_to_str(96) { assert!(eq(s, "EM_TMM_GPP"), "e_type_to_str(96)"); }
        if let Some(s) = elf::to_str::e_type_to_str(97) { assert!(eq(s, "EM_NS32K"), "e_type_to_str(97)"); }
        if let Some(s) = elf::to_str::e_type_to_str(98) { assert!(eq(s, "EM_TPC"), "e_type_to_str(98)"); }
        if let Some(s) = elf::to_str::e_type_to_str(99) { assert!(eq(s, "EM_SNP1K"), "e_type_to_str(99)"); }
        if let Some(s) = elf::to_str::e_type_to_str(100) { assert!(eq(s, "EM_ST200"), "e_type_to_str(100)"); }
        if let Some(s) = elf::to_str::e_type_to_str(101) { assert!(eq(s, "EM_IP2K"), "e_type_to_str(101)"); }
        if let Some(s) = elf::to_str::e_type_to_str(102) { assert!(eq(s, "EM_MAX"), "e_type_to_str(102)"); }
        if let Some(s) = elf::to_str::e_type_to_str(103) { assert!(eq(s, "EM_CR"), "e_type_to_str(103)"); }
        if let Some(s) = elf::to_str::e_type_to_str(104) { assert!(eq(s, "EM_F2MC16"), "e_type_to_str(104)"); }
        if let Some(s) = elf::to_str::e_type_to_str(105) { assert!(eq(s, "EM_MSP430"), "e_type_to_str(105)"); }
        if let Some(s) = elf::to_str::e_type_to_str(106) { assert!(eq(s, "EM_BLACKFIN"), "e_type_to_str(106)"); }
        if let Some(s) = elf::to_str::e_type_to_str(107) { assert!(eq(s, "EM_SE_C33"), "e_type_to_str(107)"); }
        if let Some(s) = elf::to_str::e_type_to_str(108) { assert!(eq(s, "EM_SEP"), "e_type_to_str(108)"); }
        if let Some(s) = elf::to_str::e_type_to_str(109) { assert!(eq(s, "EM_ARCA"), "e_type_to_str(109)"); }
        if let Some(s) = elf::to_str::e_type_to_str(110) { assert!(eq(s, "EM_UNICORE"), "e_type_to_str(110)"); }
        if let Some(s) = elf::to_str::e_type_to_str(111) { assert!(eq(s, "EM_EXCESS"), "e_type_to_str(111)"); }
        if let Some(s) = elf::to_str::e_type_to_str(112) { assert!(eq(s, "EM_DXP"), "e_type_to_str(112)"); }
        if let Some(s) = elf::to_str::e_type_to_str(113) { assert!(eq(s, "EM_ALTERA_NIOS2"), "e_type_to_str(113)"); }
        if let Some(s) = elf::to_str::e_type_to_str(114) { assert!(eq(s, "EM_CRX"), "e_type_to_str(114)"); }
        if let Some(s) = elf::to_str::e_type_to_str(115) { assert!(eq(s, "EM_XGATE"), "e_type_to_str(115)"); }
        if let Some(s) = elf::to_str::e_type_to_str(116) { assert!(eq(s, "EM_C166"), "e_type_to_str(116)"); }
        if let Some(s) = elf::to_str::e_type_to_str(117) { assert!(eq(s, "EM_M16C"), "e_type_to_str(117)"); }
        if let Some(s) = elf::to_str::e_type_to_str(118) { assert!(eq(s, "EM_DSPIC30F"), "e_type_to_str(118)"); }
        if let Some(s) = elf::to_str::e_type_to_str(119) { assert!(eq(s, "EM_CE"), "e_type_to_str(119)"); }
        if let Some(s) = elf::to_str::e_type_to_str(120) { assert!(eq(s, "EM_M32C"), "e_type_to_str(120)"); }
        if let Some(s) = elf::to_str::e_type_to_str(131) { assert!(eq(s, "EM_TSK3000"), "e_type_to_str(131)"); }
        if let Some(s) = elf::to_str::e_type_to_str(132) { assert!(eq(s, "EM_RS08"), "e_type_to_str(132)"); }
        if let Some(s) = elf::to_str::e_type_to_str(133) { assert!(eq(s, "EM_SHARC"), "e_type_to_str(133)"); }
        if let Some(s) = elf::to_str::e_type_to_str(134) { assert!(eq(s, "EM_ECOG2"), "e_type_to_str(134)"); }
        if let Some(s) = elf::to_str::e_type_to_str(135) { assert!(eq(s, "EM_SCORE7"), "e_type_to_str(135)"); }
        if let Some(s) = elf::to_str::e_type_to_str(136) { assert!(eq(s, "EM_DSP24"), "e_type_to_str(136)"); }
        if let Some(s) = elf::to_str::e_type_to_str(137) { assert!(eq(s, "EM_VIDEOCORE3"), "e_type_to_str(137)"); }
        if let Some(s) = elf::to_str::e_type_to_str(138) { assert!(eq(s, "EM_LATTICEMICO32"), "e_type_to_str(138)"); }
        if let Some(s) = elf::to_str::e_type_to_str(139) { assert!(eq(s, "EM_SE_C17"), "e_type_to_str(139)"); }
        if let Some(s) = elf::to_str::e_type_to_str(140) { assert!(eq(s, "EM_TI_C6000"), "e_type_to_str(140)"); }
        if let Some(s) = elf::to_str::e_type_to_str(141) { assert!(eq(s, "EM_TI_C2000"), "e_type_to_str(141)"); }
        if let Some(s) = elf::to_str::e_type_to_str(142) { assert!(eq(s, "EM_TI_C5500"), "e_type_to_str(142)"); }
        if let Some(s) = elf::to_str::e_type_to_str(143) { assert!(eq(s, "EM_TI_ARP32"), "e_type_to_str(143)"); }
        if let Some(s) = elf::to_str::e_type_to_str(144) { assert!(eq(s, "EM_TI_PRU"), "e_type_to_str(144)"); }
        if let Some(s) = elf::to_str::e_type_to_str(160) { assert!(eq(s, "EM_MMDSP_PLUS"), "e_type_to_str(160)"); }
        if let Some(s) = elf::to_str::e_type_to_str(161) { assert!(eq(s, "EM_CYPRESS_M8C"), "e_type_to_str(161)"); }
    }
    #[kani::proof]
    #[kani::unwind(19)]
    pub fn e_type_to_str_names_02() {
        if let Some(s) = elf::to_str::e_type_to_str(162) { assert!(eq(s, "EM_R32C"), "e_type_to_str(162)"); }
        if let Some(s) = elf::to_str::e_type_to_str(163) { assert!(eq(s, "EM_TRIMEDIA"), "e_type_to_str(163)"); }
        if let Some(s) = elf::to_str::e_type_to_str(164) { assert!(eq(s, "EM_QDSP6"), "e_type_to_str(164)"); }
        if let Some(s) = elf::to_str::e_type_to_str(165) { assert!(eq(s, "EM_8051"), "e_type_to_str(165)"); }
        if let Some(s) = elf::to_str::e_type_to_str(166) { assert!(eq(s, "EM_STXP7X"), "e_type_to_str(166)"); }
        if let Some(s) = elf::to_str::e_type_to_str(167) { assert!(eq(s, "EM_NDS32"), "e_type_to_str(167)"); }
        if let Some(s) = elf::to_str::e_type_to_str(168) { assert!(eq(s, "EM_ECOG1") || eq(s, "EM_ECOG1X"), "e_type_to_str(168)"); }
        if let Some(s) = elf::to_str::e_type_to_str(169) { assert!(eq(s, "EM_MAXQ30"), "e_type_to_str(169)"); }
        if let Some(s) = elf::to_str::e_type_to_str(170) { assert!(eq(s, "EM_XIMO16"), "e_type_to_str(170)"); }
        if let Some(s) = elf::to_str::e_type_to_str(171) { assert!(eq(s, "EM_MANIK"), "e_type_to_str(171)"); }
        if let Some(s) = elf::to_str::e_type_to_str(172) { assert!(eq(s, "EM_CRAYNV2"), "e_type_to_str(172)"); }
        if let Some(s) = elf::to_str::e_type_to_str(173) { assert!(eq(s, "EM_RX"), "e_type_to_str(173)"); }
        if let Some(s) = elf::to_str::e_type_to_str(174) { assert!(eq(s, "EM_METAG"), "e_type_to_str(174)"); }
        if let Some(s) = elf::to_str::e_type_to_str(175) { assert!(eq(s, "EM_MCST_ELBRUS"), "e_type_to_str(175)"); }
        if let Some(s) = elf::to_str::e_type_to_str(176) { assert!(eq(s, "EM_ECOG16"), "e_type_to_str(176)"); }
        if let Some(s) = elf::to_str::e_type_to_str(177) { assert!(eq(s, "EM_CR16"), "e_type_to_str(177)"); }
        if let Some(s) = elf::to_str::e_type_to_str(178) { assert!(eq(s, "EM_ETPU"), "e_type_to_str(178)"); }
        if let Some(s) = elf::to_str::e_type_to_str(179) { assert!(eq(s, "EM_SLE9X"), "e_type_to_str(179)"); }
        if let Some(s) = elf::to_str::e_type_to_str(180) { assert!(eq(s, "EM_L10M"), "e_type_to_str(180)"); }
        if let Some(s) = elf::to_str::e_type_to_str(181) { assert!(eq(s, "EM_K10M"), "e_type_to_str(181)"); }
        if let Some(s) = elf::to_str::e_type_to_str(183) { assert!(eq(s, "EM_AARCH64"), "e_type_to_str(183)"); }
        if let Some(s) = elf::to_str::e_type_to_str(185) { assert!(eq(s, "EM_AVR32"), "e_type_to_str(185)"); }
        if let Some(s) = elf::to_str::e_type_to_str(186) { assert!(eq(s, "EM_STM8"), "e_type_to_str(186)"); }
        if let Some(s) = elf::to_str::e_type_to_str(187) { assert!(eq(s, "EM_TILE64"), "e_type_to_str(187)"); }
        if let Some(s) = elf::to_str::e_type_to_str(188) { assert!(eq(s, "EM_TILEPRO"), "e_type_to_str(188)"); }
        if let Some(s) = elf::to_str::e_type_to_str(189) { assert!(eq(s, "EM_MICROBLAZE"), "e_type_to_str(189)"); }
        if let Some(s) = elf::to_str::e_type_to_str(190) { assert!(eq(s, "EM_CUDA"), "e_type_to_str(190)"); }
        if let Some(s) = elf::to_str::e_type_to_str(191) { assert!(eq(s, "EM_TILEGX"), "e_type_to_str(191)"); }
        if let Some(s) = elf::to_str::e_type_to_str(192) { assert!(eq(s, "EM_CLOUDSHIELD"), "e_type_to_str(192)"); }
        if let Some(s) = elf::to_str::e_type_to_str(193) { assert!(eq(s, "EM_COREA_1ST"), "e_type_to_str(193)"); }
        if let Some(s) = elf::to_str::e_type_to_str(194) { assert!(eq(s, "EM_COREA_2ND"), "e_type_to_str(194)"); }
        if let Some(s) = elf::to_str::e_type_to_str(195) { assert!(eq(s, "EM_ARC_COMPACT2"), "e_type_to_str(195)"); }
        if let Some(s) = elf::to_str::e_type_to_str(196) { assert!(eq(s, "EM_OPEN8"), "e_type_to_str(196)"); }
        if let Some(s) = elf::to_str::e_type_to_str(197) { assert!(eq(s, "EM_RL78"), "e_type_to_str(197)"); }
        if let Some(s) = elf::to_str::e_type_to_str(198) { assert!(eq(s, "EM_VIDEOCORE5"), "e_type_to_str(198)"); }
        if let Some(s) = elf::to_str::e_type_to_str(199) { assert!(eq(s, "EM_78KOR"), "e_type_to_str(199)"); }
        if let Some(s) = elf::to_str::e_type_to_str(200) { assert!(eq(s, "EM_56800EX"), "e_type_to_str(200)"); }
        if let Some(s) = elf::to_str::e_type_to_str(201) { assert!(eq(s, "EM_BA1"), "e_type_to_str(201)"); }
        if let Some(s) = elf::to_str::e_type_to_str(202) { assert!(eq(s, "EM_BA2"), "e_type_to_str(202)"); }
        if let Some(s) = elf::to_str::e_type_to_str(203) { assert!(eq(s, "EM_XCORE"), "e_type_to_str(203)"); }
        if let Some(s) = elf::to_str::e_type_to_str(204) { assert!(eq(s, "EM_MCHP_PIC"), "e_type_to_str(204)"); }
        if let Some(s) = elf::to_str::e_type_to_str(205) { assert!(eq(s, "EM_INTEL205"), "e_type_to_str(205)"); }
        if let Some(s) = elf::to_str::e_type_to_str(206) { assert!(eq(s, "EM_INTEL206"), "e_type_to_str(206)"); }
        if let Some(s) = elf::to_str::e_type_to_str(207) { assert!(eq(s, "EM_INTEL207"), "e_type_to_str(207)"); }
        if let Some(s) = elf::to_str::e_type_to_str(208) { assert!(eq(s, "EM_INTEL208"), "e_type_to_str(208)"); }
        if let Some(s) = elf::to_str::e_type_to_str(209) { assert!(eq(s, "EM_INTEL209"), "e_type_to_str(209)"); }
        if let Some(s) = elf::to_str::e_type_to_str(210) { assert!(eq(s, "EM_KM32"), "e_type_to_str(210)"); }
        if let Some(s) = elf::to_str::e_type_to_str(211) { assert!(eq(s, "EM_KMX32"), "e_type_to_str(211)"); }
        if let Some(s) = elf::to_str::e_type_to_str(212) { assert!(eq(s, "EM_KMX16"), "e_type_to_str(212)"); }
        if let Some(s) = elf::to_str::e_type_to_str(213) { assert!(eq(s, "EM_KMX8"), "e_type_to_str(213)"); }
        if let Some(s) = elf::to_str::e_type_to_str(214) { assert!(eq(s, "EM_KVARC"), "e_type_to_str(214)"); }
        if let Some(s) = elf::to_str::e_type_to_str(215) { assert!(eq(s, "EM_CDP"), "e_type_to_str(215)"); }
        if let Some(s) = elf::to_str::e_type_to_str(216) { assert!(eq(s, "EM_COGE"), "e_type_to_str(216)"); }
        if let Some(s) = elf::to_str::e_type_to_str(217) { assert!(eq(s, "EM_COOL"), "e_type_to_str(217)"); }
        if let Some(s) = elf::to_str::e_type_to_str(218) { assert!(eq(s, "EM_NORC"), "e_type_to_str(218)"); }
        if let Some(s) = elf::to_str::e_type_to_str(219) { assert!(eq(s, "EM_CSR_KALIMBA"), "e_type_to_str(219)"); }
        if let Some(s) = elf::to_str::e_type_to_str(220) { assert!(eq(s, "EM_Z80"), "e_type_to_str(220)"); }
        if let Some(s) = elf::to_str::e_type_to_str(221) { assert!(eq(s, "EM_VISIUM"), "e_type_to_str(221)"); }
        if let Some(s) = elf::to_str::e_type_to_str(222) { assert!(eq(s, "EM_FT32"), "e_type_to_str(222)"); }
        if let Some(s) = elf::to_str::e_type_to_str(223) { assert!(eq(s, "EM_MOXIE"), "e_type_to_str(223)"); }
    }
    #[kani::proof]
    #[kani::unwind(19)]
    pub fn e_type_to_str_names_03() {
        if let Some(s) = elf::to_str::e_type_to_str(224) { assert!(eq(s, "EM_AMDGPU"), "e_type_to_str(224)"); }
        if let Some(s) = elf::to_str::e_type_to_str(243) { assert!(eq(s, "EM_RISCV"), "e_type_to_str(243)"); }
        if let Some(s) = elf::to_str::e_type_to_str(244) { assert!(eq(s, "EM_LANAI"), "e_type_to_str(244)"); }
        if let Some(s) = elf::to_str::e_type_to_str(247) { assert!(eq(s, "EM_BPF"), "e_type_to_str(247)"); }
        if let Some(s) = elf::to_str::e_type_to_str(251) { assert!(eq(s, "EM_VE"), "e_type_to_str(251)"); }
        if let Some(s) = elf::to_str::e_type_to_str(252) { assert!(eq(s, "EM_CSKY"), "e_type_to_str(252)"); }
        if let Some(s) = elf::to_str::e_type_to_str(258) { assert!(eq(s, "EM_LOONGARCH"), "e_type_to_str(258)"); }
        if let Some(s) = elf::to_str::e_type_to_str(21569) { assert!(eq(s, "EM_FRV"), "e_type_to_str(21569)"); }
        if let Some(s) = elf::to_str::e_type_to_str(32767) { assert!(eq(s, "VER_NDX_VERSION"), "e_type_to_str(32767)"); }
        if let Some(s) = elf::to_str::e_type_to_str(32768) { assert!(eq(s, "VER_NDX_HIDDEN"), "e_type_to_str(32768)"); }
        if let Some(s) = elf::to_str::e_type_to_str(65024) { assert!(eq(s, "ET_LOOS"), "e_type_to_str(65024)"); }
        if let Some(s) = elf::to_str::e_type_to_str(65279) { assert!(eq(s, "ET_HIOS"), "e_type_to_str(65279)"); }
        if let Some(s) = elf::to_str::e_type_to_str(65280) { assert!(eq(s, "ET_LOPROC"), "e_type_to_str(65280)"); }
        if let Some(s) = elf::to_str::e_type_to_str(65521) { assert!(eq(s, "SHN_ABS"), "e_type_to_str(65521)"); }
        if let Some(s) = elf::to_str::e_type_to_str(65522) { assert!(eq(s, "SHN_COMMON"), "e_type_to_str(65522)"); }
        if let Some(s) = elf::to_str::e_type_to_str(65535) { assert!(eq(s, "ET_HIPROC") || eq(s, "PN_XNUM") || eq(s, "SHN_XINDEX"), "e_type_to_str(65535)"); }
    }
    #[kani::proof]
    pub fn e_machine_to_str_none_outside_constants() {
        let x: u16 = kani::any();
        kani::assume(x != 0 && x != 1 && x != 2 && x != 3 && x != 4 && x != 5 && x != 6 && x != 7 && x != 8 && x != 9 && x != 10 && x != 15);
        kani::assume(x != 17 && x != 18 && x != 19 && x != 20 && x != 21 && x != 22 && x != 23 && x != 36 && x != 37 && x != 38 && x != 39 && x != 40);
        kani::assume(x != 41 && x != 42 && x != 43 && x != 44 && x != 45 && x != 46 && x != 47 && x != 48 && x != 49 && x != 50 && x != 51 && x != 52);
        kani::assume(x != 53 && x != 54 && x != 55 && x != 56 && x != 57 && x != 58 && x != 59 && x != 60 && x != 61 && x != 62 && x != 63 && x != 64);
        kani::assume(x != 65 && x != 66 && x != 67 && x != 68 && x != 69 && x != 70 && x != 71 && x != 72 && x != 73 && x != 74 && x != 75 && x != 76);
        kani::assume(x != 77 && x != 78 && x != 79 && x != 80 && x != 81 && x != 82 && x != 83 && x != 84 && x != 85 && x != 86 && x != 87 && x != 88);
        kani::assume(x != 89 && x != 90 && x != 91 && x != 92 && x != 93 && x != 94 && x != 95 && x != 96 && x != 97 && x != 98 && x != 99 && x != 100);
        kani::assume(x != 101 && x != 102 && x != 103 && x != 104 && x != 105 && x != 106 && x != 107 && x != 108 && x != 109 && x != 110 && x != 111 && x != 112);
        kani::assume(x != 113 && x != 114 && x != 115 && x != 116 && x != 117 && x != 118 && x != 119 && x != 120 && x != 131 && x != 132 && x != 133 && x != 134);
        kani::assume(x != 135 && x != 136 && x != 137 && x != 138 && x != 139 && x != 140 && x != 141 && x != 142 && x != 143 && x != 144 && x != 160 && x != 161);
        kani::assume(x != 162 && x != 163 && x != 164 && x != 165 && x != 166 && x != 167 && x != 168 && x != 169 && x != 170 && x != 171 && x != 172 && x != 173);
        kani::assume(x != 174 && x != 175 && x != 176 && x != 177 && x != 178 && x != 179 && x != 180 && x != 181 && x != 183 && x != 185 && x != 186 && x != 187);
        kani::assume(x != 188 && x != 189 && x != 190 && x != 191 && x != 192 && x != 193 && x != 194 && x != 195 && x != 196 && x != 197 && x != 198 && x != 199);
        kani::assume(x != 200 && x != 201 && x != 202 && x != 203 && x != 204 && x != 205 && x != 206 && x != 207 && x != 208 && x != 209 && x != 210 && x != 211);
        kani::assume(x != 212 && x != 213 && x != 214 && x != 215 && x != 216 && x != 217 && x != 218 && x != 219 && x != 220 && x != 221 && x != 222 && x != 223);
        kani::assume(x != 224 && x != 243 && x != 244 && x != 247 && x != 251 && x != 252 && x != 258 && x != 21569 && x != 32767 && x != 32768 && x != 65024 && x != 65279);
        kani::assume(x != 65280 && x != 65521 && x != 65522 && x != 65535);
        assert!(elf::to_str::e_machine_to_str(x).is_none());
    }
    #[kani::proof]
    #[kani::unwind(19)]
    pub fn e_machine_to_str_names_00() {
        if let Some(s) = elf::to_str::e_machine_to_str(0) { assert!(eq(s, "ET_NONE") || eq(s, "EM_NONE") || eq(s, "SHN_UNDEF") || eq(s, "VER_NDX_LOCAL"), "e_machine_to_str(0)"); }
        if let Some(s) = elf::to_str::e_machine_to_str(1) { assert!(eq(s, "ET_REL") || eq(s, "EM_M32") || eq(s, "VER_NDX_GLOBAL") || eq(s, "VER_DEF_CURRENT") || eq(s, "VER_NEED_CURRENT") || eq(s, "VER_FLG_BASE"), "e_machine_to_str(1)"); }
        if let Some(s) = elf::to_str::e_machine_to_str(2) { assert!(eq(s, "ET_EXEC") || eq(s, "EM_SPARC") || eq(s, "VER_FLG_WEAK"), "e_machine_to_str(2)"); }
        if let Some(s) = elf::to_str::e_machine_to_str(3) { assert!(eq(s, "ET_DYN") || eq(s, "EM_386"), "e_machine_to_str(3)"); }
        if let Some(s) = elf::to_str::e_machine_to_str(4) { assert!(eq(s, "ET_CORE") || eq(s, "EM_68K") || eq(s, "VER_FLG_INFO"), "e_machine_to_str(4)"); }
        if let Some(s) = elf::to_str::e_machine_to_str(5) { assert!(eq(s, "EM_88K"), "e_machine_to_str(5)"); }
        if let Some(s) = elf::to_str::e_machine_to_str(6) { assert!(eq(s, "EM_IAMCU"), "e_machine_to_str(6)"); }
        if let Some(s) = elf::to_str::e_machine_to_str(7) { assert!(eq(s, "EM_860"), "e_machine_to_str(7)"); }
        if let Some(s) = elf::to_str::e_machine_to_str(8) { assert!(eq(s, "EM_MIPS"), "e_machine_to_str(8)"); }
        if let Some(s) = elf::to_str::e_machine_to_str(9) { assert!(eq(s, "EM_S370"), "e_machine_to_str(9)"); }
        if let Some(s) = elf::to_str::e_machine_to_str(10) { assert!(eq(s, "EM_MIPS_RS3_LE"), "e_machine_to_str(10)"); }
        if let Some(s) = elf::to_str::e_machine_to_str(15) { assert!(eq(s, "EM_PARISC"), "e_machine_to_str(15)"); }
        if let Some(s) = elf::to_str::e_machine_to_str(17) { assert!(eq(s, "EM_VPP500"), "e_machine_to_str(17)"); }
        if let Some(s) = elf::to_str::e_machine_to_str(18) { assert!(eq(s, "EM_SPARC32PLUS"), "e_machine_to_str(18)"); }
        if let Some(s) = elf::to_str::e_machine_to_str(19) { assert!(eq(s, "EM_960"), "e_machine_to_str(19)"); }
        if let Some(s) = elf::to_str::e_machine_to_str(20) { assert!(eq(s, "EM_PPC"), "e_machine_to_str(20)"); }
        if let Some(s) = elf::to_str::e_machine_to_str(21) { assert!(eq(s, "EM_PPC64"), "e_machine_to_str(21)"); }
        if let Some(s) = elf::to_str::e_machine_to_str(22) { assert!(eq(s, "EM_S390"), "e_machine_to_str(22)"); }
        if let Some(s) = elf::to_str::e_machine_to_str(23) { assert!(eq(s, "EM_SPU"), "e_machine_to_str(23)"); }
        if let Some(s) = elf::to_str::e_machine_to_str(36) { assert!(eq(s, "EM_V800"), "e_machine_to_str(36)"); }
        if let Some(s) = elf::to_str::e_machine_to_str(37) { assert!(eq(s, "EM_FR20"), "e_machine_to_str(37)"); }
        if let Some(s) = elf::to_str::e_machine_to_str(38) { assert!(eq(s, "EM_RH32"), "e_machine_to_str(38)"); }
        if let Some(s) = elf::to_str::e_machine_to_str(39) { assert!(eq(s, "EM_RCE"), "e_machine_to_str(39)"); }
        if let Some(s) = elf::to_str::e_machine_to_str(40) { assert!(eq(s, "EM_ARM"), "e_machine_to_str(40)"); }
        if let Some(s) = elf::to_str::e_machine_to_str(41) { assert!(eq(s, "EM_ALPHA"), "e_machine_to_str(41)"); }
        if let Some(s) = elf::to_str::e_machine_to_str(42) { assert!(eq(s, "EM_SH"), "e_machine_to_str(42)"); }
        if let Some(s) = elf::to_str::e_machine_to_str(43) { assert!(eq(s, "EM_SPARCV9"), "e_machine_to_str(43)"); }
        if let Some(s) = elf::to_str::e_machine_to_str(44) { assert!(eq(s, "EM_TRICORE"), "e_machine_to_str(44)"); }
        if let Some(s) = elf::to_str::e_machine_to_str(45) { assert!(eq(s, "EM_ARC"), "e_machine_to_str(45)"); }
        if let Some(s) = elf::to_str::e_machine_to_str(46) { assert!(eq(s, "EM_H8_300"), "e_machine_to_str(46)"); }
        if let Some(s) = elf::to_str::e_machine_to_str(47) { assert!(eq(s, "EM_H8_300H"), "e_machine_to_str(47)"); }
        if let Some(s) = elf::to_str::e_machine_to_str(48) { assert!(eq(s, "EM_H8S"), "e_machine_to_str(48)"); }
        if let Some(s) = elf::to_str::e_machine_to_str(49) { assert!(eq(s, "EM_H8_500"), "e_machine_to_str(49)"); }
        if let Some(s) = elf::to_str::e_machine_to_str(50) { assert!(eq(s, "EM_IA_64"), "e_machine_to_str(50)"); }
        if let Some(s) = elf::to_str::e_machine_to_str(51) { assert!(eq(s, "EM_MIPS_X"), "e_machine_to_str(51)"); }
        if let Some(s) = elf::to_str::e_machine_to_str(52) { assert!(eq(s, "EM_COLDFIRE"), "e_machine_to_str(52)"); }
        if let Some(s) = elf::to_str::e_machine_to_str(53) { assert!(eq(s, "EM_68HC12"), "e_machine_to_str(53)"); }
        if let Some(s) = elf::to_str::e_machine_to_str(54) { assert!(eq(s, "EM_MMA"), "e_machine_to_str(54)"); }
        if let Some(s) = elf::to_str::e_machine_to_str(55) { assert!(eq(s, "EM_PCP"), "e_machine_to_str(55)"); }
        if let Some(s) = elf::to_str::e_machine_to_str(56) { assert!(eq(s, "EM_NCPU"), "e_machine_to_str(56)"); }
        if let Some(s) = elf::to_str::e_machine_to_str(57) { assert!(eq(s, "EM_NDR1"), "e_machine_to_str(57)"); }
        if let Some(s) = elf::to_str::e_machine_to_str(58) { assert!(eq(s, "EM_STARCORE"), "e_machine_to_str(58)"); }
        if let Some(s) = elf::to_str::e_machine_to_str(59) { assert!(eq(s, "EM_ME16"), "e_machine_to_str(59)"); }
        if let Some(s) = elf::to_str::e_machine_to_str(60) { assert!(eq(s, "EM_ST100"), "e_machine_to_str(60)"); }
        if let Some(s) = elf::to_str::e_machine_to_str(61) { assert!(eq(s, "EM_TINYJ"), "e_machine_to_str(61)"); }
        if let Some(s) = elf::to_str::e_machine_to_str(62) { assert!(eq(s, "EM_X86_64"), "e_machine_to_str(62)"); }
        if let Some(s) = elf::to_str::e_machine_to_str(63) { assert!(eq(s, "EM_PDSP"), "e_machine_to_str(63)"); }
        if let Some(s) = elf::to_str::e_machine_to_str(64) { assert!(eq(s, "EM_PDP10"), "e_machine_to_str(64)"); }
        if let Some(s) = elf::to_str::e_machine_to_str(65) { assert!(eq(s, "EM_PDP11"), "e_machine_to_str(65)"); }
        if let Some(s) = elf::to_str::e_machine_to_str(66) { assert!(eq(s, "EM_FX66"), "e_machine_to_str(66)"); }
        if let Some(s) = elf::to_str::e_machine_to_str(67) { assert!(eq(s, "EM_ST9PLUS"), "e_machine_to_str(67)"); }
        if let Some(s) = elf::to_str::e_machine_to_str(68) { assert!(eq(s, "EM_ST7"), "e_machine_to_str(68)"); }
        if let Some(s) = elf::to_str::e_machine_to_str(69) { assert!(eq(s, "EM_68HC16"), "e_machine_to_str(69)"); }
        if let Some(s) = elf::to_str::e_machine_to_str(70) { assert!(eq(s, "EM_68HC11"), "e_machine_to_str(70)"); }
        if let Some(s) = elf::to_str::e_machine_to_str(71) { assert!(eq(s, "EM_68HC08"), "e_machine_to_str(71)"); }
        if let Some(s) = elf::to_str::e_machine_to_str(72) { assert!(eq(s, "EM_68HC05"), "e_machine_to_str(72)"); }
        if let Some(s) = elf::to_str::e_machine_to_str(73) { assert!(eq(s, "EM_SVX"), "e_machine_to_str(73)"); }
        if let Some(s) = elf::to_str::e_machine_to_str(74) { assert!(eq(s, "EM_ST19"), "e_machine_to_str(74)"); }
        if let Some(s) = elf::to_str::e_machine_to_str(75) { assert!(eq(s, "EM_VAX"), "e_machine_to_str(75)"); }
        if let Some(s) = elf::to_str::e_machine_to_str(76) { assert!(eq(s, "EM_CRIS"), "e_machine_to_str(76)"); }
    }
    #[kani::proof]
    #[kani::unwind(19)]
    pub fn e_machine_to_str_names_01() {
        if let Some(s) = elf::to_str::e_machine_to_str(77) { assert!(eq(s, "EM_JAVELIN"), "e_machine_to_str(77)"); }
        if let Some(s) = elf::to_str::e_machine_to_str(78) { assert!(eq(s, "EM_FIREPATH"), "e_machine_to_str(78)"); }
        if let Some(s) = elf::to_str::e_machine_to_str(79) { assert!(eq(s, "EM_ZSP"), "e_machine_to_str(79)"); }
        if let Some(s) = elf::to_str::e_machine_to_str(80) { assert!(eq(s, "EM_MMIX"), "e_machine_to_str(80)"); }
        if let Some(s) = elf::to_str::e_machine_to_str(81) { assert!(eq(s, "EM_HUANY"), "e_machine_to_str(81)"); }
        if let Some(s) = elf::to_str::e_machine_to_str(82) { assert!(eq(s, "EM_PRISM"), "e_machine_to_str(82)"); }
        if let Some(s) = elf::to_str::e_machine_to_str(83) { assert!(eq(s, "EM_AVR"), "e_machine_to_str(83)"); }
        if let Some(s) = elf::to_str::e_machine_to_str(84) { assert!(eq(s, "EM_FR30"), "e_machine_to_str(84)"); }
        if let Some(s) = elf::to_str::e_machine_to_str(85) { assert!(eq(s, "EM_D10V"), "e_machine_to_str(85)"); }
        if let Some(s) = elf::to_str::e_machine_to_str(86) { assert!(eq(s, "EM_D30V"), "e_machine_to_str(86)"); }
        if let Some(s) = elf::to_str::e_machine_to_str(87) { assert!(eq(s, "EM_V850"), "e_machine_to_str(87)"); }
        if let Some(s) = elf::to_str::e_machine_to_str(88) { assert!(eq(s, "EM_M32R"), "e_machine_to_str(88)"); }
        if let Some(s) = elf::to_str::e_machine_to_str(89) { assert!(eq(s, "EM_MN10300"), "e_machine_to_str(89)"); }
        if let Some(s) = elf::to_str::e_machine_to_str(90) { assert!(eq(s, "EM_MN10200"), "e_machine_to_str(90)"); }
        if let Some(s) = elf::to_str::e_machine_to_str(91) { assert!(eq(s, "EM_PJ"), "e_machine_to_str(91)"); }
        if let Some(s) = elf::to_str::e_machine_to_str(92) { assert!(eq(s, "EM_OPENRISC"), "e_machine_to_str(92)"); }
        if let Some(s) = elf::to_str::e_machine_to_str(93) { assert!(eq(s, "EM_ARC_COMPACT"), "e_machine_to_str(93)"); }
        if let Some(s) = elf::to_str::e_machine_to_str(94) { assert!(eq(s, "EM_XTENSA"), "e_machine_to_str(94)"); }
        if let Some(s) = elf::to_str::e_machine_to_str(95) { assert!(eq(s, "EM_VIDEOCORE"), "e_machine_to_str(95)"); }
        if let Some(s) = elf::to_str::e_machine_to_str(96) { assert!(eq(s, "EM_TMM_GPP"), "e_machine_to_str(96)"); }
        if let Some(s) = elf::to_str::e_machine_to_str(97) { assert!(eq(s, "EM_NS32K"), "e_machine_to_str(97)"); }
        if let Some(s) = elf::to_str::e_machine_to_str(98) { assert!(eq(s, "EM_TPC"), "e_machine_to_str(98)"); }
        if let Some(s) = elf::to_str::e_machine_to_str(99) { assert!(eq(s, "EM_SNP1K"), "e_machine_to_str(99)"); }
        if let Some(s) = elf::to_str::e_machine_to_str(100) { assert!(eq(s, "EM_ST200"), "e_machine_to_str(100)"); }
        if let Some(s) = elf::to_str::e_machine_to_str(101) { assert!(eq(s, "EM_IP2K"), "e_machine_to_str(101)"); }
        if let Some(s) = elf::to_str::e_machine_to_str(102) { assert!(eq(s, "EM_MAX"), "e_machine_to_str(102)"); }
        if let Some(s) = elf::to_str::e_machine_to_str(103) { assert!(eq(s, "EM_CR"), "e_machine_to_str(103)"); }
        if let Some(s) = elf::to_str::e_machine_to_str(104) { assert!(eq(s, "EM_F2MC16"), "e_machine_to_str(104)"); }
        if let Some(s) = elf::to_str::e_machine_to_str(105) { assert!(eq(s, "EM_MSP430"), "e_machine_to_str(105)"); }
        if let Some(s) = elf::to_str::e_machine_to_str(106) { assert!(eq(s, "EM_BLACKFIN"), "e_machine_to_str(106)"); }
        if let Some(s) = elf::to_str::e_machine_to_str(107) { assert!(eq(s, "EM_SE_C33"), "e_machine_to_str(107)"); }
        if let Some(s) = elf::to_str::e_machine_to_str(108) { assert!(eq(s, "EM_SEP"), "e_machine_to_str(108)"); }
        if let Some(s) = elf::to_str::e_machine_to_str(109) { assert!(eq(s, "EM_ARCA"), "e_machine_to_str(109)"); }
        if let Some(s) = elf::to_str::e_machine_to_str(110) { assert!(eq(s, "EM_UNICORE"), "e_machine_to_str(110)"); }
        if let Some(s) = elf::to_str::e_machine_to_str(111) { assert!(eq(s, "EM_EXCESS"), "e_machine_to_str(111)"); }
        if let Some(s) = elf::to_str::e_machine_to_str(112) { assert!(eq(s, "EM_DXP"), "e_machine_to_str(112)"); }
        if let Some(s) = elf::to_str::e_machine_to_str(113) { assert!(eq(s, "EM_ALTERA_NIOS2"), "e_machine_to_str(113)"); }
        if let Some(s) = elf::to_str::e_machine_to_str(114) { assert!(eq(s, "EM_CRX"), "e_machine_to_str(114)"); }
        if let Some(s) = elf::to_str::e_machine_to_str(115) { assert!(eq(s, "EM_XGATE"), "e_machine_to_str(115)"); }
        if let Some(s) = elf::to_str::e_machine_to_str(116) { assert!(eq(s, "EM_C166"), "e_machine_to_str(116)"); }
        if let Some(s) = elf::to_str::e_machine_to_str(117) { assert!(eq(s, "EM_M16C"), "e_machine_to_str(117)"); }
        if let Some(s) = elf::to_str::e_machine_to_str(118) { assert!(eq(s, "EM_DSPIC30F"), "e_machine_to_str(118)"); }
        if let Some(s) = elf::to_str::e_machine_to_str(119) { assert!(eq(s, "EM_CE"), "e_machine_to_str(119)"); }
        if let Some(s) = elf::to_str::e_machine_to_str(120) { assert!(eq(s, "EM_M32C"), "e_machine_to_str(120)"); }
        if let Some(s) = elf::to_str::e_machine_to_str(131) { assert!(eq(s, "EM_TSK3000"), "e_machine_to_str(131)"); }
        if let Some(s) = elf::to_str::e_machine_to_str(132) { assert!(eq(s, "EM_RS08"), "e_machine_to_str(132)"); }
        if let Some(s) = elf::to_str::e_machine_to_str(133) { assert!(eq(s, "EM_SHARC"), "e_machine_to_str(133)"); }
        if let Some(s) = elf::to_str::e_machine_to_str(134) { assert!(eq(s, "EM_ECOG2"), "e_machine_to_str(134)"); }
        if let Some(s) = elf::to_str::e_machine_to_str(135) { assert!(eq(s, "EM_SCORE7"), "e_machine_to_str(135)"); }
        if let Some(s) = elf::to_str::e_machine_to_str(136) { assert!(eq(s, "EM_DSP24"), "e_machine_to_str(136)"); }
        if let Some(s) = elf::to_str::e_machine_to_str(137) { assert!(eq(s, "EM_VIDEOCORE3"), "e_machine_to_str(137)"); }
        if let Some(s) = elf::to_str::e_machine_to_str(138) { assert!(eq(s, "EM_LATTICEMICO32"), "e_machine_to_str(138)"); }
        if let Some(s) = elf::to_str::e_machine_to_str(139) { assert!(eq(s, "EM_SE_C17"), "e_machine_to_str(139)"); }
        if let Some(s) = elf::to_str::e_machine_to_str(140) { assert!(eq(s, "EM_TI_C6000"), "e_machine_to_str(140)"); }
        if let Some(s) = elf::to_str::e_machine_to_str(141) { assert!(eq(s, "EM_TI_C2000"), "e_machine_to_str(141)"); }
        if let Some(s) = elf::to_str::e_machine_to_str(142) { assert!(eq(s, "EM_TI_C5500"), "e_machine_to_str(142)"); }
        if let Some(s) = elf::to_str::e_machine_to_str(143) { assert!(eq(s, "EM_TI_ARP32"), "e_machine_to_str(143)"); }
        if let Some(s) = elf::to_str::e_machine_to_str(144) { assert!(eq(s, "EM_TI_PRU"), "e_machine_to_str(144)"); }
        if let Some(s) = elf::to_str::e_machine_to_str(160) { assert!(eq(s, "EM_MMDSP_PLUS"), "e_machine_to_str(160)"); }
        if let Some(s) = elf::to_str::e_machine_to_str(161) { assert!(eq(s, "EM_CYPRESS_M8C"), "e_machine_to_str(161)"); }
    }
    #[kani::proof]
    #[kani::unwind(19)]
    pub fn e_machine_to_str_names_02() {
        if let Some(s) = elf::to_str::e_machine_to_str(162) { assert!(eq(s, "EM_R32C"), "e_machine_to_str(162)"); }
        if let Some(s) = elf::to_str::e_machine_to_str(163) { assert!(eq(s, "EM_TRIMEDIA"), "e_machine_to_str(163)"); }
        if let Some(s) = elf::to_str::e_machine_to_str(164) { assert!(eq(s, "EM_QDSP6"), "e_machine_to_str(164)"); }
        if let Some(s) = elf::to_str::e_machine_to_str(165) { assert!(eq(s, "EM_8051"), "e_machine_to_str(165)"); }
        if let Some(s) = elf::to_str::e_machine_to_str(166) { assert!(eq(s, "EM_STXP7X"), "e_machine_to_str(166)"); }
        if let Some(s) = elf::to_str::e_machine_to_str(167) { assert!(eq(s, "EM_NDS32"), "e_machine_to_str(167)"); }
        if let Some(s) = elf::to_str::e_machine_to_str(168) { assert!(eq(s, "EM_ECOG1") || eq(s, "EM_ECOG1X"), "e_machine_to_str(168)"); }
        if let Some(s) = elf::to_str::e_machine_to_str(169) { assert!(eq(s, "EM_MAXQ30"), "e_machine_to_str(169)"); }
        if let Some(s) = elf::to_str::e_machine_to_str(170) { assert!(eq(s, "EM_XIMO16"), "e_machine_to_str(170)"); }
        if let Some(s) = elf::to_str::e_machine_to_str(171) { assert!(eq(s, "EM_MANIK"), "e_machine_to_str(171)"); }
        if let Some(s) = elf::to_str::e_machine_to_str(172) { assert!(eq(s, "EM_CRAYNV2"), "e_machine_to_str(172)"); }
        if let Some(s) = elf::to_str::e_machine_to_str(173) { assert!(eq(s, "EM_RX"), "e_machine_to_str(173)"); }
        if let Some(s) = elf::to_str::e_machine_to_str(174) { assert!(eq(s, "EM_METAG"), "e_machine_to_str(174)"); }
        if let Some(s) = elf::to_str::e_machine_to_str(175) { assert!(eq(s, "EM_MCST_ELBRUS"), "e_machine_to_str(175)"); }
        if let Some(s) = elf::to_str::e_machine_to_str(176) { assert!(eq(s, "EM_ECOG16"), "e_machine_to_str(176)"); }
        if let Some(s) = elf::to_str::e_machine_to_str(177) { assert!(eq(s, "EM_CR16"), "e_machine_to_str(177)"); }
        if let Some(s) = elf::to_str::e_machine_to_str(178) { assert!(eq(s, "EM_ETPU"), "e_machine_to_str(178)"); }
        if let Some(s) = elf::to_str::e_machine_to_str(179) { assert!(eq(s, "EM_SLE9X"), "e_machine_to_str(179)"); }
        if let Some(s) = elf::to_str::e_machine_to_str(180) { assert!(eq(s, "EM_L10M"), "e_machine_to_str(180)"); }
        if let Some(s) = elf::to_str::e_machine_to_str(181) { assert!(eq(s, "EM_K10M"), "e_machine_to_str(181)"); }
        if let Some(s) = elf::to_str::e_machine_to_str(183) { assert!(eq(s, "EM_AARCH64"), "e_machine_to_str(183)"); }
        if let Some(s) = elf::to_str::e_machine_to_str(185) { assert!(eq(s, "EM_AVR32"), "e_machine_to_str(185)"); }
        if let Some(s) = elf::to_str::e_machine_to_str(186) { assert!(eq(s, "EM_STM8"), "e_machine_to_str(186)"); }
        if let Some(s) = elf::to_str::e_machine_to_str(187) { assert!(eq(s, "EM_TILE64"), "e_machine_to_str(187)"); }
        if let Some(s) = elf::to_str::e_machine_to_str(188) { assert!(eq(s, "EM_TILEPRO"), "e_machine_to_str(188)"); }
        if let Some(s) = elf::to_str::e_machine_to_str(189) { assert!(eq(s, "EM_MICROBLAZE"), "e_machine_to_str(189)"); }
        if let Some(s) = elf::to_str::e_machine_to_str(190) { assert!(eq(s, "EM_CUDA"), "e_machine_to_str(190)"); }
        if let Some(s) = elf::to_str::e_machine_to_str(191) { assert!(eq(s, "EM_TILEGX"), "e_machine_to_str(191)"); }
        if let Some(s) = elf::to_str::e_machine_to_str(192) { assert!(eq(s, "EM_CLOUDSHIELD"), "e_machine_to_str(192)"); }
        if let Some(s) = elf::to_str::e_machine_to_str(193) { assert!(eq(s, "EM_COREA_1ST"), "e_machine_to_str(193)"); }
        if let Some(s) = elf::to_str::e_machine_to_str(194) { assert!(eq(s, "EM_COREA_2ND"), "e_machine_to_str(194)"); }
        if let Some(s) = elf::to_str::e_machine_to_str(195) { assert!(eq(s, "EM_ARC_COMPACT2"), "e_machine_to_str(195)"); }
        if let Some(s) = elf::to_str::e_machine_to_str(196) { assert!(eq(s, "EM_OPEN8"), "e_machine_to_str(196)"); }
        if let Some(s) = elf::to_str::e_machine_to_str(197) { assert!(eq(s, "EM_RL78"), "e_machine_to_str(197)"); }
        if let Some(s) = elf::to_str::e_machine_to_str(198) { assert!(eq(s, "EM_VIDEOCORE5"), "e_machine_to_str(198)"); }
        if let Some(s) = elf::to_str::e_machine_to_str(199) { assert!(eq(s, "EM_78KOR"), "e_machine_to_str(199)"); }
        if let Some(s) = elf::to_str::e_machine_to_str(200) { assert!(eq(s, "EM_56800EX"), "e_machine_to_str(200)"); }
        if let Some(s) = elf::to_str::e_machine_to_str(201) { assert!(eq(s, "EM_BA1"), "e_machine_to_str(201)"); }
        if let Some(s) = elf::to_str::e_machine_to_str(202) { assert!(eq(s, "EM_BA2"), "e_machine_to_str(202)"); }
        if let Some(s) = elf::to_str::e_machine_to_str(203) { assert!(eq(s, "EM_XCORE"), "e_machine_to_str(203)"); }
        if let Some(s) = elf::to_str::e_machine_to_str(204) { assert!(eq(s, "EM_MCHP_PIC"), "e_machine_to_str(204)"); }
        if let Some(s) = elf::to_str::e_machine_to_str(205) { assert!(eq(s, "EM_INTEL205"), "e_machine_to_str(205)"); }
        if let Some(s) = elf::to_str::e_machine_to_str(206) { assert!(eq(s, "EM_INTEL206"), "e_machine_to_str(206)"); }
        if let Some(s) = elf::to_str::e_machine_to_str(207) { assert!(eq(s, "EM_INTEL207"), "e_machine_to_str(207)"); }
        if let Some(s) = elf::to_str::e_machine_to_str(208) { assert!(eq(s, "EM_INTEL208"), "e_machine_to_str(208)"); }
        if let Some(s) = elf::to_str::e_machine_to_str(209) { assert!(eq(s, "EM_INTEL209"), "e_machine_to_str(209)"); }
        if let Some(s) = elf::to_str::e_machine_to_str(210) { assert!(eq(s, "EM_KM32"), "e_machine_to_str(210)"); }
        if let Some(s) = elf::to_str::e_machine_to_str(211) { assert!(eq(s, "EM_KMX32"), "e_machine_to_str(211)"); }
        if let Some(s) = elf::to_str::e_machine_to_str(212) { assert!(eq(s, "EM_KMX16"), "e_machine_to_str(212)"); }
        if let Some(s) = elf::to_str::e_machine_to_str(213) { assert!(eq(s, "EM_KMX8"), "e_machine_to_str(213)"); }
        if let Some(s) = elf::to_str::e_machine_to_str(214) { assert!(eq(s, "EM_KVARC"), "e_machine_to_str(214)"); }
        if let Some(s) = elf::to_str::e_machine_to_str(215) { assert!(eq(s, "EM_CDP"), "e_machine_to_str(215)"); }
        if let Some(s) = elf::to_str::e_machine_to_str(216) { assert!(eq(s, "EM_COGE"), "e_machine_to_str(216)"); }
        if let Some(s) = elf::to_str::e_machine_to_str(217) { assert!(eq(s, "EM_COOL"), "e_machine_to_str(217)"); }
        if let Some(s) = elf::to_str::e_machine_to_str(218) { assert!(eq(s, "EM_NORC"), "e_machine_to_str(218)"); }
        if let Some(s) = elf::to_str::e_machine_to_str(219) { assert!(eq(s, "EM_CSR_KALIMBA"), "e_machine_to_str(219)"); }
        if let Some(s) = elf::to_str::e_machine_to_str(220) { assert!(eq(s, "EM_Z80"), "e_machine_to_str(220)"); }
        if let Some(s) = elf::to_str::e_machine_to_str(221) { assert!(eq(s, "EM_VISIUM"), "e_machine_to_str(221)"); }
        if let Some(s) = elf::to_str::e_machine_to_str(222) { assert!(eq(s, "EM_FT32"), "e_machine_to_str(222)"); }
        if let Some(s) = elf::to_str::e_machine_to_str(223) { assert!(eq(s, "EM_MOXIE"), "e_machine_to_str(223)"); }
    }
    #[kani::proof]
    #[kani::unwind(19)]
    pub fn e_machine_to_str_names_03() {
        if let Some(s) = elf::to_str::e_machine_to_str(224) { assert!(eq(s, "EM_AMDGPU"), "e_machine_to_str(224)"); }
        if let Some(s) = elf::to_str::e_machine_to_str(243) { assert!(eq(s, "EM_RISCV"), "e_machine_to_str(243)"); }
        if let Some(s) = elf::to_str::e_machine_to_str(244) { assert!(eq(s, "EM_LANAI"), "e_machine_to_str(244)"); }
        if let Some(s) = elf::to_str::e_machine_to_str(247) { assert!(eq(s, "EM_BPF"), "e_machine_to_str(247)"); }
        if let Some(s) = elf::to_str::e_machine_to_str(251) { assert!(eq(s, "EM_VE"), "e_machine_to_str(251)"); }
        if let Some(s) = elf::to_str::e_machine_to_str(252) { assert!(eq(s, "EM_CSKY"), "e_machine_to_str(252)"); }
        if let Some(s) = elf::to_str::e_machine_to_str(258) { assert!(eq(s, "EM_LOONGARCH"), "e_machine_to_str(258)"); }
        if let Some(s) = elf::to_str::e_machine_to_str(21569) { assert!(eq(s, "EM_FRV"), "e_machine_to_str(21569)"); }
        if let Some(s) = elf::to_str::e_machine_to_str(32767) { assert!(eq(s, "VER_NDX_VERSION"), "e_machine_to_str(32767)"); }
        if let Some(s) = elf::to_str::e_machine_to_str(32768) { assert!(eq(s, "VER_NDX_HIDDEN"), "e_machine_to_str(32768)"); }
        if let Some(s) = elf::to_str::e_machine_to_str(65024) { assert!(eq(s, "ET_LOOS"), "e_machine_to_str(65024)"); }
        if let Some(s) = elf::to_str::e_machine_to_str(65279) { assert!(eq(s, "ET_HIOS"), "e_machine_to_str(65279)"); }
        if let Some(s) = elf::to_str::e_machine_to_str(65280) { assert!(eq(s, "ET_LOPROC"), "e_machine_to_str(65280)"); }
        if let Some(s) = elf::to_str::e_machine_to_str(65521) { assert!(eq(s, "SHN_ABS"), "e_machine_to_str(65521)"); }
        if let Some(s) = elf::to_str::e_machine_to_str(65522) { assert!(eq(s, "SHN_COMMON"), "e_machine_to_str(65522)"); }
        if let Some(s) = elf::to_str::e_machine_to_str(65535) { assert!(eq(s, "ET_HIPROC") || eq(s, "PN_XNUM") || eq(s, "SHN_XINDEX"), "e_machine_to_str(65535)"); }
    }
    #[kani::proof]
    pub fn sh_type_to_str_none_outside_constants() {
        let x: u32 = kani::any();
        kani::assume(x != 0 && x != 1 && x != 2 && x != 3 && x != 4 && x != 5 && x != 6 && x != 7 && x != 8 && x != 9 && x != 10 && x != 11);
        kani::assume(x != 12 && x != 13 && x != 14 && x != 15 && x != 16 && x != 17 && x != 18 && x != 19 && x != 20 && x != 21 && x != 22 && x != 23);
        kani::assume(x != 24 && x != 25 && x != 26 && x != 27 && x != 28 && x != 29 && x != 30 && x != 31 && x != 32 && x != 33 && x != 34 && x != 35);
        kani::assume(x != 36 && x != 37 && x != 38 && x != 39 && x != 40 && x != 41 && x != 42 && x != 43 && x != 44 && x != 45 && x != 46 && x != 47);
        kani::assume(x != 48 && x != 49 && x != 50 && x != 51 && x != 52 && x != 53 && x != 54 && x != 55 && x != 56 && x != 57 && x != 58 && x != 59);
        kani::assume(x != 60 && x != 61 && x != 62 && x != 63 && x != 64 && x != 65 && x != 66 && x != 67 && x != 68 && x != 69 && x != 70 && x != 71);
        kani::assume(x != 72 && x != 73 && x != 74 && x != 75 && x != 76 && x != 77 && x != 78 && x != 79 && x != 80 && x != 81 && x != 82 && x != 83);
        kani::assume(x != 84 && x != 85 && x != 86 && x != 87 && x != 88 && x != 89 && x != 90 && x != 91 && x != 92 && x != 93 && x != 94 && x != 95);
        kani::assume(x != 96 && x != 97 && x != 98 && x != 99 && x != 100 && x != 101 && x != 102 && x != 103 && x != 104 && x != 105 && x != 106 && x != 107);
        kani::assume(x != 108 && x != 109 && x != 110 && x != 111 && x != 112 && x != 113 && x != 114 && x != 115 && x != 116 && x != 128 && x != 129 && x != 130);
        kani::assume(x != 131 && x != 132 && x != 133 && x != 134 && x != 135 && x != 136 && x != 137 && x != 138 && x != 160 && x != 180 && x != 181 && x != 182);
        kani::assume(x != 183 && x != 184 && x != 185 && x != 186 && x != 187 && x != 188 && x != 247 && x != 248 && x != 249 && x != 250 && x != 251 && x != 252);
        kani::assume(x != 255 && x != 256 && x != 257 && x != 258 && x != 259 && x != 260 && x != 261 && x != 262 && x != 263 && x != 264 && x != 265 && x != 266);
        kani::assume(x != 267 && x != 268 && x != 269 && x != 270 && x != 271 && x != 272 && x != 273 && x != 274 && x != 275 && x != 276 && x != 277 && x != 278);
        kani::assume(x != 279 && x != 280 && x != 282 && x != 283 && x != 284 && x != 285 && x != 286 && x != 287 && x != 288 && x != 289 && x != 290 && x != 291);
        kani::assume(x != 292 && x != 293 && x != 299 && x != 300 && x != 301 && x != 302 && x != 303 && x != 304 && x != 305 && x != 306 && x != 307 && x != 308);
        kani::assume(x != 309 && x != 310 && x != 311 && x != 312 && x != 313 && x != 512 && x != 513 && x != 514 && x != 515 && x != 516 && x != 517 && x != 518);
        kani::assume(x != 519 && x != 520 && x != 521 && x != 522 && x != 523 && x != 524 && x != 525 && x != 526 && x != 527 && x != 528 && x != 529 && x != 530);
        kani::assume(x != 531 && x != 532 && x != 533 && x != 534 && x != 535 && x != 536 && x != 537 && x != 538 && x != 539 && x != 540 && x != 541 && x != 542);
        kani::assume(x != 543 && x != 544 && x != 545 && x != 546 && x != 547 && x != 548 && x != 549 && x != 550 && x != 551 && x != 552 && x != 553 && x != 554);
        kani::assume(x != 555 && x != 556 && x != 557 && x != 558 && x != 559 && x != 560 && x != 561 && x != 562 && x != 563 && x != 564 && x != 565 && x != 566);
        kani::assume(x != 567 && x != 568 && x != 569 && x != 570 && x != 571 && x != 572 && x != 573 && x != 1024 && x != 1025 && x != 1026 && x != 1027 && x != 1028);
        kani::assume(x != 1029 && x != 1030 && x != 1031 && x != 1032 && x != 2048 && x != 32768 && x != 65536 && x != 4198399 && x != 4259840 && x != 5046272 && x != 5373952 && x != 5439488);
        kani::assume(x != 8388608 && x != 16711680 && x != 16777216 && x != 33554432 && x != 50331648 && x != 67108864 && x != 83886080 && x != 267386880 && x != 1610612736 && x != 1685382480 && x != 1685382481 && x != 1685382482);
        kani::assume(x != 1685382483 && x != 1879048181 && x != 1879048182 && x != 1879048183 && x != 1879048189 && x != 1879048190 && x != 1879048191 && x != 1879048192 && x != 1879048193 && x != 1879048194 && x != 1879048195 && x != 1879048196);
        kani::assume(x != 1879048197 && x != 2147483647 && x != 2147483648 && x != 2415919103 && x != 3221225472 && x != 4026531840 && x != 4278190080);
        assert!(elf::to_str::sh_type_to_str(x).is_none());
    }
    #[kani::proof]
    #[kani::unwind(41)]
    pub fn sh_type_to_str_names_00() {
        if let Some(s) = elf::to_str::sh_type_to_str(0) { assert!(eq(s, "PF_NONE") || eq(s, "PT_NULL") || eq(s, "SHT_NULL") || eq(s, "SHF_NONE") || eq(s, "ELF_NOTE_GNU_ABI_TAG_OS_LINUX") || eq(s, "EF_ARM_EABI_UNKNOWN") || eq(s, "PT_ARM_ARCHEXT_FMT_OS") || eq(s, "PT_ARM_ARCHEXT_PROF_NONE") || eq(s, "PT_ARM_ARCHEXT_ARCH_UNKN") || eq(s, "R_ARM_NONE") || eq(s, "R_AARCH64_NONE") || eq(s, "R_PPC_NONE") || eq(s, "R_PPC64_NONE") || eq(s, "EF_RISCV_FLOAT_ABI_SOFT") || eq(s, "R_RISCV_NONE") || eq(s, "R_X86_64_NONE"), "sh_type_to_str(0)"); }
        if let Some(s) = elf::to_str::sh_type_to_str(1) { assert!(eq(s, "PF_X") || eq(s, "PT_LOAD") || eq(s, "SHT_PROGBITS") || eq(s, "SHF_WRITE") || eq(s, "ELFCOMPRESS_ZLIB") || eq(s, "ELF_NOTE_GNU_ABI_TAG_OS_GNU") || eq(s, "PT_ARM_ARCHEXT_ARCHV4") || eq(s, "R_ARM_PC24") || eq(s, "GNU_PROPERTY_AARCH64_FEATURE_1_BTI") || eq(s, "R_AARCH64_P32_ABS32") || eq(s, "R_PPC_ADDR32") || eq(s, "R_PPC64_ADDR32") || eq(s, "EF_RISCV_RVC") || eq(s, "R_RISCV_32") || eq(s, "R_X86_64_64"), "sh_type_to_str(1)"); }
        if let Some(s) = elf::to_str::sh_type_to_str(2) { assert!(eq(s, "PF_W") || eq(s, "PT_DYNAMIC") || eq(s, "SHT_SYMTAB") || eq(s, "SHF_ALLOC") || eq(s, "ELFCOMPRESS_ZSTD") || eq(s, "ELF_NOTE_GNU_ABI_TAG_OS_SOLARIS2") || eq(s, "PT_ARM_ARCHEXT_ARCHV4T") || eq(s, "R_ARM_ABS32") || eq(s, "GNU_PROPERTY_AARCH64_FEATURE_1_PAC") || eq(s, "R_PPC_ADDR24") || eq(s, "R_PPC64_ADDR24") || eq(s, "EF_RISCV_FLOAT_ABI_SINGLE") || eq(s, "R_RISCV_64") || eq(s, "R_X86_64_PC32"), "sh_type_to_str(2)"); }
        if let Some(s) = elf::to_str::sh_type_to_str(3) { assert!(eq(s, "PT_INTERP") || eq(s, "SHT_STRTAB") || eq(s, "ELF_NOTE_GNU_ABI_TAG_OS_FREEBSD") || eq(s, "PT_ARM_ARCHEXT_ARCHV5T") || eq(s, "R_ARM_REL32") || eq(s, "R_PPC_ADDR16") || eq(s, "EF_PPC64_ABI") || eq(s, "R_PPC64_ADDR16") || eq(s, "R_RISCV_RELATIVE") || eq(s, "R_X86_64_GOT32"), "sh_type_to_str(3)"); }
        if let Some(s) = elf::to_str::sh_type_to_str(4) { assert!(eq(s, "PF_R") || eq(s, "PT_NOTE") || eq(s, "SHT_RELA") || eq(s, "SHF_EXECINSTR") || eq(s, "PT_ARM_ARCHEXT_ARCHV5TE") || eq(s, "R_ARM_LDR_PC_G0") || eq(s, "R_PPC_ADDR16_LO") || eq(s, "R_PPC64_ADDR16_LO") || eq(s, "EF_RISCV_FLOAT_ABI_DOUBLE") || eq(s, "R_RISCV_COPY") || eq(s, "R_X86_64_PLT32"), "sh_type_to_str(4)"); }
        if let Some(s) = elf::to_str::sh_type_to_str(5) { assert!(eq(s, "PT_SHLIB") || eq(s, "SHT_HASH") || eq(s, "PT_ARM_ARCHEXT_ARCHV5TEJ") || eq(s, "R_ARM_ABS16") || eq(s, "R_PPC_ADDR16_HI") || eq(s, "R_PPC64_ADDR16_HI") || eq(s, "R_RISCV_JUMP_SLOT") || eq(s, "R_X86_64_COPY"), "sh_type_to_str(5)"); }
        if let Some(s) = elf::to_str::sh_type_to_str(6) { assert!(eq(s, "PT_PHDR") || eq(s, "SHT_DYNAMIC") || eq(s, "PT_ARM_ARCHEXT_ARCHV6") || eq(s, "R_ARM_ABS12") || eq(s, "R_PPC_ADDR16_HA") || eq(s, "R_PPC64_ADDR16_HA") || eq(s, "EF_RISCV_FLOAT_ABI_QUAD") || eq(s, "EF_RISCV_FLOAT_ABI_MASK") || eq(s, "R_RISCV_TLS_DTPMOD32") || eq(s, "R_X86_64_GLOB_DAT"), "sh_type_to_str(6)"); }
        if let Some(s) = elf::to_str::sh_type_to_str(7) { assert!(eq(s, "PT_TLS") || eq(s, "SHT_NOTE") || eq(s, "PT_ARM_ARCHEXT_ARCHV6KZ") || eq(s, "R_ARM_THM_ABS5") || eq(s, "R_PPC_ADDR14") || eq(s, "R_PPC64_ADDR14") || eq(s, "R_RISCV_TLS_DTPMOD64") || eq(s, "R_X86_64_JUMP_SLOT"), "sh_type_to_str(7)"); }
        if let Some(s) = elf::to_str::sh_type_to_str(8) { assert!(eq(s, "SHT_NOBITS") || eq(s, "PT_ARM_ARCHEXT_ARCHV6T2") || eq(s, "R_ARM_ABS8") || eq(s, "R_PPC_ADDR14_BRTAKEN") || eq(s, "R_PPC64_ADDR14_BRTAKEN") || eq(s, "EF_RISCV_RVE") || eq(s, "R_RISCV_TLS_DTPREL32") || eq(s, "R_X86_64_RELATIVE"), "sh_type_to_str(8)"); }
        if let Some(s) = elf::to_str::sh_type_to_str(9) { assert!(eq(s, "SHT_REL") || eq(s, "PT_ARM_ARCHEXT_ARCHV6K") || eq(s, "R_ARM_SBREL32") || eq(s, "R_PPC_ADDR14_BRNTAKEN") || eq(s, "R_PPC64_ADDR14_BRNTAKEN") || eq(s, "R_RISCV_TLS_DTPREL64") || eq(s, "R_X86_64_GOTPCREL"), "sh_type_to_str(9)"); }
        if let Some(s) = elf::to_str::sh_type_to_str(10) { assert!(eq(s, "SHT_SHLIB") || eq(s, "PT_ARM_ARCHEXT_ARCHV7") || eq(s, "R_ARM_THM_CALL") || eq(s, "R_PPC_REL24") || eq(s, "R_PPC64_REL24") || eq(s, "R_RISCV_TLS_TPREL32") || eq(s, "R_X86_64_32"), "sh_type_to_str(10)"); }
        if let Some(s) = elf::to_str::sh_type_to_str(11) { assert!(eq(s, "SHT_DYNSYM") || eq(s, "PT_ARM_ARCHEXT_ARCHV6M") || eq(s, "R_ARM_THM_PC8") || eq(s, "R_PPC_REL14") || eq(s, "R_PPC64_REL14") || eq(s, "R_RISCV_TLS_TPREL64") || eq(s, "R_X86_64_32S"), "sh_type_to_str(11)"); }
        if let Some(s) = elf::to_str::sh_type_to_str(12) { assert!(eq(s, "PT_ARM_ARCHEXT_ARCHV6SM") || eq(s, "R_ARM_BREL_ADJ") || eq(s, "R_PPC_REL14_BRTAKEN") || eq(s, "R_PPC64_REL14_BRTAKEN") || eq(s, "R_X86_64_16"), "sh_type_to_str(12)"); }
        if let Some(s) = elf::to_str::sh_type_to_str(13) { assert!(eq(s, "PT_ARM_ARCHEXT_ARCHV7EM") || eq(s, "R_ARM_TLS_DESC") || eq(s, "R_PPC_REL14_BRNTAKEN") || eq(s, "R_PPC64_REL14_BRNTAKEN") || eq(s, "R_X86_64_PC16"), "sh_type_to_str(13)"); }
        if let Some(s) = elf::to_str::sh_type_to_str(14) { assert!(eq(s, "SHT_INIT_ARRAY") || eq(s, "R_ARM_THM_SWI8") || eq(s, "R_PPC_GOT16") || eq(s, "R_PPC64_GOT16") || eq(s, "R_X86_64_8"), "sh_type_to_str(14)"); }
        if let Some(s) = elf::to_str::sh_type_to_str(15) { assert!(eq(s, "SHT_FINI_ARRAY") || eq(s, "R_ARM_XPC25") || eq(s, "R_PPC_GOT16_LO") || eq(s, "R_PPC64_GOT16_LO") || eq(s, "R_X86_64_PC8"), "sh_type_to_str(15)"); }
        if let Some(s) = elf::to_str::sh_type_to_str(16) { assert!(eq(s, "SHT_PREINIT_ARRAY") || eq(s, "SHF_MERGE") || eq(s, "R_ARM_THM_XPC22") || eq(s, "R_PPC_GOT16_HI") || eq(s, "R_PPC64_GOT16_HI") || eq(s, "EF_RISCV_TSO") || eq(s, "R_RISCV_BRANCH") || eq(s, "R_X86_64_DTPMOD64"), "sh_type_to_str(16)"); }
        if let Some(s) = elf::to_str::sh_type_to_str(17) { assert!(eq(s, "SHT_GROUP") || eq(s, "R_ARM_TLS_DTPMOD32") || eq(s, "R_PPC_GOT16_HA") || eq(s, "R_PPC64_GOT16_HA") || eq(s, "R_RISCV_JAL") || eq(s, "R_X86_64_DTPOFF64"), "sh_type_to_str(17)"); }
        if let Some(s) = elf::to_str::sh_type_to_str(18) { assert!(eq(s, "SHT_SYMTAB_SHNDX") || eq(s, "R_ARM_TLS_DTPOFF32") || eq(s, "R_PPC_PLTREL24") || eq(s, "R_RISCV_CALL") || eq(s, "R_X86_64_TPOFF64"), "sh_type_to_str(18)"); }
        if let Some(s) = elf::to_str::sh_type_to_str(19) { assert!(eq(s, "R_ARM_TLS_TPOFF32") || eq(s, "R_PPC_COPY") || eq(s, "R_PPC64_COPY") || eq(s, "R_RISCV_CALL_PLT") || eq(s, "R_X86_64_TLSGD"), "sh_type_to_str(19)"); }
        if let Some(s) = elf::to_str::sh_type_to_str(20) { assert!(eq(s, "R_ARM_COPY") || eq(s, "R_PPC_GLOB_DAT") || eq(s, "R_PPC64_GLOB_DAT") || eq(s, "R_RISCV_GOT_HI20") || eq(s, "R_X86_64_TLSLD"), "sh_type_to_str(20)"); }
        if let Some(s) = elf::to_str::sh_type_to_str(21) { assert!(eq(s, "R_ARM_GLOB_DAT") || eq(s, "R_PPC_JMP_SLOT") || eq(s, "R_PPC64_JMP_SLOT") || eq(s, "R_RISCV_TLS_GOT_HI20") || eq(s, "R_X86_64_DTPOFF32"), "sh_type_to_str(21)"); }
        if let Some(s) = elf::to_str::sh_type_to_str(22) { assert!(eq(s, "R_ARM_JUMP_SLOT") || eq(s, "R_PPC_RELATIVE") || eq(s, "R_PPC64_RELATIVE") || eq(s, "R_RISCV_TLS_GD_HI20") || eq(s, "R_X86_64_GOTTPOFF"), "sh_type_to_str(22)"); }
        if let Some(s) = elf::to_str::sh_type_to_str(23) { assert!(eq(s, "R_ARM_RELATIVE") || eq(s, "R_PPC_LOCAL24PC") || eq(s, "R_RISCV_PCREL_HI20") || eq(s, "R_X86_64_TPOFF32"), "sh_type_to_str(23)"); }
        if let Some(s) = elf::to_str::sh_type_to_str(24) { assert!(eq(s, "R_ARM_GOTOFF32") || eq(s, "R_PPC_UADDR32") || eq(s, "R_PPC64_UADDR32") || eq(s, "R_RISCV_PCREL_LO12_I") || eq(s, "R_X86_64_PC64"), "sh_type_to_str(24)"); }
        if let Some(s) = elf::to_str::sh_type_to_str(25) { assert!(eq(s, "R_ARM_BASE_PREL") || eq(s, "R_PPC_UADDR16") || eq(s, "R_PPC64_UADDR16") || eq(s, "R_RISCV_PCREL_LO12_S") || eq(s, "R_X86_64_GOTOFF64"), "sh_type_to_str(25)"); }
        if let Some(s) = elf::to_str::sh_type_to_str(26) { assert!(eq(s, "R_ARM_BASE_BREL") || eq(s, "R_PPC_REL32") || eq(s, "R_PPC64_REL32") || eq(s, "R_RISCV_HI20") || eq(s, "R_X86_64_GOTPC32"), "sh_type_to_str(26)"); }
        if let Some(s) = elf::to_str::sh_type_to_str(27) { assert!(eq(s, "R_ARM_PLT32") || eq(s, "R_PPC_PLT32") || eq(s, "R_PPC64_PLT32") || eq(s, "R_RISCV_LO12_I") || eq(s, "R_X86_64_GOT64"), "sh_type_to_str(27)"); }
        if let Some(s) = elf::to_str::sh_type_to_str(28) { assert!(eq(s, "R_ARM_CALL") || eq(s, "R_PPC_PLTREL32") || eq(s, "R_PPC64_PLTREL32") || eq(s, "R_RISCV_LO12_S") || eq(s, "R_X86_64_GOTPCREL64"), "sh_type_to_str(28)"); }
        if let Some(s) = elf::to_str::sh_type_to_str(29) { assert!(eq(s, "R_ARM_JUMP24") || eq(s, "R_PPC_PLT16_LO") || eq(s, "R_PPC64_PLT16_LO") || eq(s, "R_RISCV_TPREL_HI20") || eq(s, "R_X86_64_GOTPC64"), "sh_type_to_str(29)"); }
        if let Some(s) = elf::to_str::sh_type_to_str(30) { assert!(eq(s, "R_ARM_THM_JUMP24") || eq(s, "R_PPC_PLT16_HI") || eq(s, "R_PPC64_PLT16_HI") || eq(s, "R_RISCV_TPREL_LO12_I"), "sh_type_to_str(30)"); }
        if let Some(s) = elf::to_str::sh_type_to_str(31) { assert!(eq(s, "R_ARM_BASE_ABS") || eq(s, "R_PPC_PLT16_HA") || eq(s, "R_PPC64_PLT16_HA") || eq(s, "R_RISCV_TPREL_LO12_S") || eq(s, "R_X86_64_PLTOFF64"), "sh_type_to_str(31)"); }
        if let Some(s) = elf::to_str::sh_type_to_str(32) { assert!(eq(s, "SHF_STRINGS") || eq(s, "R_ARM_ALU_PCREL_7_0") || eq(s, "R_PPC_SDAREL16") || eq(s, "R_RISCV_TPREL_ADD") || eq(s, "R_X86_64_SIZE32"), "sh_type_to_str(32)"); }
        if let Some(s) = elf::to_str::sh_type_to_str(33) { assert!(eq(s, "R_ARM_ALU_PCREL_15_8") || eq(s, "R_PPC_SECTOFF") || eq(s, "R_PPC64_SECTOFF") || eq(s, "R_RISCV_ADD8") || eq(s, "R_X86_64_SIZE64"), "sh_type_to_str(33)"); }
        if let Some(s) = elf::to_str::sh_type_to_str(34) { assert!(eq(s, "R_ARM_ALU_PCREL_23_15") || eq(s, "R_PPC_SECTOFF_LO") || eq(s, "R_PPC64_SECTOFF_LO") || eq(s, "R_RISCV_ADD16") || eq(s, "R_X86_64_GOTPC32_TLSDESC"), "sh_type_to_str(34)"); }
        if let Some(s) = elf::to_str::sh_type_to_str(35) { assert!(eq(s, "R_ARM_LDR_SBREL_11_0") || eq(s, "R_PPC_SECTOFF_HI") || eq(s, "R_PPC64_SECTOFF_HI") || eq(s, "R_RISCV_ADD32") || eq(s, "R_X86_64_TLSDESC_CALL"), "sh_type_to_str(35)"); }
        if let Some(s) = elf::to_str::sh_type_to_str(36) { assert!(eq(s, "R_ARM_ALU_SBREL_19_12") || eq(s, "R_PPC_SECTOFF_HA") || eq(s, "R_PPC64_SECTOFF_HA") || eq(s, "R_RISCV_ADD64") || eq(s, "R_X86_64_TLSDESC"), "sh_type_to_str(36)"); }
        if let Some(s) = elf::to_str::sh_type_to_str(37) { assert!(eq(s, "R_ARM_ALU_SBREL_27_20") || eq(s, "R_PPC64_ADDR30") || eq(s, "R_RISCV_SUB8") || eq(s, "R_X86_64_IRELATIVE"), "sh_type_to_str(37)"); }
        if let Some(s) = elf::to_str::sh_type_to_str(38) { assert!(eq(s, "R_ARM_TARGET1") || eq(s, "R_PPC64_ADDR64") || eq(s, "R_RISCV_SUB16") || eq(s, "R_X86_64_RELATIVE64"), "sh_type_to_str(38)"); }
        if let Some(s) = elf::to_str::sh_type_to_str(39) { assert!(eq(s, "R_ARM_SBREL31") || eq(s, "R_PPC64_ADDR16_HIGHER") || eq(s, "R_RISCV_SUB32"), "sh_type_to_str(39)"); }
        if let Some(s) = elf::to_str::sh_type_to_str(40) { assert!(eq(s, "R_ARM_V4BX") || eq(s, "R_PPC64_ADDR16_HIGHERA") || eq(s, "R_RISCV_SUB64"), "sh_type_to_str(40)"); }
        if let Some(s) = elf::to_str::sh_type_to_str(41) { assert!(eq(s, "R_ARM_TARGET2") || eq(s, "R_PPC64_ADDR16_HIGHEST") || eq(s, "R_X86_64_GOTPCRELX"), "sh_type_to_str(41)"); }
        if let Some(s) = elf::to_str::sh_type_to_str(42) { assert!(eq(s, "R_ARM_PREL31") || eq(s, "R_PPC64_ADDR16_HIGHESTA") || eq(s, "R_X86_64_REX_GOTPCRELX"), "sh_type_to_str(42)"); }
        if let Some(s) = elf::to_str::sh_type_to_str(43) { assert!(eq(s, "R_ARM_MOVW_ABS_NC") || eq(s, "R_PPC64_UADDR64") || eq(s, "R_RISCV_ALIGN"), "sh_type_to_str(43)"); }
        if let Some(s) = elf::to_str::sh_type_to_str(44) { assert!(eq(s, "R_ARM_MOVT_ABS") || eq(s, "R_PPC64_REL64") || eq(s, "R_RISCV_RVC_BRANCH"), "sh_type_to_str(44)"); }
        if let Some(s) = elf::to_str::sh_type_to_str(45) { assert!(eq(s, "R_ARM_MOVW_PREL_NC") || eq(s, "R_PPC64_PLT64") || eq(s, "R_RISCV_RVC_JUMP"), "sh_type_to_str(45)"); }
        if let Some(s) = elf::to_str::sh_type_to_str(46) { assert!(eq(s, "R_ARM_MOVT_PREL") || eq(s, "R_PPC64_PLTREL64") || eq(s, "R_RISCV_RVC_LUI"), "sh_type_to_str(46)"); }
        if let Some(s) = elf::to_str::sh_type_to_str(47) { assert!(eq(s, "R_ARM_THM_MOVW_ABS_NC") || eq(s, "R_PPC64_TOC16"), "sh_type_to_str(47)"); }
        if let Some(s) = elf::to_str::sh_type_to_str(48) { assert!(eq(s, "R_ARM_THM_MOVT_ABS") || eq(s, "R_PPC64_TOC16_LO"), "sh_type_to_str(48)"); }
        if let Some(s) = elf::to_str::sh_type_to_str(49) { assert!(eq(s, "R_ARM_THM_MOVW_PREL_NC") || eq(s, "R_PPC64_TOC16_HI"), "sh_type_to_str(49)"); }
        if let Some(s) = elf::to_str::sh_type_to_str(50) { assert!(eq(s, "R_ARM_THM_MOVT_PREL") || eq(s, "R_PPC64_TOC16_HA"), "sh_type_to_str(50)"); }
        if let Some(s) = elf::to_str::sh_type_to_str(51) { assert!(eq(s, "R_ARM_THM_JUMP19") || eq(s, "R_PPC64_TOC") || eq(s, "R_RISCV_RELAX"), "sh_type_to_str(51)"); }
        if let Some(s) = elf::to_str::sh_type_to_str(52) { assert!(eq(s, "R_ARM_THM_JUMP6") || eq(s, "R_PPC64_PLTGOT16") || eq(s, "R_RISCV_SUB6"), "sh_type_to_str(52)"); }
        if let Some(s) = elf::to_str::sh_type_to_str(53) { assert!(eq(s, "R_ARM_THM_ALU_PREL_11_0") || eq(s, "R_PPC64_PLTGOT16_LO") || eq(s, "R_RISCV_SET6"), "sh_type_to_str(53)"); }
        if let Some(s) = elf::to_str::sh_type_to_str(54) { assert!(eq(s, "R_ARM_THM_PC12") || eq(s, "R_PPC64_PLTGOT16_HI") || eq(s, "R_RISCV_SET8"), "sh_type_to_str(54)"); }
        if let Some(s) = elf::to_str::sh_type_to_str(55) { assert!(eq(s, "R_ARM_ABS32_NOI") || eq(s, "R_PPC64_PLTGOT16_HA") || eq(s, "R_RISCV_SET16"), "sh_type_to_str(55)"); }
        if let Some(s) = elf::to_str::sh_type_to_str(56) { assert!(eq(s, "R_ARM_REL32_NOI") || eq(s, "R_PPC64_ADDR16_DS") || eq(s, "R_RISCV_SET32"), "sh_type_to_str(56)"); }
        if let Some(s) = elf::to_str::sh_type_to_str(57) { assert!(eq(s, "R_ARM_ALU_PC_G0_NC") || eq(s, "R_PPC64_ADDR16_LO_DS") || eq(s, "R_RISCV_32_PCREL"), "sh_type_to_str(57)"); }
        if let Some(s) = elf::to_str::sh_type_to_str(58) { assert!(eq(s, "R_ARM_ALU_PC_G0") || eq(s, "R_PPC64_GOT16_DS") || eq(s, "R_RISCV_IRELATIVE"), "sh_type_to_str(58)"); }
        if let Some(s) = elf::to_str::sh_type_to_str(59) { assert!(eq(s, "R_ARM_ALU_PC_G1_NC") || eq(s, "R_PPC64_GOT16_LO_DS"), "sh_type_to_str(59)"); }
    }
    #[kani::proof]
    #[kani::unwind(41)]
    pub fn sh_type_to_str_names_01() {
        if let Some(s) = elf::to_str::sh_type_to_str(60) { assert!(eq(s, "R_ARM_ALU_PC_G1") || eq(s, "R_PPC64_PLT16_LO_DS") || eq(s, "R_PPC64_TPREL16_LO"), "sh_type_to_str(60)"); }
        if let Some(s) = elf::to_str::sh_type_to_str(61) { assert!(eq(s, "R_ARM_ALU_PC_G2") || eq(s, "R_PPC64_SECTOFF_DS"), "sh_type_to_str(61)"); }
        if let Some(s) = elf::to_str::sh_type_to_str(62) { assert!(eq(s, "R_ARM_LDR_PC_G1") || eq(s, "R_PPC64_SECTOFF_LO_DS"), "sh_type_to_str(62)"); }
        if let Some(s) = elf::to_str::sh_type_to_str(63) { assert!(eq(s, "R_ARM_LDR_PC_G2") || eq(s, "R_PPC64_TOC16_DS"), "sh_type_to_str(63)"); }
        if let Some(s) = elf::to_str::sh_type_to_str(64) { assert!(eq(s, "SHF_INFO_LINK") || eq(s, "R_ARM_LDRS_PC_G0") || eq(s, "R_PPC64_TOC16_LO_DS"), "sh_type_to_str(64)"); }
        if let Some(s) = elf::to_str::sh_type_to_str(65) { assert!(eq(s, "R_ARM_LDRS_PC_G1") || eq(s, "R_PPC64_PLTGOT16_DS"), "sh_type_to_str(65)"); }
        if let Some(s) = elf::to_str::sh_type_to_str(66) { assert!(eq(s, "R_ARM_LDRS_PC_G2") || eq(s, "R_PPC64_PLTGOT16_LO_DS"), "sh_type_to_str(66)"); }
        if let Some(s) = elf::to_str::sh_type_to_str(67) { assert!(eq(s, "R_ARM_LDC_PC_G0") || eq(s, "R_PPC_TLS") || eq(s, "R_PPC64_TLS"), "sh_type_to_str(67)"); }
        if let Some(s) = elf::to_str::sh_type_to_str(68) { assert!(eq(s, "R_ARM_LDC_PC_G1") || eq(s, "R_PPC_DTPMOD32") || eq(s, "R_PPC64_DTPMOD64"), "sh_type_to_str(68)"); }
        if let Some(s) = elf::to_str::sh_type_to_str(69) { assert!(eq(s, "R_ARM_LDC_PC_G2") || eq(s, "R_PPC_TPREL16") || eq(s, "R_PPC64_TPREL16"), "sh_type_to_str(69)"); }
        if let Some(s) = elf::to_str::sh_type_to_str(70) { assert!(eq(s, "R_ARM_ALU_SB_G0_NC") || eq(s, "R_PPC_TPREL16_LO"), "sh_type_to_str(70)"); }
        if let Some(s) = elf::to_str::sh_type_to_str(71) { assert!(eq(s, "R_ARM_ALU_SB_G0") || eq(s, "R_PPC_TPREL16_HI") || eq(s, "R_PPC64_TPREL16_HI"), "sh_type_to_str(71)"); }
        if let Some(s) = elf::to_str::sh_type_to_str(72) { assert!(eq(s, "R_ARM_ALU_SB_G1_NC") || eq(s, "R_PPC_TPREL16_HA") || eq(s, "R_PPC64_TPREL16_HA"), "sh_type_to_str(72)"); }
        if let Some(s) = elf::to_str::sh_type_to_str(73) { assert!(eq(s, "R_ARM_ALU_SB_G1") || eq(s, "R_PPC_TPREL32") || eq(s, "R_PPC64_TPREL64"), "sh_type_to_str(73)"); }
        if let Some(s) = elf::to_str::sh_type_to_str(74) { assert!(eq(s, "R_ARM_ALU_SB_G2") || eq(s, "R_PPC_DTPREL16") || eq(s, "R_PPC64_DTPREL16"), "sh_type_to_str(74)"); }
        if let Some(s) = elf::to_str::sh_type_to_str(75) { assert!(eq(s, "R_ARM_LDR_SB_G0") || eq(s, "R_PPC_DTPREL16_LO") || eq(s, "R_PPC64_DTPREL16_LO"), "sh_type_to_str(75)"); }
        if let Some(s) = elf::to_str::sh_type_to_str(76) { assert!(eq(s, "R_ARM_LDR_SB_G1") || eq(s, "R_PPC_DTPREL16_HI") || eq(s, "R_PPC64_DTPREL16_HI"), "sh_type_to_str(76)"); }
        if let Some(s) = elf::to_str::sh_type_to_str(77) { assert!(eq(s, "R_ARM_LDR_SB_G2") || eq(s, "R_PPC_DTPREL16_HA") || eq(s, "R_PPC64_DTPREL16_HA"), "sh_type_to_str(77)"); }
        if let Some(s) = elf::to_str::sh_type_to_str(78) { assert!(eq(s, "R_ARM_LDRS_SB_G0") || eq(s, "R_PPC_DTPREL32") || eq(s, "R_PPC64_DTPREL64"), "sh_type_to_str(78)"); }
        if let Some(s) = elf::to_str::sh_type_to_str(79) { assert!(eq(s, "R_ARM_LDRS_SB_G1") || eq(s, "R_PPC_GOT_TLSGD16") || eq(s, "R_PPC64_GOT_TLSGD16"), "sh_type_to_str(79)"); }
        if let Some(s) = elf::to_str::sh_type_to_str(80) { assert!(eq(s, "R_ARM_LDRS_SB_G2") || eq(s, "R_PPC_GOT_TLSGD16_LO") || eq(s, "R_PPC64_GOT_TLSGD16_LO"), "sh_type_to_str(80)"); }
        if let Some(s) = elf::to_str::sh_type_to_str(81) { assert!(eq(s, "R_ARM_LDC_SB_G0") || eq(s, "R_PPC_GOT_TLSGD16_HI") || eq(s, "R_PPC64_GOT_TLSGD16_HI"), "sh_type_to_str(81)"); }
        if let Some(s) = elf::to_str::sh_type_to_str(82) { assert!(eq(s, "R_ARM_LDC_SB_G1") || eq(s, "R_PPC_GOT_TLSGD16_HA") || eq(s, "R_PPC64_GOT_TLSGD16_HA"), "sh_type_to_str(82)"); }
        if let Some(s) = elf::to_str::sh_type_to_str(83) { assert!(eq(s, "R_ARM_LDC_SB_G2") || eq(s, "R_PPC_GOT_TLSLD16") || eq(s, "R_PPC64_GOT_TLSLD16"), "sh_type_to_str(83)"); }
        if let Some(s) = elf::to_str::sh_type_to_str(84) { assert!(eq(s, "R_ARM_MOVW_BREL_NC") || eq(s, "R_PPC_GOT_TLSLD16_LO") || eq(s, "R_PPC64_GOT_TLSLD16_LO"), "sh_type_to_str(84)"); }
        if let Some(s) = elf::to_str::sh_type_to_str(85) { assert!(eq(s, "R_ARM_MOVT_BREL") || eq(s, "R_PPC_GOT_TLSLD16_HI") || eq(s, "R_PPC64_GOT_TLSLD16_HI"), "sh_type_to_str(85)"); }
        if let Some(s) = elf::to_str::sh_type_to_str(86) { assert!(eq(s, "R_ARM_MOVW_BREL") || eq(s, "R_PPC_GOT_TLSLD16_HA") || eq(s, "R_PPC64_GOT_TLSLD16_HA"), "sh_type_to_str(86)"); }
        if let Some(s) = elf::to_str::sh_type_to_str(87) { assert!(eq(s, "R_ARM_THM_MOVW_BREL_NC") || eq(s, "R_PPC_GOT_TPREL16") || eq(s, "R_PPC64_GOT_TPREL16_DS"), "sh_type_to_str(87)"); }
        if let Some(s) = elf::to_str::sh_type_to_str(88) { assert!(eq(s, "R_ARM_THM_MOVT_BREL") || eq(s, "R_PPC_GOT_TPREL16_LO") || eq(s, "R_PPC64_GOT_TPREL16_LO_DS"), "sh_type_to_str(88)"); }
        if let Some(s) = elf::to_str::sh_type_to_str(89) { assert!(eq(s, "R_ARM_THM_MOVW_BREL") || eq(s, "R_PPC_GOT_TPREL16_HI") || eq(s, "R_PPC64_GOT_TPREL16_HI"), "sh_type_to_str(89)"); }
        if let Some(s) = elf::to_str::sh_type_to_str(90) { assert!(eq(s, "R_ARM_TLS_GOTDESC") || eq(s, "R_PPC_GOT_TPREL16_HA") || eq(s, "R_PPC64_GOT_TPREL16_HA"), "sh_type_to_str(90)"); }
        if let Some(s) = elf::to_str::sh_type_to_str(91) { assert!(eq(s, "R_ARM_TLS_CALL") || eq(s, "R_PPC_GOT_DTPREL16") || eq(s, "R_PPC64_GOT_DTPREL16_DS"), "sh_type_to_str(91)"); }
        if let Some(s) = elf::to_str::sh_type_to_str(92) { assert!(eq(s, "R_ARM_TLS_DESCSEQ") || eq(s, "R_PPC_GOT_DTPREL16_LO") || eq(s, "R_PPC64_GOT_DTPREL16_LO_DS"), "sh_type_to_str(92)"); }
        if let Some(s) = elf::to_str::sh_type_to_str(93) { assert!(eq(s, "R_ARM_THM_TLS_CALL") || eq(s, "R_PPC_GOT_DTPREL16_HI") || eq(s, "R_PPC64_GOT_DTPREL16_HI"), "sh_type_to_str(93)"); }
        if let Some(s) = elf::to_str::sh_type_to_str(94) { assert!(eq(s, "R_ARM_PLT32_ABS") || eq(s, "R_PPC_GOT_DTPREL16_HA") || eq(s, "R_PPC64_GOT_DTPREL16_HA"), "sh_type_to_str(94)"); }
        if let Some(s) = elf::to_str::sh_type_to_str(95) { assert!(eq(s, "R_ARM_GOT_ABS") || eq(s, "R_PPC_TLSGD") || eq(s, "R_PPC64_TPREL16_DS"), "sh_type_to_str(95)"); }
        if let Some(s) = elf::to_str::sh_type_to_str(96) { assert!(eq(s, "R_ARM_GOT_PREL") || eq(s, "R_PPC_TLSLD") || eq(s, "R_PPC64_TPREL16_LO_DS"), "sh_type_to_str(96)"); }
        if let Some(s) = elf::to_str::sh_type_to_str(97) { assert!(eq(s, "R_ARM_GOT_BREL12") || eq(s, "R_PPC64_TPREL16_HIGHER"), "sh_type_to_str(97)"); }
        if let Some(s) = elf::to_str::sh_type_to_str(98) { assert!(eq(s, "R_ARM_GOTOFF12") || eq(s, "R_PPC64_TPREL16_HIGHERA"), "sh_type_to_str(98)"); }
        if let Some(s) = elf::to_str::sh_type_to_str(99) { assert!(eq(s, "R_ARM_GOTRELAX") || eq(s, "R_PPC64_TPREL16_HIGHEST"), "sh_type_to_str(99)"); }
        if let Some(s) = elf::to_str::sh_type_to_str(100) { assert!(eq(s, "R_ARM_GNU_VTENTRY") || eq(s, "R_PPC64_TPREL16_HIGHESTA"), "sh_type_to_str(100)"); }
        if let Some(s) = elf::to_str::sh_type_to_str(101) { assert!(eq(s, "R_ARM_GNU_VTINHERIT") || eq(s, "R_PPC_EMB_NADDR32") || eq(s, "R_PPC64_DTPREL16_DS"), "sh_type_to_str(101)"); }
        if let Some(s) = elf::to_str::sh_type_to_str(102) { assert!(eq(s, "R_ARM_THM_JUMP11") || eq(s, "R_PPC_EMB_NADDR16") || eq(s, "R_PPC64_DTPREL16_LO_DS"), "sh_type_to_str(102)"); }
        if let Some(s) = elf::to_str::sh_type_to_str(103) { assert!(eq(s, "R_ARM_THM_JUMP8") || eq(s, "R_PPC_EMB_NADDR16_LO") || eq(s, "R_PPC64_DTPREL16_HIGHER"), "sh_type_to_str(103)"); }
        if let Some(s) = elf::to_str::sh_type_to_str(104) { assert!(eq(s, "R_ARM_TLS_GD32") || eq(s, "R_PPC_EMB_NADDR16_HI") || eq(s, "R_PPC64_DTPREL16_HIGHERA"), "sh_type_to_str(104)"); }
        if let Some(s) = elf::to_str::sh_type_to_str(105) { assert!(eq(s, "R_ARM_TLS_LDM32") || eq(s, "R_PPC_EMB_NADDR16_HA") || eq(s, "R_PPC64_DTPREL16_HIGHEST"), "sh_type_to_str(105)"); }
        if let Some(s) = elf::to_str::sh_type_to_str(106) { assert!(eq(s, "R_ARM_TLS_LDO32") || eq(s, "R_PPC_EMB_SDAI16") || eq(s, "R_PPC64_DTPREL16_HIGHESTA"), "sh_type_to_str(106)"); }
        if let Some(s) = elf::to_str::sh_type_to_str(107) { assert!(eq(s, "R_ARM_TLS_IE32") || eq(s, "R_PPC_EMB_SDA2I16") || eq(s, "R_PPC64_TLSGD"), "sh_type_to_str(107)"); }
        if let Some(s) = elf::to_str::sh_type_to_str(108) { assert!(eq(s, "R_ARM_TLS_LE32") || eq(s, "R_PPC_EMB_SDA2REL") || eq(s, "R_PPC64_TLSLD"), "sh_type_to_str(108)"); }
        if let Some(s) = elf::to_str::sh_type_to_str(109) { assert!(eq(s, "R_ARM_TLS_LDO12") || eq(s, "R_PPC_EMB_SDA21") || eq(s, "R_PPC64_TOCSAVE"), "sh_type_to_str(109)"); }
        if let Some(s) = elf::to_str::sh_type_to_str(110) { assert!(eq(s, "R_ARM_TLS_LE12") || eq(s, "R_PPC_EMB_MRKREF") || eq(s, "R_PPC64_ADDR16_HIGH"), "sh_type_to_str(110)"); }
        if let Some(s) = elf::to_str::sh_type_to_str(111) { assert!(eq(s, "R_ARM_TLS_IE12GP") || eq(s, "R_PPC_EMB_RELSEC16") || eq(s, "R_PPC64_ADDR16_HIGHA"), "sh_type_to_str(111)"); }
        if let Some(s) = elf::to_str::sh_type_to_str(112) { assert!(eq(s, "R_PPC_EMB_RELST_LO") || eq(s, "R_PPC64_TPREL16_HIGH"), "sh_type_to_str(112)"); }
        if let Some(s) = elf::to_str::sh_type_to_str(113) { assert!(eq(s, "R_PPC_EMB_RELST_HI") || eq(s, "R_PPC64_TPREL16_HIGHA"), "sh_type_to_str(113)"); }
        if let Some(s) = elf::to_str::sh_type_to_str(114) { assert!(eq(s, "R_PPC_EMB_RELST_HA") || eq(s, "R_PPC64_DTPREL16_HIGH"), "sh_type_to_str(114)"); }
        if let Some(s) = elf::to_str::sh_type_to_str(115) { assert!(eq(s, "R_PPC_EMB_BIT_FLD") || eq(s, "R_PPC64_DTPREL16_HIGHA"), "sh_type_to_str(115)"); }
        if let Some(s) = elf::to_str::sh_type_to_str(116) { assert!(eq(s, "R_PPC_EMB_RELSDA"), "sh_type_to_str(116)"); }
        if let Some(s) = elf::to_str::sh_type_to_str(128) { assert!(eq(s, "SHF_LINK_ORDER") || eq(s, "R_ARM_ME_TOO"), "sh_type_to_str(128)"); }
        if let Some(s) = elf::to_str::sh_type_to_str(129) { assert!(eq(s, "R_ARM_THM_TLS_DESCSEQ16"), "sh_type_to_str(129)"); }
        if let Some(s) = elf::to_str::sh_type_to_str(130) { assert!(eq(s, "R_ARM_THM_TLS_DESCSEQ32"), "sh_type_to_str(130)"); }
    }
    #[kani::proof]
    #[kani::unwind(41)]
    pub fn sh_type_to_str_names_02() {
        if let Some(s) = elf::to_str::sh_type_to_str(131) { assert!(eq(s, "R_ARM_THM_GOT_BREL12"), "sh_type_to_str(131)"); }
        if let Some(s) = elf::to_str::sh_type_to_str(132) { assert!(eq(s, "R_ARM_THM_ALU_ABS_G0_NC"), "sh_type_to_str(132)"); }
        if let Some(s) = elf::to_str::sh_type_to_str(133) { assert!(eq(s, "R_ARM_THM_ALU_ABS_G1_NC"), "sh_type_to_str(133)"); }
        if let Some(s) = elf::to_str::sh_type_to_str(134) { assert!(eq(s, "R_ARM_THM_ALU_ABS_G2_NC"), "sh_type_to_str(134)"); }
        if let Some(s) = elf::to_str::sh_type_to_str(135) { assert!(eq(s, "R_ARM_THM_ALU_ABS_G3"), "sh_type_to_str(135)"); }
        if let Some(s) = elf::to_str::sh_type_to_str(136) { assert!(eq(s, "R_ARM_THM_BF16"), "sh_type_to_str(136)"); }
        if let Some(s) = elf::to_str::sh_type_to_str(137) { assert!(eq(s, "R_ARM_THM_BF12"), "sh_type_to_str(137)"); }
        if let Some(s) = elf::to_str::sh_type_to_str(138) { assert!(eq(s, "R_ARM_THM_BF18"), "sh_type_to_str(138)"); }
        if let Some(s) = elf::to_str::sh_type_to_str(160) { assert!(eq(s, "R_ARM_IRELATIVE"), "sh_type_to_str(160)"); }
        if let Some(s) = elf::to_str::sh_type_to_str(180) { assert!(eq(s, "R_AARCH64_P32_COPY") || eq(s, "R_PPC_DIAB_SDA21_LO"), "sh_type_to_str(180)"); }
        if let Some(s) = elf::to_str::sh_type_to_str(181) { assert!(eq(s, "R_AARCH64_P32_GLOB_DAT") || eq(s, "R_PPC_DIAB_SDA21_HI"), "sh_type_to_str(181)"); }
        if let Some(s) = elf::to_str::sh_type_to_str(182) { assert!(eq(s, "R_AARCH64_P32_JUMP_SLOT") || eq(s, "R_PPC_DIAB_SDA21_HA"), "sh_type_to_str(182)"); }
        if let Some(s) = elf::to_str::sh_type_to_str(183) { assert!(eq(s, "R_AARCH64_P32_RELATIVE") || eq(s, "R_PPC_DIAB_RELSDA_LO"), "sh_type_to_str(183)"); }
        if let Some(s) = elf::to_str::sh_type_to_str(184) { assert!(eq(s, "R_AARCH64_P32_TLS_DTPMOD") || eq(s, "R_PPC_DIAB_RELSDA_HI"), "sh_type_to_str(184)"); }
        if let Some(s) = elf::to_str::sh_type_to_str(185) { assert!(eq(s, "R_AARCH64_P32_TLS_DTPREL") || eq(s, "R_PPC_DIAB_RELSDA_HA"), "sh_type_to_str(185)"); }
        if let Some(s) = elf::to_str::sh_type_to_str(186) { assert!(eq(s, "R_AARCH64_P32_TLS_TPREL"), "sh_type_to_str(186)"); }
        if let Some(s) = elf::to_str::sh_type_to_str(187) { assert!(eq(s, "R_AARCH64_P32_TLSDESC"), "sh_type_to_str(187)"); }
        if let Some(s) = elf::to_str::sh_type_to_str(188) { assert!(eq(s, "R_AARCH64_P32_IRELATIVE"), "sh_type_to_str(188)"); }
        if let Some(s) = elf::to_str::sh_type_to_str(247) { assert!(eq(s, "R_PPC64_JMP_IREL"), "sh_type_to_str(247)"); }
        if let Some(s) = elf::to_str::sh_type_to_str(248) { assert!(eq(s, "R_PPC_IRELATIVE") || eq(s, "R_PPC64_IRELATIVE"), "sh_type_to_str(248)"); }
        if let Some(s) = elf::to_str::sh_type_to_str(249) { assert!(eq(s, "R_PPC_REL16") || eq(s, "R_PPC64_REL16"), "sh_type_to_str(249)"); }
        if let Some(s) = elf::to_str::sh_type_to_str(250) { assert!(eq(s, "R_PPC_REL16_LO") || eq(s, "R_PPC64_REL16_LO"), "sh_type_to_str(250)"); }
        if let Some(s) = elf::to_str::sh_type_to_str(251) { assert!(eq(s, "R_PPC_REL16_HI") || eq(s, "R_PPC64_REL16_HI"), "sh_type_to_str(251)"); }
        if let Some(s) = elf::to_str::sh_type_to_str(252) { assert!(eq(s, "R_PPC_REL16_HA") || eq(s, "R_PPC64_REL16_HA"), "sh_type_to_str(252)"); }
        if let Some(s) = elf::to_str::sh_type_to_str(255) { assert!(eq(s, "PT_ARM_ARCHEXT_ARCHMSK") || eq(s, "R_PPC_TOC16"), "sh_type_to_str(255)"); }
        if let Some(s) = elf::to_str::sh_type_to_str(256) { assert!(eq(s, "SHF_OS_NONCONFORMING"), "sh_type_to_str(256)"); }
        if let Some(s) = elf::to_str::sh_type_to_str(257) { assert!(eq(s, "R_AARCH64_ABS64"), "sh_type_to_str(257)"); }
        if let Some(s) = elf::to_str::sh_type_to_str(258) { assert!(eq(s, "R_AARCH64_ABS32"), "sh_type_to_str(258)"); }
        if let Some(s) = elf::to_str::sh_type_to_str(259) { assert!(eq(s, "R_AARCH64_ABS16"), "sh_type_to_str(259)"); }
        if let Some(s) = elf::to_str::sh_type_to_str(260) { assert!(eq(s, "R_AARCH64_PREL64"), "sh_type_to_str(260)"); }
        if let Some(s) = elf::to_str::sh_type_to_str(261) { assert!(eq(s, "R_AARCH64_PREL32"), "sh_type_to_str(261)"); }
        if let Some(s) = elf::to_str::sh_type_to_str(262) { assert!(eq(s, "R_AARCH64_PREL16"), "sh_type_to_str(262)"); }
        if let Some(s) = elf::to_str::sh_type_to_str(263) { assert!(eq(s, "R_AARCH64_MOVW_UABS_G0"), "sh_type_to_str(263)"); }
        if let Some(s) = elf::to_str::sh_type_to_str(264) { assert!(eq(s, "R_AARCH64_MOVW_UABS_G0_NC"), "sh_type_to_str(264)"); }
        if let Some(s) = elf::to_str::sh_type_to_str(265) { assert!(eq(s, "R_AARCH64_MOVW_UABS_G1"), "sh_type_to_str(265)"); }
        if let Some(s) = elf::to_str::sh_type_to_str(266) { assert!(eq(s, "R_AARCH64_MOVW_UABS_G1_NC"), "sh_type_to_str(266)"); }
        if let Some(s) = elf::to_str::sh_type_to_str(267) { assert!(eq(s, "R_AARCH64_MOVW_UABS_G2"), "sh_type_to_str(267)"); }
        if let Some(s) = elf::to_str::sh_type_to_str(268) { assert!(eq(s, "R_AARCH64_MOVW_UABS_G2_NC"), "sh_type_to_str(268)"); }
        if let Some(s) = elf::to_str::sh_type_to_str(269) { assert!(eq(s, "R_AARCH64_MOVW_UABS_G3"), "sh_type_to_str(269)"); }
        if let Some(s) = elf::to_str::sh_type_to_str(270) { assert!(eq(s, "R_AARCH64_MOVW_SABS_G0"), "sh_type_to_str(270)"); }
        if let Some(s) = elf::to_str::sh_type_to_str(271) { assert!(eq(s, "R_AARCH64_MOVW_SABS_G1"), "sh_type_to_str(271)"); }
        if let Some(s) = elf::to_str::sh_type_to_str(272) { assert!(eq(s, "R_AARCH64_MOVW_SABS_G2"), "sh_type_to_str(272)"); }
        if let Some(s) = elf::to_str::sh_type_to_str(273) { assert!(eq(s, "R_AARCH64_LD_PREL_LO19"), "sh_type_to_str(273)"); }
        if let Some(s) = elf::to_str::sh_type_to_str(274) { assert!(eq(s, "R_AARCH64_ADR_PREL_LO21"), "sh_type_to_str(274)"); }
        if let Some(s) = elf::to_str::sh_type_to_str(275) { assert!(eq(s, "R_AARCH64_ADR_PREL_PG_HI21"), "sh_type_to_str(275)"); }
        if let Some(s) = elf::to_str::sh_type_to_str(276) { assert!(eq(s, "R_AARCH64_ADR_PREL_PG_HI21_NC"), "sh_type_to_str(276)"); }
        if let Some(s) = elf::to_str::sh_type_to_str(277) { assert!(eq(s, "R_AARCH64_ADD_ABS_LO12_NC"), "sh_type_to_str(277)"); }
        if let Some(s) = elf::to_str::sh_type_to_str(278) { assert!(eq(s, "R_AARCH64_LDST8_ABS_LO12_NC"), "sh_type_to_str(278)"); }
        if let Some(s) = elf::to_str::sh_type_to_str(279) { assert!(eq(s, "R_AARCH64_TSTBR14"), "sh_type_to_str(279)"); }
        if let Some(s) = elf::to_str::sh_type_to_str(280) { assert!(eq(s, "R_AARCH64_CONDBR19"), "sh_type_to_str(280)"); }
        if let Some(s) = elf::to_str::sh_type_to_str(282) { assert!(eq(s, "R_AARCH64_JUMP26"), "sh_type_to_str(282)"); }
        if let Some(s) = elf::to_str::sh_type_to_str(283) { assert!(eq(s, "R_AARCH64_CALL26"), "sh_type_to_str(283)"); }
        if let Some(s) = elf::to_str::sh_type_to_str(284) { assert!(eq(s, "R_AARCH64_LDST16_ABS_LO12_NC"), "sh_type_to_str(284)"); }
        if let Some(s) = elf::to_str::sh_type_to_str(285) { assert!(eq(s, "R_AARCH64_LDST32_ABS_LO12_NC"), "sh_type_to_str(285)"); }
        if let Some(s) = elf::to_str::sh_type_to_str(286) { assert!(eq(s, "R_AARCH64_LDST64_ABS_LO12_NC"), "sh_type_to_str(286)"); }
        if let Some(s) = elf::to_str::sh_type_to_str(287) { assert!(eq(s, "R_AARCH64_MOVW_PREL_G0"), "sh_type_to_str(287)"); }
        if let Some(s) = elf::to_str::sh_type_to_str(288) { assert!(eq(s, "R_AARCH64_MOVW_PREL_G0_NC"), "sh_type_to_str(288)"); }
        if let Some(s) = elf::to_str::sh_type_to_str(289) { assert!(eq(s, "R_AARCH64_MOVW_PREL_G1"), "sh_type_to_str(289)"); }
        if let Some(s) = elf::to_str::sh_type_to_str(290) { assert!(eq(s, "R_AARCH64_MOVW_PREL_G1_NC"), "sh_type_to_str(290)"); }
        if let Some(s) = elf::to_str::sh_type_to_str(291) { assert!(eq(s, "R_AARCH64_MOVW_PREL_G2"), "sh_type_to_str(291)"); }
    }
    #[kani::proof]
    #[kani::unwind(41)]
    pub fn sh_type_to_str_names_03() {
        if let Some(s) = elf::to_str::sh_type_to_str(292) { assert!(eq(s, "R_AARCH64_MOVW_PREL_G2_NC"), "sh_type_to_str(292)"); }
        if let Some(s) = elf::to_str::sh_type_to_str(293) { assert!(eq(s, "R_AARCH64_MOVW_PREL_G3"), "sh_type_to_str(293)"); }
        if let Some(s) = elf::to_str::sh_type_to_str(299) { assert!(eq(s, "R_AARCH64_LDST128_ABS_LO12_NC"), "sh_type_to_str(299)"); }
        if let Some(s) = elf::to_str::sh_type_to_str(300) { assert!(eq(s, "R_AARCH64_MOVW_GOTOFF_G0"), "sh_type_to_str(300)"); }
        if let Some(s) = elf::to_str::sh_type_to_str(301) { assert!(eq(s, "R_AARCH64_MOVW_GOTOFF_G0_NC"), "sh_type_to_str(301)"); }
        if let Some(s) = elf::to_str::sh_type_to_str(302) { assert!(eq(s, "R_AARCH64_MOVW_GOTOFF_G1"), "sh_type_to_str(302)"); }
        if let Some(s) = elf::to_str::sh_type_to_str(303) { assert!(eq(s, "R_AARCH64_MOVW_GOTOFF_G1_NC"), "sh_type_to_str(303)"); }
        if let Some(s) = elf::to_str::sh_type_to_str(304) { assert!(eq(s, "R_AARCH64_MOVW_GOTOFF_G2"), "sh_type_to_str(304)"); }
        if let Some(s) = elf::to_str::sh_type_to_str(305) { assert!(eq(s, "R_AARCH64_MOVW_GOTOFF_G2_NC"), "sh_type_to_str(305)"); }
        if let Some(s) = elf::to_str::sh_type_to_str(306) { assert!(eq(s, "R_AARCH64_MOVW_GOTOFF_G3"), "sh_type_to_str(306)"); }
        if let Some(s) = elf::to_str::sh_type_to_str(307) { assert!(eq(s, "R_AARCH64_GOTREL64"), "sh_type_to_str(307)"); }
        if let Some(s) = elf::to_str::sh_type_to_str(308) { assert!(eq(s, "R_AARCH64_GOTREL32"), "sh_type_to_str(308)"); }
        if let Some(s) = elf::to_str::sh_type_to_str(309) { assert!(eq(s, "R_AARCH64_GOT_LD_PREL19"), "sh_type_to_str(309)"); }
        if let Some(s) = elf::to_str::sh_type_to_str(310) { assert!(eq(s, "R_AARCH64_LD64_GOTOFF_LO15"), "sh_type_to_str(310)"); }
        if let Some(s) = elf::to_str::sh_type_to_str(311) { assert!(eq(s, "R_AARCH64_ADR_GOT_PAGE"), "sh_type_to_str(311)"); }
        if let Some(s) = elf::to_str::sh_type_to_str(312) { assert!(eq(s, "R_AARCH64_LD64_GOT_LO12_NC"), "sh_type_to_str(312)"); }
        if let Some(s) = elf::to_str::sh_type_to_str(313) { assert!(eq(s, "R_AARCH64_LD64_GOTPAGE_LO15"), "sh_type_to_str(313)"); }
        if let Some(s) = elf::to_str::sh_type_to_str(512) { assert!(eq(s, "SHF_GROUP") || eq(s, "EF_ARM_ABI_FLOAT_SOFT") || eq(s, "EF_ARM_SOFT_FLOAT") || eq(s, "R_AARCH64_TLSGD_ADR_PREL21"), "sh_type_to_str(512)"); }
        if let Some(s) = elf::to_str::sh_type_to_str(513) { assert!(eq(s, "R_AARCH64_TLSGD_ADR_PAGE21"), "sh_type_to_str(513)"); }
        if let Some(s) = elf::to_str::sh_type_to_str(514) { assert!(eq(s, "R_AARCH64_TLSGD_ADD_LO12_NC"), "sh_type_to_str(514)"); }
        if let Some(s) = elf::to_str::sh_type_to_str(515) { assert!(eq(s, "R_AARCH64_TLSGD_MOVW_G1"), "sh_type_to_str(515)"); }
        if let Some(s) = elf::to_str::sh_type_to_str(516) { assert!(eq(s, "R_AARCH64_TLSGD_MOVW_G0_NC"), "sh_type_to_str(516)"); }
        if let Some(s) = elf::to_str::sh_type_to_str(517) { assert!(eq(s, "R_AARCH64_TLSLD_ADR_PREL21"), "sh_type_to_str(517)"); }
        if let Some(s) = elf::to_str::sh_type_to_str(518) { assert!(eq(s, "R_AARCH64_TLSLD_ADR_PAGE21"), "sh_type_to_str(518)"); }
        if let Some(s) = elf::to_str::sh_type_to_str(519) { assert!(eq(s, "R_AARCH64_TLSLD_ADD_LO12_NC"), "sh_type_to_str(519)"); }
        if let Some(s) = elf::to_str::sh_type_to_str(520) { assert!(eq(s, "R_AARCH64_TLSLD_MOVW_G1"), "sh_type_to_str(520)"); }
        if let Some(s) = elf::to_str::sh_type_to_str(521) { assert!(eq(s, "R_AARCH64_TLSLD_MOVW_G0_NC"), "sh_type_to_str(521)"); }
        if let Some(s) = elf::to_str::sh_type_to_str(522) { assert!(eq(s, "R_AARCH64_TLSLD_LD_PREL19"), "sh_type_to_str(522)"); }
        if let Some(s) = elf::to_str::sh_type_to_str(523) { assert!(eq(s, "R_AARCH64_TLSLD_MOVW_DTPREL_G2"), "sh_type_to_str(523)"); }
        if let Some(s) = elf::to_str::sh_type_to_str(524) { assert!(eq(s, "R_AARCH64_TLSLD_MOVW_DTPREL_G1"), "sh_type_to_str(524)"); }
        if let Some(s) = elf::to_str::sh_type_to_str(525) { assert!(eq(s, "R_AARCH64_TLSLD_MOVW_DTPREL_G1_NC"), "sh_type_to_str(525)"); }
        if let Some(s) = elf::to_str::sh_type_to_str(526) { assert!(eq(s, "R_AARCH64_TLSLD_MOVW_DTPREL_G0"), "sh_type_to_str(526)"); }
        if let Some(s) = elf::to_str::sh_type_to_str(527) { assert!(eq(s, "R_AARCH64_TLSLD_MOVW_DTPREL_G0_NC"), "sh_type_to_str(527)"); }
        if let Some(s) = elf::to_str::sh_type_to_str(528) { assert!(eq(s, "R_AARCH64_TLSLD_ADD_DTPREL_HI12"), "sh_type_to_str(528)"); }
        if let Some(s) = elf::to_str::sh_type_to_str(529) { assert!(eq(s, "R_AARCH64_TLSLD_ADD_DTPREL_LO12"), "sh_type_to_str(529)"); }
        if let Some(s) = elf::to_str::sh_type_to_str(530) { assert!(eq(s, "R_AARCH64_TLSLD_ADD_DTPREL_LO12_NC"), "sh_type_to_str(530)"); }
        if let Some(s) = elf::to_str::sh_type_to_str(531) { assert!(eq(s, "R_AARCH64_TLSLD_LDST8_DTPREL_LO12"), "sh_type_to_str(531)"); }
        if let Some(s) = elf::to_str::sh_type_to_str(532) { assert!(eq(s, "R_AARCH64_TLSLD_LDST8_DTPREL_LO12_NC"), "sh_type_to_str(532)"); }
        if let Some(s) = elf::to_str::sh_type_to_str(533) { assert!(eq(s, "R_AARCH64_TLSLD_LDST16_DTPREL_LO12"), "sh_type_to_str(533)"); }
        if let Some(s) = elf::to_str::sh_type_to_str(534) { assert!(eq(s, "R_AARCH64_TLSLD_LDST16_DTPREL_LO12_NC"), "sh_type_to_str(534)"); }
        if let Some(s) = elf::to_str::sh_type_to_str(535) { assert!(eq(s, "R_AARCH64_TLSLD_LDST32_DTPREL_LO12"), "sh_type_to_str(535)"); }
        if let Some(s) = elf::to_str::sh_type_to_str(536) { assert!(eq(s, "R_AARCH64_TLSLD_LDST32_DTPREL_LO12_NC"), "sh_type_to_str(536)"); }
        if let Some(s) = elf::to_str::sh_type_to_str(537) { assert!(eq(s, "R_AARCH64_TLSLD_LDST64_DTPREL_LO12"), "sh_type_to_str(537)"); }
        if let Some(s) = elf::to_str::sh_type_to_str(538) { assert!(eq(s, "R_AARCH64_TLSLD_LDST64_DTPREL_LO12_NC"), "sh_type_to_str(538)"); }
        if let Some(s) = elf::to_str::sh_type_to_str(539) { assert!(eq(s, "R_AARCH64_TLSIE_MOVW_GOTTPREL_G1"), "sh_type_to_str(539)"); }
        if let Some(s) = elf::to_str::sh_type_to_str(540) { assert!(eq(s, "R_AARCH64_TLSIE_MOVW_GOTTPREL_G0_NC"), "sh_type_to_str(540)"); }
        if let Some(s) = elf::to_str::sh_type_to_str(541) { assert!(eq(s, "R_AARCH64_TLSIE_ADR_GOTTPREL_PAGE21"), "sh_type_to_str(541)"); }
        if let Some(s) = elf::to_str::sh_type_to_str(542) { assert!(eq(s, "R_AARCH64_TLSIE_LD64_GOTTPREL_LO12_NC"), "sh_type_to_str(542)"); }
        if let Some(s) = elf::to_str::sh_type_to_str(543) { assert!(eq(s, "R_AARCH64_TLSIE_LD_GOTTPREL_PREL19"), "sh_type_to_str(543)"); }
        if let Some(s) = elf::to_str::sh_type_to_str(544) { assert!(eq(s, "R_AARCH64_TLSLE_MOVW_TPREL_G2"), "sh_type_to_str(544)"); }
        if let Some(s) = elf::to_str::sh_type_to_str(545) { assert!(eq(s, "R_AARCH64_TLSLE_MOVW_TPREL_G1"), "sh_type_to_str(545)"); }
        if let Some(s) = elf::to_str::sh_type_to_str(546) { assert!(eq(s, "R_AARCH64_TLSLE_MOVW_TPREL_G1_NC"), "sh_type_to_str(546)"); }
        if let Some(s) = elf::to_str::sh_type_to_str(547) { assert!(eq(s, "R_AARCH64_TLSLE_MOVW_TPREL_G0"), "sh_type_to_str(547)"); }
        if let Some(s) = elf::to_str::sh_type_to_str(548) { assert!(eq(s, "R_AARCH64_TLSLE_MOVW_TPREL_G0_NC"), "sh_type_to_str(548)"); }
        if let Some(s) = elf::to_str::sh_type_to_str(549) { assert!(eq(s, "R_AARCH64_TLSLE_ADD_TPREL_HI12"), "sh_type_to_str(549)"); }
        if let Some(s) = elf::to_str::sh_type_to_str(550) { assert!(eq(s, "R_AARCH64_TLSLE_ADD_TPREL_LO12"), "sh_type_to_str(550)"); }
        if let Some(s) = elf::to_str::sh_type_to_str(551) { assert!(eq(s, "R_AARCH64_TLSLE_ADD_TPREL_LO12_NC"), "sh_type_to_str(551)"); }
        if let Some(s) = elf::to_str::sh_type_to_str(552) { assert!(eq(s, "R_AARCH64_TLSLE_LDST8_TPREL_LO12"), "sh_type_to_str(552)"); }
        if let Some(s) = elf::to_str::sh_type_to_str(553) { assert!(eq(s, "R_AARCH64_TLSLE_LDST8_TPREL_LO12_NC"), "sh_type_to_str(553)"); }
        if let Some(s) = elf::to_str::sh_type_to_str(554) { assert!(eq(s, "R_AARCH64_TLSLE_LDST16_TPREL_LO12"), "sh_type_to_str(554)"); }
    }
    #[kani::proof]
    #[kani::unwind(41)]
    pub fn sh_type_to_str_names_04() {
        if let Some(s) = elf::to_str::sh_type_to_str(555) { assert!(eq(s, "R_AARCH64_TLSLE_LDST16_TPREL_LO12_NC"), "sh_type_to_str(555)"); }
        if let Some(s) = elf::to_str::sh_type_to_str(556) { assert!(eq(s, "R_AARCH64_TLSLE_LDST32_TPREL_LO12"), "sh_type_to_str(556)"); }
        if let Some(s) = elf::to_str::sh_type_to_str(557) { assert!(eq(s, "R_AARCH64_TLSLE_LDST32_TPREL_LO12_NC"), "sh_type_to_str(557)"); }
        if let Some(s) = elf::to_str::sh_type_to_str(558) { assert!(eq(s, "R_AARCH64_TLSLE_LDST64_TPREL_LO12"), "sh_type_to_str(558)"); }
        if let Some(s) = elf::to_str::sh_type_to_str(559) { assert!(eq(s, "R_AARCH64_TLSLE_LDST64_TPREL_LO12_NC"), "sh_type_to_str(559)"); }
        if let Some(s) = elf::to_str::sh_type_to_str(560) { assert!(eq(s, "R_AARCH64_TLSDESC_LD_PREL19"), "sh_type_to_str(560)"); }
        if let Some(s) = elf::to_str::sh_type_to_str(561) { assert!(eq(s, "R_AARCH64_TLSDESC_ADR_PREL21"), "sh_type_to_str(561)"); }
        if let Some(s) = elf::to_str::sh_type_to_str(562) { assert!(eq(s, "R_AARCH64_TLSDESC_ADR_PAGE21"), "sh_type_to_str(562)"); }
        if let Some(s) = elf::to_str::sh_type_to_str(563) { assert!(eq(s, "R_AARCH64_TLSDESC_LD64_LO12"), "sh_type_to_str(563)"); }
        if let Some(s) = elf::to_str::sh_type_to_str(564) { assert!(eq(s, "R_AARCH64_TLSDESC_ADD_LO12"), "sh_type_to_str(564)"); }
        if let Some(s) = elf::to_str::sh_type_to_str(565) { assert!(eq(s, "R_AARCH64_TLSDESC_OFF_G1"), "sh_type_to_str(565)"); }
        if let Some(s) = elf::to_str::sh_type_to_str(566) { assert!(eq(s, "R_AARCH64_TLSDESC_OFF_G0_NC"), "sh_type_to_str(566)"); }
        if let Some(s) = elf::to_str::sh_type_to_str(567) { assert!(eq(s, "R_AARCH64_TLSDESC_LDR"), "sh_type_to_str(567)"); }
        if let Some(s) = elf::to_str::sh_type_to_str(568) { assert!(eq(s, "R_AARCH64_TLSDESC_ADD"), "sh_type_to_str(568)"); }
        if let Some(s) = elf::to_str::sh_type_to_str(569) { assert!(eq(s, "R_AARCH64_TLSDESC_CALL"), "sh_type_to_str(569)"); }
        if let Some(s) = elf::to_str::sh_type_to_str(570) { assert!(eq(s, "R_AARCH64_TLSLE_LDST128_TPREL_LO12"), "sh_type_to_str(570)"); }
        if let Some(s) = elf::to_str::sh_type_to_str(571) { assert!(eq(s, "R_AARCH64_TLSLE_LDST128_TPREL_LO12_NC"), "sh_type_to_str(571)"); }
        if let Some(s) = elf::to_str::sh_type_to_str(572) { assert!(eq(s, "R_AARCH64_TLSLD_LDST128_DTPREL_LO12"), "sh_type_to_str(572)"); }
        if let Some(s) = elf::to_str::sh_type_to_str(573) { assert!(eq(s, "R_AARCH64_TLSLD_LDST128_DTPREL_LO12_NC"), "sh_type_to_str(573)"); }
        if let Some(s) = elf::to_str::sh_type_to_str(1024) { assert!(eq(s, "SHF_TLS") || eq(s, "EF_ARM_ABI_FLOAT_HARD") || eq(s, "EF_ARM_VFP_FLOAT") || eq(s, "R_AARCH64_COPY"), "sh_type_to_str(1024)"); }
        if let Some(s) = elf::to_str::sh_type_to_str(1025) { assert!(eq(s, "R_AARCH64_GLOB_DAT"), "sh_type_to_str(1025)"); }
        if let Some(s) = elf::to_str::sh_type_to_str(1026) { assert!(eq(s, "R_AARCH64_JUMP_SLOT"), "sh_type_to_str(1026)"); }
        if let Some(s) = elf::to_str::sh_type_to_str(1027) { assert!(eq(s, "R_AARCH64_RELATIVE"), "sh_type_to_str(1027)"); }
        if let Some(s) = elf::to_str::sh_type_to_str(1028) { assert!(eq(s, "R_AARCH64_TLS_DTPMOD"), "sh_type_to_str(1028)"); }
        if let Some(s) = elf::to_str::sh_type_to_str(1029) { assert!(eq(s, "R_AARCH64_TLS_DTPREL"), "sh_type_to_str(1029)"); }
        if let Some(s) = elf::to_str::sh_type_to_str(1030) { assert!(eq(s, "R_AARCH64_TLS_TPREL"), "sh_type_to_str(1030)"); }
        if let Some(s) = elf::to_str::sh_type_to_str(1031) { assert!(eq(s, "R_AARCH64_TLSDESC"), "sh_type_to_str(1031)"); }
        if let Some(s) = elf::to_str::sh_type_to_str(1032) { assert!(eq(s, "R_AARCH64_IRELATIVE"), "sh_type_to_str(1032)"); }
        if let Some(s) = elf::to_str::sh_type_to_str(2048) { assert!(eq(s, "SHF_COMPRESSED"), "sh_type_to_str(2048)"); }
        if let Some(s) = elf::to_str::sh_type_to_str(32768) { assert!(eq(s, "EF_PPC_RELOCATABLE_LIB"), "sh_type_to_str(32768)"); }
        if let Some(s) = elf::to_str::sh_type_to_str(65536) { assert!(eq(s, "EF_PPC_RELOCATABLE"), "sh_type_to_str(65536)"); }
        if let Some(s) = elf::to_str::sh_type_to_str(4198399) { assert!(eq(s, "EF_ARM_GCCMASK"), "sh_type_to_str(4198399)"); }
        if let Some(s) = elf::to_str::sh_type_to_str(4259840) { assert!(eq(s, "PT_ARM_ARCHEXT_PROF_ARM"), "sh_type_to_str(4259840)"); }
        if let Some(s) = elf::to_str::sh_type_to_str(5046272) { assert!(eq(s, "PT_ARM_ARCHEXT_PROF_MC"), "sh_type_to_str(5046272)"); }
        if let Some(s) = elf::to_str::sh_type_to_str(5373952) { assert!(eq(s, "PT_ARM_ARCHEXT_PROF_RT"), "sh_type_to_str(5373952)"); }
        if let Some(s) = elf::to_str::sh_type_to_str(5439488) { assert!(eq(s, "PT_ARM_ARCHEXT_PROF_CLASSIC"), "sh_type_to_str(5439488)"); }
        if let Some(s) = elf::to_str::sh_type_to_str(8388608) { assert!(eq(s, "EF_ARM_BE8"), "sh_type_to_str(8388608)"); }
        if let Some(s) = elf::to_str::sh_type_to_str(16711680) { assert!(eq(s, "PT_ARM_ARCHEXT_PROFMSK"), "sh_type_to_str(16711680)"); }
        if let Some(s) = elf::to_str::sh_type_to_str(16777216) { assert!(eq(s, "EF_ARM_EABI_VER1") || eq(s, "PT_ARM_ARCHEXT_FMT_ABI"), "sh_type_to_str(16777216)"); }
        if let Some(s) = elf::to_str::sh_type_to_str(33554432) { assert!(eq(s, "EF_ARM_EABI_VER2"), "sh_type_to_str(33554432)"); }
        if let Some(s) = elf::to_str::sh_type_to_str(50331648) { assert!(eq(s, "EF_ARM_EABI_VER3"), "sh_type_to_str(50331648)"); }
        if let Some(s) = elf::to_str::sh_type_to_str(67108864) { assert!(eq(s, "EF_ARM_EABI_VER4"), "sh_type_to_str(67108864)"); }
        if let Some(s) = elf::to_str::sh_type_to_str(83886080) { assert!(eq(s, "EF_ARM_EABI_VER5"), "sh_type_to_str(83886080)"); }
        if let Some(s) = elf::to_str::sh_type_to_str(267386880) { assert!(eq(s, "PF_MASKOS") || eq(s, "SHF_MASKOS"), "sh_type_to_str(267386880)"); }
        if let Some(s) = elf::to_str::sh_type_to_str(1610612736) { assert!(eq(s, "PT_LOOS") || eq(s, "SHT_LOOS") || eq(s, "ELFCOMPRESS_LOOS"), "sh_type_to_str(1610612736)"); }
        if let Some(s) = elf::to_str::sh_type_to_str(1685382480) { assert!(eq(s, "PT_GNU_EH_FRAME"), "sh_type_to_str(1685382480)"); }
        if let Some(s) = elf::to_str::sh_type_to_str(1685382481) { assert!(eq(s, "PT_GNU_STACK"), "sh_type_to_str(1685382481)"); }
        if let Some(s) = elf::to_str::sh_type_to_str(1685382482) { assert!(eq(s, "PT_GNU_RELRO"), "sh_type_to_str(1685382482)"); }
        if let Some(s) = elf::to_str::sh_type_to_str(1685382483) { assert!(eq(s, "PT_GNU_PROPERTY"), "sh_type_to_str(1685382483)"); }
        if let Some(s) = elf::to_str::sh_type_to_str(1879048181) { assert!(eq(s, "SHT_GNU_ATTRIBUTES"), "sh_type_to_str(1879048181)"); }
        if let Some(s) = elf::to_str::sh_type_to_str(1879048182) { assert!(eq(s, "SHT_GNU_HASH"), "sh_type_to_str(1879048182)"); }
        if let Some(s) = elf::to_str::sh_type_to_str(1879048183) { assert!(eq(s, "SHT_GNU_LIBLIST"), "sh_type_to_str(1879048183)"); }
        if let Some(s) = elf::to_str::sh_type_to_str(1879048189) { assert!(eq(s, "SHT_GNU_VERDEF"), "sh_type_to_str(1879048189)"); }
        if let Some(s) = elf::to_str::sh_type_to_str(1879048190) { assert!(eq(s, "SHT_GNU_VERNEED"), "sh_type_to_str(1879048190)"); }
        if let Some(s) = elf::to_str::sh_type_to_str(1879048191) { assert!(eq(s, "PT_HIOS") || eq(s, "SHT_GNU_VERSYM") || eq(s, "SHT_HIOS") || eq(s, "ELFCOMPRESS_HIOS"), "sh_type_to_str(1879048191)"); }
        if let Some(s) = elf::to_str::sh_type_to_str(1879048192) { assert!(eq(s, "PT_LOPROC") || eq(s, "SHT_LOPROC") || eq(s, "SHT_IA_64_EXT") || eq(s, "ELFCOMPRESS_LOPROC") || eq(s, "PT_ARM_ARCHEXT") || eq(s, "PT_AARCH64_ARCHEXT"), "sh_type_to_str(1879048192)"); }
        if let Some(s) = elf::to_str::sh_type_to_str(1879048193) { assert!(eq(s, "SHT_IA_64_UNWIND") || eq(s, "SHT_ARM_EXIDX") || eq(s, "PT_ARM_EXIDX") || eq(s, "PT_ARM_UNWIND") || eq(s, "PT_AARCH64_UNWIND") || eq(s, "SHT_X86_64_UNWIND"), "sh_type_to_str(1879048193)"); }
        if let Some(s) = elf::to_str::sh_type_to_str(1879048194) { assert!(eq(s, "SHT_ARM_PREEMPTMAP") || eq(s, "PT_AARCH64_MEMTAG_MTE"), "sh_type_to_str(1879048194)"); }
        if let Some(s) = elf::to_str::sh_type_to_str(1879048195) { assert!(eq(s, "SHT_ARM_ATTRIBUTES") || eq(s, "SHT_AARCH64_ATTRIBUTES") || eq(s, "SHT_RISCV_ATTRIBUTES") || eq(s, "PT_RISCV_ATTRIBUTES"), "sh_type_to_str(1879048195)"); }
        if let Some(s) = elf::to_str::sh_type_to_str(1879048196) { assert!(eq(s, "SHT_ARM_DEBUGOVERLAY"), "sh_type_to_str(1879048196)"); }
    }
    #[kani::proof]
    #[kani::unwind(41)]
    pub fn sh_type_to_str_names_05() {
        if let Some(s) = elf::to_str::sh_type_to_str(1879048197) { assert!(eq(s, "SHT_ARM_OVERLAYSECTION"), "sh_type_to_str(1879048197)"); }
        if let Some(s) = elf::to_str::sh_type_to_str(2147483647) { assert!(eq(s, "PT_HIPROC") || eq(s, "SHT_HIPROC") || eq(s, "ELFCOMPRESS_HIPROC"), "sh_type_to_str(2147483647)"); }
        if let Some(s) = elf::to_str::sh_type_to_str(2147483648) { assert!(eq(s, "SHT_LOUSER") || eq(s, "EF_PPC_EMB"), "sh_type_to_str(2147483648)"); }
        if let Some(s) = elf::to_str::sh_type_to_str(2415919103) { assert!(eq(s, "SHT_HIUSER"), "sh_type_to_str(2415919103)"); }
        if let Some(s) = elf::to_str::sh_type_to_str(3221225472) { assert!(eq(s, "GNU_PROPERTY_AARCH64_FEATURE_1_AND"), "sh_type_to_str(3221225472)"); }
        if let Some(s) = elf::to_str::sh_type_to_str(4026531840) { assert!(eq(s, "PF_MASKPROC") || eq(s, "SHF_MASKPROC"), "sh_type_to_str(4026531840)"); }
        if let Some(s) = elf::to_str::sh_type_to_str(4278190080) { assert!(eq(s, "EF_ARM_EABIMASK") || eq(s, "PT_ARM_ARCHEXT_FMTMSK"), "sh_type_to_str(4278190080)"); }
    }
    #[kani::proof]
    pub fn p_type_to_str_none_outside_constants() {
        let x: u32 = kani::any();
        kani::assume(x != 0 && x != 1 && x != 2 && x != 3 && x != 4 && x != 5 && x != 6 && x != 7 && x != 8 && x != 9 && x != 10 && x != 11);
        kani::assume(x != 12 && x != 13 && x != 14 && x != 15 && x != 16 && x != 17 && x != 18 && x != 19 && x != 20 && x != 21 && x != 22 && x != 23);
        kani::assume(x != 24 && x != 25 && x != 26 && x != 27 && x != 28 && x != 29 && x != 30 && x != 31 && x != 32 && x != 33 && x != 34 && x != 35);
        kani::assume(x != 36 && x != 37 && x != 38 && x != 39 && x != 40 && x != 41 && x != 42 && x != 43 && x != 44 && x != 45 && x != 46 && x != 47);
        kani::assume(x != 48 && x != 49 && x != 50 && x != 51 && x != 52 && x != 53 && x != 54 && x != 55 && x != 56 && x != 57 && x != 58 && x != 59);
        kani::assume(x != 60 && x != 61 && x != 62 && x != 63 && x != 64 && x != 65 && x != 66 && x != 67 && x != 68 && x != 69 && x != 70 && x != 71);
        kani::assume(x != 72 && x != 73 && x != 74 && x != 75 && x != 76 && x != 77 && x != 78 && x != 79 && x != 80 && x != 81 && x != 82 && x != 83);
        kani::assume(x != 84 && x != 85 && x != 86 && x != 87 && x != 88 && x != 89 && x != 90 && x != 91 && x != 92 && x != 93 && x != 94 && x != 95);
        kani::assume(x != 96 && x != 97 && x != 98 && x != 99 && x != 100 && x != 101 && x != 102 && x != 103 && x != 104 && x != 105 && x != 106 && x != 107);
        kani::assume(x != 108 && x != 109 && x != 110 && x != 111 && x != 112 && x != 113 && x != 114 && x != 115 && x != 116 && x != 128 && x != 129 && x != 130);
        kani::assume(x != 131 && x != 132 && x != 133 && x != 134 && x != 135 && x != 136 && x != 137 && x != 138 && x != 160 && x != 180 && x != 181 && x != 182);
        kani::assume(x != 183 && x != 184 && x != 185 && x != 186 && x != 187 && x != 188 && x != 247 && x != 248 && x != 249 && x != 250 && x != 251 && x != 252);
        kani::assume(x != 255 && x != 256 && x != 257 && x != 258 && x != 259 && x != 260 && x != 261 && x != 262 && x != 263 && x != 264 && x != 265 && x != 266);
        kani::assume(x != 267 && x != 268 && x != 269 && x != 270 && x != 271 && x != 272 && x != 273 && x != 274 && x != 275 && x != 276 && x != 277 && x != 278);
        kani::assume(x != 279 && x != 280 && x != 282 && x != 283 && x != 284 && x != 285 && x != 286 && x != 287 && x != 288 && x != 289 && x != 290 && x != 291);
        kani::assume(x != 292 && x != 293 && x != 299 && x != 300 && x != 301 && x != 302 && x != 303 && x != 304 && x != 305 && x != 306 && x != 307 && x != 308);
        kani::assume(x != 309 && x != 310 && x != 311 && x != 312 && x != 313 && x != 512 && x != 513 && x != 514 && x != 515 && x != 516 && x != 517 && x != 518);
        kani::assume(x != 519 && x != 520 && x != 521 && x != 522 && x != 523 && x != 524 && x != 525 && x != 526 && x != 527 && x != 528 && x != 529 && x != 530);
        kani::assume(x != 531 && x != 532 && x != 533 && x != 534 && x != 535 && x != 536 && x != 537 && x != 538 && x != 539 && x != 540 && x != 541 && x != 542);
        kani::assume(x != 543 && x != 544 && x != 545 && x != 546 && x != 547 && x != 548 && x != 549 && x != 550 && x != 551 && x != 552 && x != 553 && x != 554);
        kani::assume(x != 555 && x != 556 && x != 557 && x != 558 && x != 559 && x != 560 && x != 561 && x != 562 && x != 563 && x != 564 && x != 565 && x != 566);
        kani::assume(x != 567 && x != 568 && x != 569 && x != 570 && x != 571 && x != 572 && x != 573 && x != 1024 && x != 1025 && x != 1026 && x != 1027 && x != 1028);
        kani::assume(x != 1029 && x != 1030 && x != 1031 && x != 1032 && x != 2048 && x != 32768 && x != 65536 && x != 4198399 && x != 4259840 && x != 5046272 && x != 5373952 && x != 5439488);
        kani::assume(x != 8388608 && x != 16711680 && x != 16777216 && x != 33554432 && x != 50331648 && x != 67108864 && x != 83886080 && x != 267386880 && x != 1610612736 && x != 1685382480 && x != 1685382481 && x != 1685382482);
        kani::assume(x != 1685382483 && x != 1879048181 && x != 1879048182 && x != 1879048183 && x != 1879048189 && x != 1879048190 && x != 1879048191 && x != 1879048192 && x != 1879048193 && x != 1879048194 && x != 1879048195 && x != 1879048196);
        kani::assume(x != 1879048197 && x != 2147483647 && x != 2147483648 && x != 2415919103 && x != 3221225472 && x != 4026531840 && x != 4278190080);
        assert!(elf::to_str::p_type_to_str(x).is_none());
    }
    #[kani::proof]
    #[kani::unwind(41)]
    pub fn p_type_to_str_names_00() {
        if let Some(s) = elf::to_str::p_type_to_str(0) { assert!(eq(s, "PF_NONE") || eq(s, "PT_NULL") || eq(s, "SHT_NULL") || eq(s, "SHF_NONE") || eq(s, "ELF_NOTE_GNU_ABI_TAG_OS_LINUX") || eq(s, "EF_ARM_EABI_UNKNOWN") || eq(s, "PT_ARM_ARCHEXT_FMT_OS") || eq(s, "PT_ARM_ARCHEXT_PROF_NONE") || eq(s, "PT_ARM_ARCHEXT_ARCH_UNKN") || eq(s, "R_ARM_NONE") || eq(s, "R_AARCH64_NONE") || eq(s, "R_PPC_NONE") || eq(s, "R_PPC64_NONE") || eq(s, "EF_RISCV_FLOAT_ABI_SOFT") || eq(s, "R_RISCV_NONE") || eq(s, "R_X86_64_NONE"), "p_type_to_str(0)"); }
        if let Some(s) = elf::to_str::p_type_to_str(1) { assert!(eq(s, "PF_X") || eq(s, "PT_LOAD") || eq(s, "SHT_PROGBITS") || eq(s, "SHF_WRITE") || eq(s, "ELFCOMPRESS_ZLIB") || eq(s, "ELF_NOTE_GNU_ABI_TAG_OS_GNU") || eq(s, "PT_ARM_ARCHEXT_ARCHV4") || eq(s, "R_ARM_PC24") || eq(s, "GNU_PROPERTY_AARCH64_FEATURE_1_BTI") || eq(s, "R_AARCH64_P32_ABS32") || eq(s, "R_PPC_ADDR32") || eq(s, "R_PPC64_ADDR32") || eq(s, "EF_RISCV_RVC") || eq(s, "R_RISCV_32") || eq(s, "R_X86_64_64"), "p_type_to_str(1)"); }
        if let Some(s) = elf::to_str::p_type_to_str(2) { assert!(eq(s, "PF_W") || eq(s, "PT_DYNAMIC") || eq(s, "SHT_SYMTAB") || eq(s, "SHF_ALLOC") || eq(s, "ELFCOMPRESS_ZSTD") || eq(s, "ELF_NOTE_GNU_ABI_TAG_OS_SOLARIS2") || eq(s, "PT_ARM_ARCHEXT_ARCHV4T") || eq(s, "R_ARM_ABS32") || eq(s, "GNU_PROPERTY_AARCH64_FEATURE_1_PAC") || eq(s, "R_PPC_ADDR24") || eq(s, "R_PPC64_ADDR24") || eq(s, "EF_RISCV_FLOAT_ABI_SINGLE") || eq(s, "R_RISCV_64") || eq(s, "R_X86_64_PC32"), "p_type_to_str(2)"); }
        if let Some(s) = elf::to_str::p_type_to_str(3) { assert!(eq(s, "PT_INTERP") || eq(s, "SHT_STRTAB") || eq(s, "ELF_NOTE_GNU_ABI_TAG_OS_FREEBSD") || eq(s, "PT_ARM_ARCHEXT_ARCHV5T") || eq(s, "R_ARM_REL32") || eq(s, "R_PPC_ADDR16") || eq(s, "EF_PPC64_ABI") || eq(s, "R_PPC64_ADDR16") || eq(s, "R_RISCV_RELATIVE") || eq(s, "R_X86_64_GOT32"), "p_type_to_str(3)"); }
        if let Some(s) = elf::to_str::p_type_to_str(4) { assert!(eq(s, "PF_R") || eq(s, "PT_NOTE") || eq(s, "SHT_RELA") || eq(s, "SHF_EXECINSTR") || eq(s, "PT_ARM_ARCHEXT_ARCHV5TE") || eq(s, "R_ARM_LDR_PC_G0") || eq(s, "R_PPC_ADDR16_LO") || eq(s, "R_PPC64_ADDR16_LO") || eq(s, "EF_RISCV_FLOAT_ABI_DOUBLE") || eq(s, "R_RISCV_COPY") || eq(s, "R_X86_64_PLT32"), "p_type_to_str(4)"); }
        if let Some(s) = elf::to_str::p_type_to_str(5) { assert!(eq(s, "PT_SHLIB") || eq(s, "SHT_HASH") || eq(s, "PT_ARM_ARCHEXT_ARCHV5TEJ") || eq(s, "R_ARM_ABS16") || eq(s, "R_PPC_ADDR16_HI") || eq(s, "R_PPC64_ADDR16_HI") || eq(s, "R_RISCV_JUMP_SLOT") || eq(s, "R_X86_64_COPY"), "p_type_to_str(5)"); }
        if let Some(s) = elf::to_str::p_type_to_str(6) { assert!(eq(s, "PT_PHDR") || eq(s, "SHT_DYNAMIC") || eq(s, "PT_ARM_ARCHEXT_ARCHV6") || eq(s, "R_ARM_ABS12") || eq(s, "R_PPC_ADDR16_HA") || eq(s, "R_PPC64_ADDR16_HA") || eq(s, "EF_RISCV_FLOAT_ABI_QUAD") || eq(s, "EF_RISCV_FLOAT_ABI_MASK") || eq(s, "R_RISCV_TLS_DTPMOD32") || eq(s, "R_X86_64_GLOB_DAT"), "p_type_to_str(6)"); }
        if let Some(s) = elf::to_str::p_type_to_str(7) { assert!(eq(s, "PT_TLS") || eq(s, "SHT_NOTE") || eq(s, "PT_ARM_ARCHEXT_ARCHV6KZ") || eq(s, "R_ARM_THM_ABS5") || eq(s, "R_PPC_ADDR14") || eq(s, "R_PPC64_ADDR14") || eq(s, "R_RISCV_TLS_DTPMOD64") || eq(s, "R_X86_64_JUMP_SLOT"), "p_type_to_str(7)"); }
        if let Some(s) = elf::to_str::p_type_to_str(8) { assert!(eq(s, "SHT_NOBITS") || eq(s, "PT_ARM_ARCHEXT_ARCHV6T2") || eq(s, "R_ARM_ABS8") || eq(s, "R_PPC_ADDR14_BRTAKEN") || eq(s, "R_PPC64_ADDR14_BRTAKEN") || eq(s, "EF_RISCV_RVE") || eq(s, "R_RISCV_TLS_DTPREL32") || eq(s, "R_X86_64_RELATIVE"), "p_type_to_str(8)"); }
        if let Some(s) = elf::to_str::p_type_to_str(9) { assert!(eq(s, "SHT_REL") || eq(s, "PT_ARM_ARCHEXT_ARCHV6K") || eq(s, "R_ARM_SBREL32") || eq(s, "R_PPC_ADDR14_BRNTAKEN") || eq(s, "R_PPC64_ADDR14_BRNTAKEN") || eq(s, "R_RISCV_TLS_DTPREL64") || eq(s, "R_X86_64_GOTPCREL"), "p_type_to_str(9)"); }
        if let Some(s) = elf::to_str::p_type_to_str(10) { assert!(eq(s, "SHT_SHLIB") || eq(s, "PT_ARM_ARCHEXT_ARCHV7") || eq(s, "R_ARM_THM_CALL") || eq(s, "R_PPC_REL24") || eq(s, "R_PPC64_REL24") || eq(s, "R_RISCV_TLS_TPREL32") || eq(s, "R_X86_64_32"), "p_type_to_str(10)"); }
        if let Some(s) = elf::to_str::p_type_to_str(11) { assert!(eq(s, "SHT_DYNSYM") || eq(s, "PT_ARM_ARCHEXT_ARCHV6M") || eq(s, "R_ARM_THM_PC8") || eq(s, "R_PPC_REL14") || eq(s, "R_PPC64_REL14") || eq(s, "R_RISCV_TLS_TPREL64") || eq(s, "R_X86_64_32S"), "p_type_to_str(11)"); }
        if let Some(s) = elf::to_str::p_type_to_str(12) { assert!(eq(s, "PT_ARM_ARCHEXT_ARCHV6SM") || eq(s, "R_ARM_BREL_ADJ") || eq(s, "R_PPC_REL14_BRTAKEN") || eq(s, "R_PPC64_REL14_BRTAKEN") || eq(s, "R_X86_64_16"), "p_type_to_str(12)"); }
        if let Some(s) = elf::to_str::p_type_to_str(13) { assert!(eq(s, "PT_ARM_ARCHEXT_ARCHV7EM") || eq(s, "R_ARM_TLS_DESC") || eq(s, "R_PPC_REL14_BRNTAKEN") || eq(s, "R_PPC64_REL14_BRNTAKEN") || eq(s, "R_X86_64_PC16"), "p_type_to_str(13)"); }
        if let Some(s) = elf::to_str::p_type_to_str(14) { assert!(eq(s, "SHT_INIT_ARRAY") || eq(s, "R_ARM_THM_SWI8") || eq(s, "R_PPC_GOT16") || eq(s, "R_PPC64_GOT16") || eq(s, "R_X86_64_8"), "p_type_to_str(14)"); }
        if let Some(s) = elf::to_str::p_type_to_str(15) { assert!(eq(s, "SHT_FINI_ARRAY") || eq(s, "R_ARM_XPC25") || eq(s, "R_PPC_GOT16_LO") || eq(s, "R_PPC64_GOT16_LO") || eq(s, "R_X86_64_PC8"), "p_type_to_str(15)"); }
        if let Some(s) = elf::to_str::p_type_to_str(16) { assert!(eq(s, "SHT_PREINIT_ARRAY") || eq(s, "SHF_MERGE") || eq(s, "R_ARM_THM_XPC22") || eq(s, "R_PPC_GOT16_HI") || eq(s, "R_PPC64_GOT16_HI") || eq(s, "EF_RISCV_TSO") || eq(s, "R_RISCV_BRANCH") || eq(s, "R_X86_64_DTPMOD64"), "p_type_to_str(16)"); }
        if let Some(s) = elf::to_str::p_type_to_str(17) { assert!(eq(s, "SHT_GROUP") || eq(s, "R_ARM_TLS_DTPMOD32") || eq(s, "R_PPC_GOT16_HA") || eq(s, "R_PPC64_GOT16_HA") || eq(s, "R_RISCV_JAL") || eq(s, "R_X86_64_DTPOFF64"), "p_type_to_str(17)"); }
        if let Some(s) = elf::to_str::p_type_to_str(18) { assert!(eq(s, "SHT_SYMTAB_SHNDX") || eq(s, "R_ARM_TLS_DTPOFF32") || eq(s, "R_PPC_PLTREL24") || eq(s, "R_RISCV_CALL") || eq(s, "R_X86_64_TPOFF64"), "p_type_to_str(18)"); }
        if let Some(s) = elf::to_str::p_type_to_str(19) { assert!(eq(s, "R_ARM_TLS_TPOFF32") || eq(s, "R_PPC_COPY") || eq(s, "R_PPC64_COPY") || eq(s, "R_RISCV_CALL_PLT") || eq(s, "R_X86_64_TLSGD"), "p_type_to_str(19)"); }
        if let Some(s) = elf::to_str::p_type_to_str(20) { assert!(eq(s, "R_ARM_COPY") || eq(s, "R_PPC_GLOB_DAT") || eq(s, "R_PPC64_GLOB_DAT") || eq(s, "R_RISCV_GOT_HI20") || eq(s, "R_X86_64_TLSLD"), "p_type_to_str(20)"); }
        if let Some(s) = elf::to_str::p_type_to_str(21) { assert!(eq(s, "R_ARM_GLOB_DAT") || eq(s, "R_PPC_JMP_SLOT") || eq(s, "R_PPC64_JMP_SLOT") || eq(s, "R_RISCV_TLS_GOT_HI20") || eq(s, "R_X86_64_DTPOFF32"), "p_type_to_str(21)"); }
        if let Some(s) = elf::to_str::p_type_to_str(22) { assert!(eq(s, "R_ARM_JUMP_SLOT") || eq(s, "R_PPC_RELATIVE") || eq(s, "R_PPC64_RELATIVE") || eq(s, "R_RISCV_TLS_GD_HI20") || eq(s, "R_X86_64_GOTTPOFF"), "p_type_to_str(22)"); }
        if let Some(s) = elf::to_str::p_type_to_str(23) { assert!(eq(s, "R_ARM_RELATIVE") || eq(s, "R_PPC_LOCAL24PC") || eq(s, "R_RISCV_PCREL_HI20") || eq(s, "R_X86_64_TPOFF32"), "p_type_to_str(23)"); }
        if let Some(s) = elf::to_str::p_type_to_str(24) { assert!(eq(s, "R_ARM_GOTOFF32") || eq(s, "R_PPC_UADDR32") || eq(s, "R_PPC64_UADDR32") || eq(s, "R_RISCV_PCREL_LO12_I") || eq(s, "R_X86_64_PC64"), "p_type_to_str(24)"); }
        if let Some(s) = elf::to_str::p_type_to_str(25) { assert!(eq(s, "R_ARM_BASE_PREL") || eq(s, "R_PPC_UADDR16") || eq(s, "R_PPC64_UADDR16") || eq(s, "R_RISCV_PCREL_LO12_S") || eq(s, "R_X86_64_GOTOFF64"), "p_type_to_str(25)"); }
        if let Some(s) = elf::to_str::p_type_to_str(26) { assert!(eq(s, "R_ARM_BASE_BREL") || eq(s, "R_PPC_REL32") || eq(s, "R_PPC64_REL32") || eq(s, "R_RISCV_HI20") || eq(s, "R_X86_64_GOTPC32"), "p_type_to_str(26)"); }
        if let Some(s) = elf::to_str::p_type_to_str(27) { assert!(eq(s, "R_ARM_PLT32") || eq(s, "R_PPC_PLT32") || eq(s, "R_PPC64_PLT32") || eq(s, "R_RISCV_LO12_I") || eq(s, "R_X86_64_GOT64"), "p_type_to_str(27)"); }
        if let Some(s) = elf::to_str::p_type_to_str(28) { assert!(eq(s, "R_ARM_CALL") || eq(s, "R_PPC_PLTREL32") || eq(s, "R_PPC64_PLTREL32") || eq(s, "R_RISCV_LO12_S") || eq(s, "R_X86_64_GOTPCREL64"), "p_type_to_str(28)"); }
        if let Some(s) = elf::to_str::p_type_to_str(29) { assert!(eq(s, "R_ARM_JUMP24") || eq(s, "R_PPC_PLT16_LO") || eq(s, "R_PPC64_PLT16_LO") || eq(s, "R_RISCV_TPREL_HI20") || eq(s, "R_X86_64_GOTPC64"), "p_type_to_str(29)"); }
        if let Some(s) = elf::to_str::p_type_to_str(30) { assert!(eq(s, "R_ARM_THM_JUMP24") || eq(s, "R_PPC_PLT16_HI") || eq(s, "R_PPC64_PLT16_HI") || eq(s, "R_RISCV_TPREL_LO12_I"), "p_type_to_str(30)"); }
        if let Some(s) = elf::to_str::p_type_to_str(31) { assert!(eq(s, "R_ARM_BASE_ABS") || eq(s, "R_PPC_PLT16_HA") || eq(s, "R_PPC64_PLT16_HA") || eq(s, "R_RISCV_TPREL_LO12_S") || eq(s, "R_X86_64_PLTOFF64"), "p_type_to_str(31)"); }
        if let Some(s) = elf::to_str::p_type_to_str(32) { assert!(eq(s, "SHF_STRINGS") || eq(s, "R_ARM_ALU_PCREL_7_0") || eq(s, "R_PPC_SDAREL16") || eq(s, "R_RISCV_TPREL_ADD") || eq(s, "R_X86_64_SIZE32"), "p_type_to_str(32)"); }
        if let Some(s) = elf::to_str::p_type_to_str(33) { assert!(eq(s, "R_ARM_ALU_PCREL_15_8") || eq(s, "R_PPC_SECTOFF") || eq(s, "R_PPC64_SECTOFF") || eq(s, "R_RISCV_ADD8") || eq(s, "R_X86_64_SIZE64"), "p_type_to_str(33)"); }
        if let Some(s) = elf::to_str::p_type_to_str(34) { assert!(eq(s, "R_ARM_ALU_PCREL_23_15") || eq(s, "R_PPC_SECTOFF_LO") || eq(s, "R_PPC64_SECTOFF_LO") || eq(s, "R_RISCV_ADD16") || eq(s, "R_X86_64_GOTPC32_TLSDESC"), "p_type_to_str(34)"); }
        if let Some(s) = elf::to_str::p_type_to_str(35) { assert!(eq(s, "R_ARM_LDR_SBREL_11_0") || eq(s, "R_PPC_SECTOFF_HI") || eq(s, "R_PPC64_SECTOFF_HI") || eq(s, "R_RISCV_ADD32") || eq(s, "R_X86_64_TLSDESC_CALL"), "p_type_to_str(35)"); }
        if let Some(s) = elf::to_str::p_type_to_str(36) { assert!(eq(s, "R_ARM_ALU_SBREL_19_12") || eq(s, "R_PPC_SECTOFF_HA") || eq(s, "R_PPC64_SECTOFF_HA") || eq(s, "R_RISCV_ADD64") || eq(s, "R_X86_64_TLSDESC"), "p_type_to_str(36)"); }
        if let Some(s) = elf::to_str::p_type_to_str(37) { assert!(eq(s, "R_ARM_ALU_SBREL_27_20") || eq(s, "R_PPC64_ADDR30") || eq(s, "R_RISCV_SUB8") || eq(s, "R_X86_64_IRELATIVE"), "p_type_to_str(37)"); }
        if let Some(s) = elf::to_str::p_type_to_str(38) { assert!(eq(s, "R_ARM_TARGET1") || eq(s, "R_PPC64_ADDR64") || eq(s, "R_RISCV_SUB16") || eq(s, "R_X86_64_RELATIVE64"), "p_type_to_str(38)"); }
        if let Some(s) = elf::to_str::p_type_to_str(39) { assert!(eq(s, "R_ARM_SBREL31") || eq(s, "R_PPC64_ADDR16_HIGHER") || eq(s, "R_RISCV_SUB32"), "p_type_to_str(39)"); }
        if let Some(s) = elf::to_str::p_type_to_str(40) { assert!(eq(s, "R_ARM_V4BX") || eq(s, "R_PPC64_ADDR16_HIGHERA") || eq(s, "R_RISCV_SUB64"), "p_type_to_str(40)"); }
        if let Some(s) = elf::to_str::p_type_to_str(41) { assert!(eq(s, "R_ARM_TARGET2") || eq(s, "R_PPC64_ADDR16_HIGHEST") || eq(s, "R_X86_64_GOTPCRELX"), "p_type_to_str(41)"); }
        if let Some(s) = elf::to_str::p_type_to_str(42) { assert!(eq(s, "R_ARM_PREL31") || eq(s, "R_PPC64_ADDR16_HIGHESTA") || eq(s, "R_X86_64_REX_GOTPCRELX"), "p_type_to_str(42)"); }
        if let Some(s) = elf::to_str::p_type_to_str(43) { assert!(eq(s, "R_ARM_MOVW_ABS_NC") || eq(s, "R_PPC64_UADDR64") || eq(s, "R_RISCV_ALIGN"), "p_type_to_str(43)"); }
        if let Some(s) = elf::to_str::p_type_to_str(44) { assert!(eq(s, "R_ARM_MOVT_ABS") || eq(s, "R_PPC64_REL64") || eq(s, "R_RISCV_RVC_BRANCH"), "p_type_to_str(44)"); }
        if let Some(s) = elf::to_str::p_type_to_str(45) { assert!(eq(s, "R_ARM_MOVW_PREL_NC") || eq(s, "R_PPC64_PLT64") || eq(s, "R_RISCV_RVC_JUMP"), "p_type_to_str(45)"); }
        if let Some(s) = elf::to_str::p_type_to_str(46) { assert!(eq(s, "R_ARM_MOVT_PREL") || eq(s, "R_PPC64_PLTREL64") || eq(s, "R_RISCV_RVC_LUI"), "p_type_to_str(46)"); }
        if let Some(s) = elf::to_str::p_type_to_str(47) { assert!(eq(s, "R_ARM_THM_MOVW_ABS_NC") || eq(s, "R_PPC64_TOC16"), "p_type_to_str(47)"); }
        if let Some(s) = elf::to_str::p_type_to_str(48) { assert!(eq(s, "R_ARM_THM_MOVT_ABS") || eq(s, "R_PPC64_TOC16_LO"), "p_type_to_str(48)"); }
        if let Some(s) = elf::to_str::p_type_to_str(49) { assert!(eq(s, "R_ARM_THM_MOVW_PREL_NC") || eq(s, "R_PPC64_TOC16_HI"), "p_type_to_str(49)"); }
        if let Some(s) = elf::to_str::p_type_to_str(50) { assert!(eq(s, "R_ARM_THM_MOVT_PREL") || eq(s, "R_PPC64_TOC16_HA"), "p_type_to_str(50)"); }
        if let Some(s) = elf::to_str::p_type_to_str(51) { assert!(eq(s, "R_ARM_THM_JUMP19") || eq(s, "R_PPC64_TOC") || eq(s, "R_RISCV_RELAX"), "p_type_to_str(51)"); }
        if let Some(s) = elf::to_str::p_type_to_str(52) { assert!(eq(s, "R_ARM_THM_JUMP6") || eq(s, "R_PPC64_PLTGOT16") || eq(s, "R_RISCV_SUB6"), "p_type_to_str(52)"); }
        if let Some(s) = elf::to_str::p_type_to_str(53) { assert!(eq(s, "R_ARM_THM_ALU_PREL_11_0") || eq(s, "R_PPC64_PLTGOT16_LO") || eq(s, "R_RISCV_SET6"), "p_type_to_str(53)"); }
        if let Some(s) = elf::to_str::p_type_to_str(54) { assert!(eq(s, "R_ARM_THM_PC12") || eq(s, "R_PPC64_PLTGOT16_HI") || eq(s, "R_RISCV_SET8"), "p_type_to_str(54)"); }
        if let Some(s) = elf::to_str::p_type_to_str(55) { assert!(eq(s, "R_ARM_ABS32_NOI") || eq(s, "R_PPC64_PLTGOT16_HA") || eq(s, "R_RISCV_SET16"), "p_type_to_str(55)"); }
        if let Some(s) = elf::to_str::p_type_to_str(56) { assert!(eq(s, "R_ARM_REL32_NOI") || eq(s, "R_PPC64_ADDR16_DS") || eq(s, "R_RISCV_SET32"), "p_type_to_str(56)"); }
        if let Some(s) = elf::to_str::p_type_to_str(57) { assert!(eq(s, "R_ARM_ALU_PC_G0_NC") || eq(s, "R_PPC64_ADDR16_LO_DS") || eq(s, "R_RISCV_32_PCREL"), "p_type_to_str(57)"); }
        if let Some(s) = elf::to_str::p_type_to_str(58) { assert!(eq(s, "R_ARM_ALU_PC_G0") || eq(s, "R_PPC64_GOT16_DS") || eq(s, "R_RISCV_IRELATIVE"), "p_type_to_str(58)"); }
        if let Some(s) = elf::to_str::p_type_to_str(59) { assert!(eq(s, "R_ARM_ALU_PC_G1_NC") || eq(s, "R_PPC64_GOT16_LO_DS"), "p_type_to_str(59)"); }
    }
    #[kani::proof]
    #[kani::unwind(41)]
    pub fn p_type_to_str_names_01() {
        if let Some(s) = elf::to_str::p_type_to_str(60) { assert!(eq(s, "R_ARM_ALU_PC_G1") || eq(s, "R_PPC64_PLT16_LO_DS") || eq(s, "R_PPC64_TPREL16_LO"), "p_type_to_str(60)"); }
        if let Some(s) = elf::to_str::p_type_to_str(61) { assert!(eq(s, "R_ARM_ALU_PC_G2") || eq(s, "R_PPC64_SECTOFF_DS"), "p_type_to_str(61)"); }
        if let Some(s) = elf::to_str::p_type_to_str(62) { assert!(eq(s, "R_ARM_LDR_PC_G1") || eq(s, "R_PPC64_SECTOFF_LO_DS"), "p_type_to_str(62)"); }
        if let Some(s) = elf::to_str::p_type_to_str(63) { assert!(eq(s, "R_ARM_LDR_PC_G2") || eq(s, "R_PPC64_TOC16_DS"), "p_type_to_str(63)"); }
        if let Some(s) = elf::to_str::p_type_to_str(64) { assert!(eq(s, "SHF_INFO_LINK") || eq(s, "R_ARM_LDRS_PC_G0") || eq(s, "R_PPC64_TOC16_LO_DS"), "p_type_to_str(64)"); }
        if let Some(s) = elf::to_str::p_type_to_str(65) { assert!(eq(s, "R_ARM_LDRS_PC_G1") || eq(s, "R_PPC64_PLTGOT16_DS"), "p_type_to_str(65)"); }
        if let Some(s) = elf::to_str::p_type_to_str(66) { assert!(eq(s, "R_ARM_LDRS_PC_G2") || eq(s, "R_PPC64_PLTGOT16_LO_DS"), "p_type_to_str(66)"); }
        if let Some(s) = elf::to_str::p_type_to_str(67) { assert!(eq(s, "R_ARM_LDC_PC_G0") || eq(s, "R_PPC_TLS") || eq(s, "R_PPC64_TLS"), "p_type_to_str(67)"); }
        if let Some(s) = elf::to_str::p_type_to_str(68) { assert!(eq(s, "R_ARM_LDC_PC_G1") || eq(s, "R_PPC_DTPMOD32") || eq(s, "R_PPC64_DTPMOD64"), "p_type_to_str(68)"); }
        if let Some(s) = elf::to_str::p_type_to_str(69) { assert!(eq(s, "R_ARM_LDC_PC_G2") || eq(s, "R_PPC_TPREL16") || eq(s, "R_PPC64_TPREL16"), "p_type_to_str(69)"); }
        if let Some(s) = elf::to_str::p_type_to_str(70) { assert!(eq(s, "R_ARM_ALU_SB_G0_NC") || eq(s, "R_PPC_TPREL16_LO"), "p_type_to_str(70)"); }
        if let Some(s) = elf::to_str::p_type_to_str(71) { assert!(eq(s, "R_ARM_ALU_SB_G0") || eq(s, "R_PPC_TPREL16_HI") || eq(s, "R_PPC64_TPREL16_HI"), "p_type_to_str(71)"); }
        if let Some(s) = elf::to_str::p_type_to_str(72) { assert!(eq(s, "R_ARM_ALU_SB_G1_NC") || eq(s, "R_PPC_TPREL16_HA") || eq(s, "R_PPC64_TPREL16_HA"), "p_type_to_str(72)"); }
        if let Some(s) = elf::to_str::p_type_to_str(73) { assert!(eq(s, "R_ARM_ALU_SB_G1") || eq(s, "R_PPC_TPREL32") || eq(s, "R_PPC64_TPREL64"), "p_type_to_str(73)"); }
        if let Some(s) = elf::to_str::p_type_to_str(74) { assert!(eq(s, "R_ARM_ALU_SB_G2") || eq(s, "R_PPC_DTPREL16") || eq(s, "R_PPC64_DTPREL16"), "p_type_to_str(74)"); }
        if let Some(s) = elf::to_str::p_type_to_str(75) { assert!(eq(s, "R_ARM_LDR_SB_G0") || eq(s, "R_PPC_DTPREL16_LO") || eq(s, "R_PPC64_DTPREL16_LO"), "p_type_to_str(75)"); }
        if let Some(s) = elf::to_str::p_type_to_str(76) { assert!(eq(s, "R_ARM_LDR_SB_G1") || eq(s, "R_PPC_DTPREL16_HI") || eq(s, "R_PPC64_DTPREL16_HI"), "p_type_to_str(76)"); }
        if let Some(s) = elf::to_str::p_type_to_str(77) { assert!(eq(s, "R_ARM_LDR_SB_G2") || eq(s, "R_PPC_DTPREL16_HA") || eq(s, "R_PPC64_DTPREL16_HA"), "p_type_to_str(77)"); }
        if let Some(s) = elf::to_str::p_type_to_str(78) { assert!(eq(s, "R_ARM_LDRS_SB_G0") || eq(s, "R_PPC_DTPREL32") || eq(s, "R_PPC64_DTPREL64"), "p_type_to_str(78)"); }
        if let Some(s) = elf::to_str::p_type_to_str(79) { assert!(eq(s, "R_ARM_LDRS_SB_G1") || eq(s, "R_PPC_GOT_TLSGD16") || eq(s, "R_PPC64_GOT_TLSGD16"), "p_type_to_str(79)"); }
        if let Some(s) = elf::to_str::p_type_to_str(80) { assert!(eq(s, "R_ARM_LDRS_SB_G2") || eq(s, "R_PPC_GOT_TLSGD16_LO") || eq(s, "R_PPC64_GOT_TLSGD16_LO"), "p_type_to_str(80)"); }
        if let Some(s) = elf::to_str::p_type_to_str(81) { assert!(eq(s, "R_ARM_LDC_SB_G0") || eq(s, "R_PPC_GOT_TLSGD16_HI") || eq(s, "R_PPC64_GOT_TLSGD16_HI"), "p_type_to_str(81)"); }
        if let Some(s) = elf::to_str::p_type_to_str(82) { assert!(eq(s, "R_ARM_LDC_SB_G1") || eq(s, "R_PPC_GOT_TLSGD16_HA") || eq(s, "R_PPC64_GOT_TLSGD16_HA"), "p_type_to_str(82)"); }
        if let Some(s) = elf::to_str::p_type_to_str(83) { assert!(eq(s, "R_ARM_LDC_SB_G2") || eq(s, "R_PPC_GOT_TLSLD16") || eq(s, "R_PPC64_GOT_TLSLD16"), "p_type_to_str(83)"); }
        if let Some(s) = elf::to_str::p_type_to_str(84) { assert!(eq(s, "R_ARM_MOVW_BREL_NC") || eq(s, "R_PPC_GOT_TLSLD16_LO") || eq(s, "R_PPC64_GOT_TLSLD16_LO"), "p_type_to_str(84)"); }
        if let Some(s) = elf::to_str::p_type_to_str(85) { assert!(eq(s, "R_ARM_MOVT_BREL") || eq(s, "R_PPC_GOT_TLSLD16_HI") || eq(s, "R_PPC64_GOT_TLSLD16_HI"), "p_type_to_str(85)"); }
        if let Some(s) = elf::to_str::p_type_to_str(86) { assert!(eq(s, "R_ARM_MOVW_BREL") || eq(s, "R_PPC_GOT_TLSLD16_HA") || eq(s, "R_PPC64_GOT_TLSLD16_HA"), "p_type_to_str(86)"); }
        if let Some(s) = elf::to_str::p_type_to_str(87) { assert!(eq(s, "R_ARM_THM_MOVW_BREL_NC") || eq(s, "R_PPC_GOT_TPREL16") || eq(s, "R_PPC64_GOT_TPREL16_DS"), "p_type_to_str(87)"); }
        if let Some(s) = elf::to_str::p_type_to_str(88) { assert!(eq(s, "R_ARM_THM_MOVT_BREL") || eq(s, "R_PPC_GOT_TPREL16_LO") || eq(s, "R_PPC64_GOT_TPREL16_LO_DS"), "p_type_to_str(88)"); }
        if let Some(s) = elf::to_str::p_type_to_str(89) { assert!(eq(s, "R_ARM_THM_MOVW_BREL") || eq(s, "R_PPC_GOT_TPREL16_HI") || eq(s, "R_PPC64_GOT_TPREL16_HI"), "p_type_to_str(89)"); }
        if let Some(s) = elf::to_str::p_type_to_str(90) { assert!(eq(s, "R_ARM_TLS_GOTDESC") || eq(s, "R_PPC_GOT_TPREL16_HA") || eq(s, "R_PPC64_GOT_TPREL16_HA"), "p_type_to_str(90)"); }
        if let Some(s) = elf::to_str::p_type_to_str(91) { assert!(eq(s, "R_ARM_TLS_CALL") || eq(s, "R_PPC_GOT_DTPREL16") || eq(s, "R_PPC64_GOT_DTPREL16_DS"), "p_type_to_str(91)"); }
        if let Some(s) = elf::to_str::p_type_to_str(92) { assert!(eq(s, "R_ARM_TLS_DESCSEQ") || eq(s, "R_PPC_GOT_DTPREL16_LO") || eq(s, "R_PPC64_GOT_DTPREL16_LO_DS"), "p_type_to_str(92)"); }
        if let Some(s) = elf::to_str::p_type_to_str(93) { assert!(eq(s, "R_ARM_THM_TLS_CALL") || eq(s, "R_PPC_GOT_DTPREL16_HI") || eq(s, "R_PPC64_GOT_DTPREL16_HI"), "p_type_to_str(93)"); }
        if let Some(s) = elf::to_str::p_type_to_str(94) { assert!(eq(s, "R_ARM_PLT32_ABS") || eq(s, "R_PPC_GOT_DTPREL16_HA") || eq(s, "R_PPC64_GOT_DTPREL16_HA"), "p_type_to_str(94)"); }
        if let Some(s) = elf::to_str::p_type_to_str(95) { assert!(eq(s, "R_ARM_GOT_ABS") || eq(s, "R_PPC_TLSGD") || eq(s, "R_PPC64_TPREL16_DS"), "p_type_to_str(95)"); }
        if let Some(s) = elf::to_str::p_type_to_str(96) { assert!(eq(s, "R_ARM_GOT_PREL") || eq(s, "R_PPC_TLSLD") || eq(s, "R_PPC64_TPREL16_LO_DS"), "p_type_to_str(96)"); }
        if let Some(s) = elf::to_str::p_type_to_str(97) { assert!(eq(s, "R_ARM_GOT_BREL12") || eq(s, "R_PPC64_TPREL16_HIGHER"), "p_type_to_str(97)"); }
        if let Some(s) = elf::to_str::p_type_to_str(98) { assert!(eq(s, "R_ARM_GOTOFF12") || eq(s, "R_PPC64_TPREL16_HIGHERA"), "p_type_to_str(98)"); }
        if let Some(s) = elf::to_str::p_type_to_str(99) { assert!(eq(s, "R_ARM_GOTRELAX") || eq(s, "R_PPC64_TPREL16_HIGHEST"), "p_type_to_str(99)"); }
        if let Some(s) = elf::to_str::p_type_to_str(100) { assert!(eq(s, "R_ARM_GNU_VTENTRY") || eq(s, "R_PPC64_TPREL16_HIGHESTA"), "p_type_to_str(100)"); }
        if let Some(s) = elf::to_str::p_type_to_str(101) { assert!(eq(s, "R_ARM_GNU_VTINHERIT") || eq(s, "R_PPC_EMB_NADDR32") || eq(s, "R_PPC64_DTPREL16_DS"), "p_type_to_str(101)"); }
        if let Some(s) = elf::to_str::p_type_to_str(102) { assert!(eq(s, "R_ARM_THM_JUMP11") || eq(s, "R_PPC_EMB_NADDR16") || eq(s, "R_PPC64_DTPREL16_LO_DS"), "p_type_to_str(102)"); }
        if let Some(s) = elf::to_str::p_type_to_str(103) { assert!(eq(s, "R_ARM_THM_JUMP8") || eq(s, "R_PPC_EMB_NADDR16_LO") || eq(s, "R_PPC64_DTPREL16_HIGHER"), "p_type_to_str(103)"); }
        if let Some(s) = elf::to_str::p_type_to_str(104) { assert!(eq(s, "R_ARM_TLS_GD32") || eq(s, "R_PPC_EMB_NADDR16_HI") || eq(s, "R_PPC64_DTPREL16_HIGHERA"), "p_type_to_str(104)"); }
        if let Some(s) = elf::to_str::p_type_to_str(105) { assert!(eq(s, "R_ARM_TLS_LDM32") || eq(s, "R_PPC_EMB_NADDR16_HA") || eq(s, "R_PPC64_DTPREL16_HIGHEST"), "p_type_to_str(105)"); }
        if let Some(s) = elf::to_str::p_type_to_str(106) { assert!(eq(s, "R_ARM_TLS_LDO32") || eq(s, "R_PPC_EMB_SDAI16") || eq(s, "R_PPC64_DTPREL16_HIGHESTA"), "p_type_to_str(106)"); }
        if let Some(s) = elf::to_str::p_type_to_str(107) { assert!(eq(s, "R_ARM_TLS_IE32") || eq(s, "R_PPC_EMB_SDA2I16") || eq(s, "R_PPC64_TLSGD"), "p_type_to_str(107)"); }
        if let Some(s) = elf::to_str::p_type_to_str(108) { assert!(eq(s, "R_ARM_TLS_LE32") || eq(s, "R_PPC_EMB_SDA2REL") || eq(s, "R_PPC64_TLSLD"), "p_type_to_str(108)"); }
        if let Some(s) = elf::to_str::p_type_to_str(109) { assert!(eq(s, "R_ARM_TLS_LDO12") || eq(s, "R_PPC_EMB_SDA21") || eq(s, "R_PPC64_TOCSAVE"), "p_type_to_str(109)"); }
        if let Some(s) = elf::to_str::p_type_to_str(110) { assert!(eq(s, "R_ARM_TLS_LE12") || eq(s, "R_PPC_EMB_MRKREF") || eq(s, "R_PPC64_ADDR16_HIGH"), "p_type_to_str(110)"); }
        if let Some(s) = elf::to_str::p_type_to_str(111) { assert!(eq(s, "R_ARM_TLS_IE12GP") || eq(s, "R_PPC_EMB_RELSEC16") || eq(s, "R_PPC64_ADDR16_HIGHA"), "p_type_to_str(111)"); }
        if let Some(s) = elf::to_str::p_type_to_str(112) { assert!(eq(s, "R_PPC_EMB_RELST_LO") || eq(s, "R_PPC64_TPREL16_HIGH"), "p_type_to_str(112)"); }
        if let Some(s) = elf::to_str::p_type_to_str(113) { assert!(eq(s, "R_PPC_EMB_RELST_HI") || eq(s, "R_PPC64_TPREL16_HIGHA"), "p_type_to_str(113)"); }
        if let Some(s) = elf::to_str::p_type_to_str(114) { assert!(eq(s, "R_PPC_EMB_RELST_HA") || eq(s, "R_PPC64_DTPREL16_HIGH"), "p_type_to_str(114)"); }
        if let Some(s) = elf::to_str::p_type_to_str(115) { assert!(eq(s, "R_PPC_EMB_BIT_FLD") || eq(s, "R_PPC64_DTPREL16_HIGHA"), "p_type_to_str(115)"); }
        if let Some(s) = elf::to_str::p_type_to_str(116) { assert!(eq(s, "R_PPC_EMB_RELSDA"), "p_type_to_str(116)"); }
        if let Some(s) = elf::to_str::p_type_to_str(128) { assert!(eq(s, "SHF_LINK_ORDER") || eq(s, "R_ARM_ME_TOO"), "p_type_to_str(128)"); }
        if let Some(s) = elf::to_str::p_type_to_str(129) { assert!(eq(s, "R_ARM_THM_TLS_DESCSEQ16"), "p_type_to_str(129)"); }
        if let Some(s) = elf::to_str::p_type_to_str(130) { assert!(eq(s, "R_ARM_THM_TLS_DESCSEQ32"), "p_type_to_str(130)"); }
    }
    #[kani::proof]
    #[kani::unwind(41)]
    pub fn p_type_to_str_names_02() {
        if let Some(s) = elf::to_str::p_type_to_str(131) { assert!(eq(s, "R_ARM_THM_GOT_BREL12"), "p_type_to_str(131)"); }
        if let Some(s) = elf::to_str::p_type_to_str(132) { assert!(eq(s, "R_ARM_THM_ALU_ABS_G0_NC"), "p_type_to_str(132)"); }
        if let Some(s) = elf::to_str::p_type_to_str(133) { assert!(eq(s, "R_ARM_THM_ALU_ABS_G1_NC"), "p_type_to_str(133)"); }
        if let Some(s) = elf::to_str::p_type_to_str(134) { assert!(eq(s, "R_ARM_THM_ALU_ABS_G2_NC"), "p_type_to_str(134)"); }
        if let Some(s) = elf::to_str::p_type_to_str(135) { assert!(eq(s, "R_ARM_THM_ALU_ABS_G3"), "p_type_to_str(135)"); }
        if let Some(s) = elf::to_str::p_type_to_str(136) { assert!(eq(s, "R_ARM_THM_BF16"), "p_type_to_str(136)"); }
        if let Some(s) = elf::to_str::p_type_to_str(137) { assert!(eq(s, "R_ARM_THM_BF12"), "p_type_to_str(137)"); }
        if let Some(s) = elf::to_str::p_type_to_str(138) { assert!(eq(s, "R_ARM_THM_BF18"), "p_type_to_str(138)"); }
        if let Some(s) = elf::to_str::p_type_to_str(160) { assert!(eq(s, "R_ARM_IRELATIVE"), "p_type_to_str(160)"); }
        if let Some(s) = elf::to_str::p_type_to_str(180) { assert!(eq(s, "R_AARCH64_P32_COPY") || eq(s, "R_PPC_DIAB_SDA21_LO"), "p_type_to_str(180)"); }
        if let Some(s) = elf::to_str::p_type_to_str(181) { assert!(eq(s, "R_AARCH64_P32_GLOB_DAT") || eq(s, "R_PPC_DIAB_SDA21_HI"), "p_type_to_str(181)"); }
        if let Some(s) = elf::to_str::p_type_to_str(182) { assert!(eq(s, "R_AARCH64_P32_JUMP_SLOT") || eq(s, "R_PPC_DIAB_SDA21_HA"), "p_type_to_str(182)"); }
        if let Some(s) = elf::to_str::p_type_to_str(183) { assert!(eq(s, "R_AARCH64_P32_RELATIVE") || eq(s, "R_PPC_DIAB_RELSDA_LO"), "p_type_to_str(183)"); }
        if let Some(s) = elf::to_str::p_type_to_str(184) { assert!(eq(s, "R_AARCH64_P32_TLS_DTPMOD") || eq(s, "R_PPC_DIAB_RELSDA_HI"), "p_type_to_str(184)"); }
        if let Some(s) = elf::to_str::p_type_to_str(185) { assert!(eq(s, "R_AARCH64_P32_TLS_DTPREL") || eq(s, "R_PPC_DIAB_RELSDA_HA"), "p_type_to_str(185)"); }
        if let Some(s) = elf::to_str::p_type_to_str(186) { assert!(eq(s, "R_AARCH64_P32_TLS_TPREL"), "p_type_to_str(186)"); }
        if let Some(s) = elf::to_str::p_type_to_str(187) { assert!(eq(s, "R_AARCH64_P32_TLSDESC"), "p_type_to_str(187)"); }
        if let Some(s) = elf::to_str::p_type_to_str(188) { assert!(eq(s, "R_AARCH64_P32_IRELATIVE"), "p_type_to_str(188)"); }
        if let Some(s) = elf::to_str::p_type_to_str(247) { assert!(eq(s, "R_PPC64_JMP_IREL"), "p_type_to_str(247)"); }
        if let Some(s) = elf::to_str::p_type_to_str(248) { assert!(eq(s, "R_PPC_IRELATIVE") || eq(s, "R_PPC64_IRELATIVE"), "p_type_to_str(248)"); }
        if let Some(s) = elf::to_str::p_type_to_str(249) { assert!(eq(s, "R_PPC_REL16") || eq(s, "R_PPC64_REL16"), "p_type_to_str(249)"); }
        if let Some(s) = elf::to_str::p_type_to_str(250) { assert!(eq(s, "R_PPC_REL16_LO") || eq(s, "R_PPC64_REL16_LO"), "p_type_to_str(250)"); }
        if let Some(s) = elf::to_str::p_type_to_str(251) { assert!(eq(s, "R_PPC_REL16_HI") || eq(s, "R_PPC64_REL16_HI"), "p_type_to_str(251)"); }
        if let Some(s) = elf::to_str::p_type_to_str(252) { assert!(eq(s, "R_PPC_REL16_HA") || eq(s, "R_PPC64_REL16_HA"), "p_type_to_str(252)"); }
        if let Some(s) = elf::to_str::p_type_to_str(255) { assert!(eq(s, "PT_ARM_ARCHEXT_ARCHMSK") || eq(s, "R_PPC_TOC16"), "p_type_to_str(255)"); }
        if let Some(s) = elf::to_str::p_type_to_str(256) { assert!(eq(s, "SHF_OS_NONCONFORMING"), "p_type_to_str(256)"); }
        if let Some(s) = elf::to_str::p_type_to_str(257) { assert!(eq(s, "R_AARCH64_ABS64"), "p_type_to_str(257)"); }
        if let Some(s) = elf::to_str::p_type_to_str(258) { assert!(eq(s, "R_AARCH64_ABS32"), "p_type_to_str(258)"); }
        if let Some(s) = elf::to_str::p_type_to_str(259) { assert!(eq(s, "R_AARCH64_ABS16"), "p_type_to_str(259)"); }
        if let Some(s) = elf::to_str::p_type_to_str(260) { assert!(eq(s, "R_AARCH64_PREL64"), "p_type_to_str(260)"); }
        if let Some(s) = elf::to_str::p_type_to_str(261) { assert!(eq(s, "R_AARCH64_PREL32"), "p_type_to_str(261)"); }
        if let Some(s) = elf::to_str::p_type_to_str(262) { assert!(eq(s, "R_AARCH64_PREL16"), "p_type_to_str(262)"); }
        if let Some(s) = elf::to_str::p_type_to_str(263) { assert!(eq(s, "R_AARCH64_MOVW_UABS_G0"), "p_type_to_str(263)"); }
        if let Some(s) = elf::to_str::p_type_to_str(264) { assert!(eq(s, "R_AARCH64_MOVW_UABS_G0_NC"), "p_type_to_str(264)"); }
        if let Some(s) = elf::to_str::p_type_to_str(265) { assert!(eq(s, "R_AARCH64_MOVW_UABS_G1"), "p_type_to_str(265)"); }
        if let Some(s) = elf::to_str::p_type_to_str(266) { assert!(eq(s, "R_AARCH64_MOVW_UABS_G1_NC"), "p_type_to_str(266)"); }
        if let Some(s) = elf::to_str::p_type_to_str(267) { assert!(eq(s, "R_AARCH64_MOVW_UABS_G2"), "p_type_to_str(267)"); }
        if let Some(s) = elf::to_str::p_type_to_str(268) { assert!(eq(s, "R_AARCH64_MOVW_UABS_G2_NC"), "p_type_to_str(268)"); }
        if let Some(s) = elf::to_str::p_type_to_str(269) { assert!(eq(s, "R_AARCH64_MOVW_UABS_G3"), "p_type_to_str(269)"); }
        if let Some(s) = elf::to_str::p_type_to_str(270) { assert!(eq(s, "R_AARCH64_MOVW_SABS_G0"), "p_type_to_str(270)"); }
        if let Some(s) = elf::to_str::p_type_to_str(271) { assert!(eq(s, "R_AARCH64_MOVW_SABS_G1"), "p_type_to_str(271)"); }
        if let Some(s) = elf::to_str::p_type_to_str(272) { assert!(eq(s, "R_AARCH64_MOVW_SABS_G2"), "p_type_to_str(272)"); }
        if let Some(s) = elf::to_str::p_type_to_str(273) { assert!(eq(s, "R_AARCH64_LD_PREL_LO19"), "p_type_to_str(273)"); }
        if let Some(s) = elf::to_str::p_type_to_str(274) { assert!(eq(s, "R_AARCH64_ADR_PREL_LO21"), "p_type_to_str(274)"); }
        if let Some(s) = elf::to_str::p_type_to_str(275) { assert!(eq(s, "R_AARCH64_ADR_PREL_PG_HI21"), "p_type_to_str(275)"); }
        if let Some(s) = elf::to_str::p_type_to_str(276) { assert!(eq(s, "R_AARCH64_ADR_PREL_PG_HI21_NC"), "p_type_to_str(276)"); }
        if let Some(s) = elf::to_str::p_type_to_str(277) { assert!(eq(s, "R_AARCH64_ADD_ABS_LO12_NC"), "p_type_to_str(277)"); }
        if let Some(s) = elf::to_str::p_type_to_str(278) { assert!(eq(s, "R_AARCH64_LDST8_ABS_LO12_NC"), "p_type_to_str(278)"); }
        if let Some(s) = elf::to_str::p_type_to_str(279) { assert!(eq(s, "R_AARCH64_TSTBR14"), "p_type_to_str(279)"); }
        if let Some(s) = elf::to_str::p_type_to_str(280) { assert!(eq(s, "R_AARCH64_CONDBR19"), "p_type_to_str(280)"); }
        if let Some(s) = elf::to_str::p_type_to_str(282) { assert!(eq(s, "R_AARCH64_JUMP26"), "p_type_to_str(282)"); }
        if let Some(s) = elf::to_str::p_type_to_str(283) { assert!(eq(s, "R_AARCH64_CALL26"), "p_type_to_str(283)"); }
        if let Some(s) = elf::to_str::p_type_to_str(284) { assert!(eq(s, "R_AARCH64_LDST16_ABS_LO12_NC"), "p_type_to_str(284)"); }
        if let Some(s) = elf::to_str::p_type_to_str(285) { assert!(eq(s, "R_AARCH64_LDST32_ABS_LO12_NC"), "p_type_to_str(285)"); }
        if let Some(s) = elf::to_str::p_type_to_str(286) { assert!(eq(s, "R_AARCH64_LDST64_ABS_LO12_NC"), "p_type_to_str(286)"); }
        if let Some(s) = elf::to_str::p_type_to_str(287) { assert!(eq(s, "R_AARCH64_MOVW_PREL_G0"), "p_type_to_str(287)"); }
        if let Some(s) = elf::to_str::p_type_to_str(288) { assert!(eq(s, "R_AARCH64_MOVW_PREL_G0_NC"), "p_type_to_str(288)"); }
        if let Some(s) = elf::to_str::p_type_to_str(289) { assert!(eq(s, "R_AARCH64_MOVW_PREL_G1"), "p_type_to_str(289)"); }
        if let Some(s) = elf::to_str::p_type_to_str(290) { assert!(eq(s, "R_AARCH64_MOVW_PREL_G1_NC"), "p_type_to_str(290)"); }
        if let Some(s) = elf::to_str::p_type_to_str(291) { assert!(eq(s, "R_AARCH64_MOVW_PREL_G2"), "p_type_to_str(291)"); }
    }
    #[kani::proof]
    #[kani::unwind(41)]
    pub fn p_type_to_str_names_03() {
        if let Some(s) = elf::to_str::p_type_to_str(292) { assert!(eq(s, "R_AARCH64_MOVW_PREL_G2_NC"), "p_type_to_str(292)"); }
        if let Some(s) = elf::to_str::p_type_to_str(293) { assert!(eq(s, "R_AARCH64_MOVW_PREL_G3"), "p_type_to_str(293)"); }
        if let Some(s) = elf::to_str::p_type_to_str(299) { assert!(eq(s, "R_AARCH64_LDST128_ABS_LO12_NC"), "p_type_to_str(299)"); }
        if let Some(s) = elf::to_str::p_type_to_str(300) { assert!(eq(s, "R_AARCH64_MOVW_GOTOFF_G0"), "p_type_to_str(300)"); }
        if let Some(s) = elf::to_str::p_type_to_str(301) { assert!(eq(s, "R_AARCH64_MOVW_GOTOFF_G0_NC"), "p_type_to_str(301)"); }
        if let Some(s) = elf::to_str::p_type_to_str(302) { assert!(eq(s, "R_AARCH64_MOVW_GOTOFF_G1"), "p_type_to_str(302)"); }
        if let Some(s) = elf::to_str::p_type_to_str(303) { assert!(eq(s, "R_AARCH64_MOVW_GOTOFF_G1_NC"), "p_type_to_str(303)"); }
        if let Some(s) = elf::to_str::p_type_to_str(304) { assert!(eq(s, "R_AARCH64_MOVW_GOTOFF_G2"), "p_type_to_str(304)"); }
        if let Some(s) = elf::to_str::p_type_to_str(305) { assert!(eq(s, "R_AARCH64_MOVW_GOTOFF_G2_NC"), "p_type_to_str(305)"); }
        if let Some(s) = elf::to_str::p_type_to_str(306) { assert!(eq(s, "R_AARCH64_MOVW_GOTOFF_G3"), "p_type_to_str(306)"); }
        if let Some(s) = elf::to_str::p_type_to_str(307) { assert!(eq(s, "R_AARCH64_GOTREL64"), "p_type_to_str(307)"); }
        if let Some(s) = elf::to_str::p_type_to_str(308) { assert!(eq(s, "R_AARCH64_GOTREL32"), "p_type_to_str(308)"); }
        if let Some(s) = elf::to_str::p_type_to_str(309) { assert!(eq(s, "R_AARCH64_GOT_LD_PREL19"), "p_type_to_str(309)"); }
        if let Some(s) = elf::to_str::p_type_to_str(310) { assert!(eq(s, "R_AARCH64_LD64_GOTOFF_LO15"), "p_type_to_str(310)"); }
        if let Some(s) = elf::to_str::p_type_to_str(311) { assert!(eq(s, "R_AARCH64_ADR_GOT_PAGE"), "p_type_to_str(311)"); }
        if let Some(s) = elf::to_str::p_type_to_str(312) { assert!(eq(s, "R_AARCH64_LD64_GOT_LO12_NC"), "p_type_to_str(312)"); }
        if let Some(s) = elf::to_str::p_type_to_str(313) { assert!(eq(s, "R_AARCH64_LD64_GOTPAGE_LO15"), "p_type_to_str(313)"); }
        if let Some(s) = elf::to_str::p_type_to_str(512) { assert!(eq(s, "SHF_GROUP") || eq(s, "EF_ARM_ABI_FLOAT_SOFT") || eq(s, "EF_ARM_SOFT_FLOAT") || eq(s, "R_AARCH64_TLSGD_ADR_PREL21"), "p_type_to_str(512)"); }
        if let Some(s) = elf::to_str::p_type_to_str(513) { assert!(eq(s, "R_AARCH64_TLSGD_ADR_PAGE21"), "p_type_to_str(513)"); }
        if let Some(s) = elf::to_str::p_type_to_str(514) { assert!(eq(s, "R_AARCH64_TLSGD_ADD_LO12_NC"), "p_type_to_str(514)"); }
        if let Some(s) = elf::to_str::p_type_to_str(515) { assert!(eq(s, "R_AARCH64_TLSGD_MOVW_G1"), "p_type_to_str(515)"); }
        if let Some(s) = elf::to_str::p_type_to_str(516) { assert!(eq(s, "R_AARCH64_TLSGD_MOVW_G0_NC"), "p_type_to_str(516)"); }
        if let Some(s) = elf::to_str::p_type_to_str(517) { assert!(eq(s, "R_AARCH64_TLSLD_ADR_PREL21"), "p_type_to_str(517)"); }
        if let Some(s) = elf::to_str::p_type_to_str(518) { assert!(eq(s, "R_AARCH64_TLSLD_ADR_PAGE21"), "p_type_to_str(518)"); }
        if let Some(s) = elf::to_str::p_type_to_str(519) { assert!(eq(s, "R_AARCH64_TLSLD_ADD_LO12_NC"), "p_type_to_str(519)"); }
        if let Some(s) = elf::to_str::p_type_to_str(520) { assert!(eq(s, "R_AARCH64_TLSLD_MOVW_G1"), "p_type_to_str(520)"); }
        if let Some(s) = elf::to_str::p_type_to_str(521) { assert!(eq(s, "R_AARCH64_TLSLD_MOVW_G0_NC"), "p_type_to_str(521)"); }
        if let Some(s) = elf::to_str::p_type_to_str(522) { assert!(eq(s, "R_AARCH64_TLSLD_LD_PREL19"), "p_type_to_str(522)"); }
        if let Some(s) = elf::to_str::p_type_to_str(523) { assert!(eq(s, "R_AARCH64_TLSLD_MOVW_DTPREL_G2"), "p_type_to_str(523)"); }
        if let Some(s) = elf::to_str::p_type_to_str(524) { assert!(eq(s, "R_AARCH64_TLSLD_MOVW_DTPREL_G1"), "p_type_to_str(524)"); }
        if let Some(s) = elf::to_str::p_type_to_str(525) { assert!(eq(s, "R_AARCH64_TLSLD_MOVW_DTPREL_G1_NC"), "p_type_to_str(525)"); }
        if let Some(s) = elf::to_str::p_type_to_str(526) { assert!(eq(s, "R_AARCH64_TLSLD_MOVW_DTPREL_G0"), "p_type_to_str(526)"); }
        if let Some(s) = elf::to_str::p_type_to_str(527) { assert!(eq(s, "R_AARCH64_TLSLD_MOVW_DTPREL_G0_NC"), "p_type_to_str(527)"); }
        if let Some(s) = elf::to_str::p_type_to_str(528) { assert!(eq(s, "R_AARCH64_TLSLD_ADD_DTPREL_HI12"), "p_type_to_str(528)"); }
        if let Some(s) = elf::to_str::p_type_to_str(529) { assert!(eq(s, "R_AARCH64_TLSLD_ADD_DTPREL_LO12"), "p_type_to_str(529)"); }
        if let Some(s) = elf::to_str::p_type_to_str(530) { assert!(eq(s, "R_AARCH64_TLSLD_ADD_DTPREL_LO12_NC"), "p_type_to_str(530)"); }
        if let Some(s) = elf::to_str::p_type_to_str(531) { assert!(eq(s, "R_AARCH64_TLSLD_LDST8_DTPREL_LO12"), "p_type_to_str(531)"); }
        if let Some(s) = elf::to_str::p_type_to_str(532) { assert!(eq(s, "R_AARCH64_TLSLD_LDST8_DTPREL_LO12_NC"), "p_type_to_str(532)"); }
        if let Some(s) = elf::to_str::p_type_to_str(533) { assert!(eq(s, "R_AARCH64_TLSLD_LDST16_DTPREL_LO12"), "p_type_to_str(533)"); }
        if let Some(s) = elf::to_str::p_type_to_str(534) { assert!(eq(s, "R_AARCH64_TLSLD_LDST16_DTPREL_LO12_NC"), "p_type_to_str(534)"); }
        if let Some(s) = elf::to_str::p_type_to_str(535) { assert!(eq(s, "R_AARCH64_TLSLD_LDST32_DTPREL_LO12"), "p_type_to_str(535)"); }
        if let Some(s) = elf::to_str::p_type_to_str(536) { assert!(eq(s, "R_AARCH64_TLSLD_LDST32_DTPREL_LO12_NC"), "p_type_to_str(536)"); }
        if let Some(s) = elf::to_str::p_type_to_str(537) { assert!(eq(s, "R_AARCH64_TLSLD_LDST64_DTPREL_LO12"), "p_type_to_str(537)"); }
        if let Some(s) = elf::to_str::p_type_to_str(538) { assert!(eq(s, "R_AARCH64_TLSLD_LDST64_DTPREL_LO12_NC"), "p_type_to_str(538)"); }
        if let Some(s) = elf::to_str::p_type_to_str(539) { assert!(eq(s, "R_AARCH64_TLSIE_MOVW_GOTTPREL_G1"), "p_type_to_str(539)"); }
        if let Some(s) = elf::to_str::p_type_to_str(540) { assert!(eq(s, "R_AARCH64_TLSIE_MOVW_GOTTPREL_G0_NC"), "p_type_to_str(540)"); }
        if let Some(s) = elf::to_str::p_type_to_str(541) { assert!(eq(s, "R_AARCH64_TLSIE_ADR_GOTTPREL_PAGE21"), "p_type_to_str(541)"); }
        if let Some(s) = elf::to_str::p_type_to_str(542) { assert!(eq(s, "R_AARCH64_TLSIE_LD64_GOTTPREL_LO12_NC"), "p_type_to_str(542)"); }
        if let Some(s) = elf::to_str::p_type_to_str(543) { assert!(eq(s, "R_AARCH64_TLSIE_LD_GOTTPREL_PREL19"), "p_type_to_str(543)"); }
        if let Some(s) = elf::to_str::p_type_to_str(544) { assert!(eq(s, "R_AARCH64_TLSLE_MOVW_TPREL_G2"), "p_type_to_str(544)"); }
        if let Some(s) = elf::to_str::p_type_to_str(545) { assert!(eq(s, "R_AARCH64_TLSLE_MOVW_TPREL_G1"), "p_type_to_str(545)"); }
        if let Some(s) = elf::to_str::p_type_to_str(546) { assert!(eq(s, "R_AARCH64_TLSLE_MOVW_TPREL_G1_NC"), "p_type_to_str(546)"); }
        if let Some(s) = elf::to_str::p_type_to_str(547) { assert!(eq(s, "R_AARCH64_TLSLE_MOVW_TPREL_G0"), "p_type_to_str(547)"); }
        if let Some(s) = elf::to_str::p_type_to_str(548) { assert!(eq(s, "R_AARCH64_TLSLE_MOVW_TPREL_G0_NC"), "p_type_to_str(548)"); }
        if let Some(s) = elf::to_str::p_type_to_str(549) { assert!(eq(s, "R_AARCH64_TLSLE_ADD_TPREL_HI12"), "p_type_to_str(549)"); }
        if let Some(s) = elf::to_str::p_type_to_str(550) { assert!(eq(s, "R_AARCH64_TLSLE_ADD_TPREL_LO12"), "p_type_to_str(550)"); }
        if let Some(s) = elf::to_str::p_type_to_str(551) { assert!(eq(s, "R_AARCH64_TLSLE_ADD_TPREL_LO12_NC"), "p_type_to_str(551)"); }
        if let Some(s) = elf::to_str::p_type_to_str(552) { assert!(eq(s, "R_AARCH64_TLSLE_LDST8_TPREL_LO12"), "p_type_to_str(552)"); }
        if let Some(s) = elf::to_str::p_type_to_str(553) { assert!(eq(s, "R_AARCH64_TLSLE_LDST8_TPREL_LO12_NC"), "p_type_to_str(553)"); }
        if let Some(s) = elf::to_str::p_type_to_str(554) { assert!(eq(s, "R_AARCH64_TLSLE_LDST16_TPREL_LO12"), "p_type_to_str(554)"); }
    }
    #[kani::proof]
    #[kani::unwind(41)]
    pub fn p_type_to_str_names_04() {
        if let Some(s) = elf::to_str::p_type_to_str(555) { assert!(eq(s, "R_AARCH64_TLSLE_LDST16_TPREL_LO12_NC"), "p_type_to_str(555)"); }
        if let Some(s) = elf::to_str::p_type_to_str(556) { assert!(eq(s, "R_AARCH64_TLSLE_LDST32_TPREL_LO12"), "p_type_to_str(556)"); }
        if let Some(s) = elf::to_str::p_type_to_str(557) { assert!(eq(s, "R_AARCH64_TLSLE_LDST32_TPREL_LO12_NC"), "p_type_to_str(557)"); }
        if let Some(s) = elf::to_str::p_type_to_str(558) { assert!(eq(s, "R_AARCH64_TLSLE_LDST64_TPREL_LO12"), "p_type_to_str(558)"); }
        if let Some(s) = elf::to_str::p_type_to_str(559) { assert!(eq(s, "R_AARCH64_TLSLE_LDST64_TPREL_LO12_NC"), "p_type_to_str(559)"); }
        if let Some(s) = elf::to_str::p_type_to_str(560) { assert!(eq(s, "R_AARCH64_TLSDESC_LD_PREL19"), "p_type_to_str(560)"); }
        if let Some(s) = elf::to_str::p_type_to_str(561) { assert!(eq(s, "R_AARCH64_TLSDESC_ADR_PREL21"), "p_type_to_str(561)"); }
        if let Some(s) = elf::to_str::p_type_to_str(562) { assert!(eq(s, "R_AARCH64_TLSDESC_ADR_PAGE21"), "p_type_to_str(562)"); }
        if let Some(s) = elf::to_str::p_type_to_str(563) { assert!(eq(s, "R_AARCH64_TLSDESC_LD64_LO12"), "p_type_to_str(563)"); }
        if let Some(s) = elf::to_str::p_type_to_str(564) { assert!(eq(s, "R_AARCH64_TLSDESC_ADD_LO12"), "p_type_to_str(564)"); }
        if let Some(s) = elf::to_str::p_type_to_str(565) { assert!(eq(s, "R_AARCH64_TLSDESC_OFF_G1"), "p_type_to_str(565)"); }
        if let Some(s) = elf::to_str::p_type_to_str(566) { assert!(eq(s, "R_AARCH64_TLSDESC_OFF_G0_NC"), "p_type_to_str(566)"); }
        if let Some(s) = elf::to_str::p_type_to_str(567) { assert!(eq(s, "R_AARCH64_TLSDESC_LDR"), "p_type_to_str(567)"); }
        if let Some(s) = elf::to_str::p_type_to_str(568) { assert!(eq(s, "R_AARCH64_TLSDESC_ADD"), "p_type_to_str(568)"); }
        if let Some(s) = elf::to_str::p_type_to_str(569) { assert!(eq(s, "R_AARCH64_TLSDESC_CALL"), "p_type_to_str(569)"); }
        if let Some(s) = elf::to_str::p_type_to_str(570) { assert!(eq(s, "R_AARCH64_TLSLE_LDST128_TPREL_LO12"), "p_type_to_str(570)"); }
        if let Some(s) = elf::to_str::p_type_to_str(571) { assert!(eq(s, "R_AARCH64_TLSLE_LDST128_TPREL_LO12_NC"), "p_type_to_str(571)"); }
        if let Some(s) = elf::to_str::p_type_to_str(572) { assert!(eq(s, "R_AARCH64_TLSLD_LDST128_DTPREL_LO12"), "p_type_to_str(572)"); }
        if let Some(s) = elf::to_str::p_type_to_str(573) { assert!(eq(s, "R_AARCH64_TLSLD_LDST128_DTPREL_LO12_NC"), "p_type_to_str(573)"); }
        if let Some(s) = elf::to_str::p_type_to_str(1024) { assert!(eq(s, "SHF_TLS") || eq(s, "EF_ARM_ABI_FLOAT_HARD") || eq(s, "EF_ARM_VFP_FLOAT") || eq(s, "R_AARCH64_COPY"), "p_type_to_str(1024)"); }
        if let Some(s) = elf::to_str::p_type_to_str(1025) { assert!(eq(s, "R_AARCH64_GLOB_DAT"), "p_type_to_str(1025)"); }
        if let Some(s) = elf::to_str::p_type_to_str(1026) { assert!(eq(s, "R_AARCH64_JUMP_SLOT"), "p_type_to_str(1026)"); }
        if let Some(s) = elf::to_str::p_type_to_str(1027) { assert!(eq(s, "R_AARCH64_RELATIVE"), "p_type_to_str(1027)"); }
        if let Some(s) = elf::to_str::p_type_to_str(1028) { assert!(eq(s, "R_AARCH64_TLS_DTPMOD"), "p_type_to_str(1028)"); }
        if let Some(s) = elf::to_str::p_type_to_str(1029) { assert!(eq(s, "R_AARCH64_TLS_DTPREL"), "p_type_to_str(1029)"); }
        if let Some(s) = elf::to_str::p_type_to_str(1030) { assert!(eq(s, "R_AARCH64_TLS_TPREL"), "p_type_to_str(1030)"); }
        if let Some(s) = elf::to_str::p_type_to_str(1031) { assert!(eq(s, "R_AARCH64_TLSDESC"), "p_type_to_str(1031)"); }
        if let Some(s) = elf::to_str::p_type_to_str(1032) { assert!(eq(s, "R_AARCH64_IRELATIVE"), "p_type_to_str(1032)"); }
        if let Some(s) = elf::to_str::p_type_to_str(2048) { assert!(eq(s, "SHF_COMPRESSED"), "p_type_to_str(2048)"); }
        if let Some(s) = elf::to_str::p_type_to_str(32768) { assert!(eq(s, "EF_PPC_RELOCATABLE_LIB"), "p_type_to_str(32768)"); }
        if let Some(s) = elf::to_str::p_type_to_str(65536) { assert!(eq(s, "EF_PPC_RELOCATABLE"), "p_type_to_str(65536)"); }
        if let Some(s) = elf::to_str::p_type_to_str(4198399) { assert!(eq(s, "EF_ARM_GCCMASK"), "p_type_to_str(4198399)"); }
        if let Some(s) = elf::to_str::p_type_to_str(4259840) { assert!(eq(s, "PT_ARM_ARCHEXT_PROF_ARM"), "p_type_to_str(4259840)"); }
        if let Some(s) = elf::to_str::p_type_to_str(5046272) { assert!(eq(s, "PT_ARM_ARCHEXT_PROF_MC"), "p_type_to_str(5046272)"); }
        if let Some(s) = elf::to_str::p_type_to_str(5373952) { assert!(eq(s, "PT_ARM_ARCHEXT_PROF_RT"), "p_type_to_str(5373952)"); }
        if let Some(s) = elf::to_str::p_type_to_str(5439488) { assert!(eq(s, "PT_ARM_ARCHEXT_PROF_CLASSIC"), "p_type_to_str(5439488)"); }
        if let Some(s) = elf::to_str::p_type_to_str(8388608) { assert!(eq(s, "EF_ARM_BE8"), "p_type_to_str(8388608)"); }
        if let Some(s) = elf::to_str::p_type_to_str(16711680) { assert!(eq(s, "PT_ARM_ARCHEXT_PROFMSK"), "p_type_to_str(16711680)"); }
        if let Some(s) = elf::to_str::p_type_to_str(16777216) { assert!(eq(s, "EF_ARM_EABI_VER1") || eq(s, "PT_ARM_ARCHEXT_FMT_ABI"), "p_type_to_str(16777216)"); }
        if let Some(s) = elf::to_str::p_type_to_str(33554432) { assert!(eq(s, "EF_ARM_EABI_VER2"), "p_type_to_str(33554432)"); }
        if let Some(s) = elf::to_str::p_type_to_str(50331648) { assert!(eq(s, "EF_ARM_EABI_VER3"), "p_type_to_str(50331648)"); }
        if let Some(s) = elf::to_str::p_type_to_str(67108864) { assert!(eq(s, "EF_ARM_EABI_VER4"), "p_type_to_str(67108864)"); }
        if let Some(s) = elf::to_str::p_type_to_str(83886080) { assert!(eq(s, "EF_ARM_EABI_VER5"), "p_type_to_str(83886080)"); }
        if let Some(s) = elf::to_str::p_type_to_str(267386880) { assert!(eq(s, "PF_MASKOS") || eq(s, "SHF_MASKOS"), "p_type_to_str(267386880)"); }
        if let Some(s) = elf::to_str::p_type_to_str(1610612736) { assert!(eq(s, "PT_LOOS") || eq(s, "SHT_LOOS") || eq(s, "ELFCOMPRESS_LOOS"), "p_type_to_str(1610612736)"); }
        if let Some(s) = elf::to_str::p_type_to_str(1685382480) { assert!(eq(s, "PT_GNU_EH_FRAME"), "p_type_to_str(1685382480)"); }
        if let Some(s) = elf::to_str::p_type_to_str(1685382481) { assert!(eq(s, "PT_GNU_STACK"), "p_type_to_str(1685382481)"); }
        if let Some(s) = elf::to_str::p_type_to_str(1685382482) { assert!(eq(s, "PT_GNU_RELRO"), "p_type_to_str(1685382482)"); }
        if let Some(s) = elf::to_str::p_type_to_str(1685382483) { assert!(eq(s, "PT_GNU_PROPERTY"), "p_type_to_str(1685382483)"); }
        if let Some(s) = elf::to_str::p_type_to_str(1879048181) { assert!(eq(s, "SHT_GNU_ATTRIBUTES"), "p_type_to_str(1879048181)"); }
        if let Some(s) = elf::to_str::p_type_to_str(1879048182) { assert!(eq(s, "SHT_GNU_HASH"), "p_type_to_str(1879048182)"); }
        if let Some(s) = elf::to_str::p_type_to_str(1879048183) { assert!(eq(s, "SHT_GNU_LIBLIST"), "p_type_to_str(1879048183)"); }
        if let Some(s) = elf::to_str::p_type_to_str(1879048189) { assert!(eq(s, "SHT_GNU_VERDEF"), "p_type_to_str(1879048189)"); }
        if let Some(s) = elf::to_str::p_type_to_str(1879048190) { assert!(eq(s, "SHT_GNU_VERNEED"), "p_type_to_str(1879048190)"); }
        if let Some(s) = elf::to_str::p_type_to_str(1879048191) { assert!(eq(s, "PT_HIOS") || eq(s, "SHT_GNU_VERSYM") || eq(s, "SHT_HIOS") || eq(s, "ELFCOMPRESS_HIOS"), "p_type_to_str(1879048191)"); }
        if let Some(s) = elf::to_str::p_type_to_str(1879048192) { assert!(eq(s, "PT_LOPROC") || eq(s, "SHT_LOPROC") || eq(s, "SHT_IA_64_EXT") || eq(s, "ELFCOMPRESS_LOPROC") || eq(s, "PT_ARM_ARCHEXT") || eq(s, "PT_AARCH64_ARCHEXT"), "p_type_to_str(1879048192)"); }
        if let Some(s) = elf::to_str::p_type_to_str(1879048193) { assert!(eq(s, "SHT_IA_64_UNWIND") || eq(s, "SHT_ARM_EXIDX") || eq(s, "PT_ARM_EXIDX") || eq(s, "PT_ARM_UNWIND") || eq(s, "PT_AARCH64_UNWIND") || eq(s, "SHT_X86_64_UNWIND"), "p_type_to_str(1879048193)"); }
        if let Some(s) = elf::to_str::p_type_to_str(1879048194) { assert!(eq(s, "SHT_ARM_PREEMPTMAP") || eq(s, "PT_AARCH64_MEMTAG_MTE"), "p_type_to_str(1879048194)"); }
        if let Some(s) = elf::to_str::p_type_to_str(1879048195) { assert!(eq(s, "SHT_ARM_ATTRIBUTES") || eq(s, "SHT_AARCH64_ATTRIBUTES") || eq(s, "SHT_RISCV_ATTRIBUTES") || eq(s, "PT_RISCV_ATTRIBUTES"), "p_type_to_str(1879048195)"); }
        if let Some(s) = elf::to_str::p_type_to_str(1879048196) { assert!(eq(s, "SHT_ARM_DEBUGOVERLAY"), "p_type_to_str(1879048196)"); }
    }
    #[kani::proof]
    #[kani::unwind(41)]
    pub fn p_type_to_str_names_05() {
        if let Some(s) = elf::to_str::p_type_to_str(1879048197) { assert!(eq(s, "SHT_ARM_OVERLAYSECTION"), "p_type_to_str(1879048197)"); }
        if let Some(s) = elf::to_str::p_type_to_str(2147483647) { assert!(eq(s, "PT_HIPROC") || eq(s, "SHT_HIPROC") || eq(s, "ELFCOMPRESS_HIPROC"), "p_type_to_str(2147483647)"); }
        if let Some(s) = elf::to_str::p_type_to_str(2147483648) { assert!(eq(s, "SHT_LOUSER") || eq(s, "EF_PPC_EMB"), "p_type_to_str(2147483648)"); }
        if let Some(s) = elf::to_str::p_type_to_str(2415919103) { assert!(eq(s, "SHT_HIUSER"), "p_type_to_str(2415919103)"); }
        if let Some(s) = elf::to_str::p_type_to_str(3221225472) { assert!(eq(s, "GNU_PROPERTY_AARCH64_FEATURE_1_AND"), "p_type_to_str(3221225472)"); }
        if let Some(s) = elf::to_str::p_type_to_str(4026531840) { assert!(eq(s, "PF_MASKPROC") || eq(s, "SHF_MASKPROC"), "p_type_to_str(4026531840)"); }
        if let Some(s) = elf::to_str::p_type_to_str(4278190080) { assert!(eq(s, "EF_ARM_EABIMASK") || eq(s, "PT_ARM_ARCHEXT_FMTMSK"), "p_type_to_str(4278190080)"); }
    }
    #[kani::proof]
    pub fn st_symtype_to_str_none_outside_constants() {
        let x: u8 = kani::any();
        kani::assume(x != 0 && x != 1 && x != 2 && x != 3 && x != 4 && x != 5 && x != 6 && x != 7 && x != 8 && x != 9 && x != 10 && x != 11);
        kani::assume(x != 12 && x != 13 && x != 14 && x != 15 && x != 16 && x != 17 && x != 18 && x != 69 && x != 70 && x != 76 && x != 127 && x != 128);
        kani::assume(x != 224);
        assert!(elf::to_str::st_symtype_to_str(x).is_none());
    }
    #[kani::proof]
    #[kani::unwind(26)]
    pub fn st_symtype_to_str_names_00() {
        if let Some(s) = elf::to_str::st_symtype_to_str(0) { assert!(eq(s, "ELFCLASSNONE") || eq(s, "ELFDATANONE") || eq(s, "ELFOSABI_NONE") || eq(s, "ELFOSABI_SYSV") || eq(s, "EV_NONE") || eq(s, "STT_NOTYPE") || eq(s, "STB_LOCAL") || eq(s, "STV_DEFAULT"), "st_symtype_to_str(0)"); }
        if let Some(s) = elf::to_str::st_symtype_to_str(1) { assert!(eq(s, "ELFCLASS32") || eq(s, "ELFDATA2LSB") || eq(s, "ELFOSABI_HPUX") || eq(s, "EV_CURRENT") || eq(s, "STT_OBJECT") || eq(s, "STB_GLOBAL") || eq(s, "STV_INTERNAL"), "st_symtype_to_str(1)"); }
        if let Some(s) = elf::to_str::st_symtype_to_str(2) { assert!(eq(s, "ELFCLASS64") || eq(s, "ELFDATA2MSB") || eq(s, "ELFOSABI_NETBSD") || eq(s, "STT_FUNC") || eq(s, "STB_WEAK") || eq(s, "STV_HIDDEN"), "st_symtype_to_str(2)"); }
        if let Some(s) = elf::to_str::st_symtype_to_str(3) { assert!(eq(s, "ELFOSABI_GNU") || eq(s, "ELFOSABI_LINUX") || eq(s, "STT_SECTION") || eq(s, "STV_PROTECTED"), "st_symtype_to_str(3)"); }
        if let Some(s) = elf::to_str::st_symtype_to_str(4) { assert!(eq(s, "STT_FILE"), "st_symtype_to_str(4)"); }
        if let Some(s) = elf::to_str::st_symtype_to_str(5) { assert!(eq(s, "STT_COMMON") || eq(s, "STO_PPC64_LOCAL_BIT"), "st_symtype_to_str(5)"); }
        if let Some(s) = elf::to_str::st_symtype_to_str(6) { assert!(eq(s, "ELFOSABI_SOLARIS") || eq(s, "STT_TLS"), "st_symtype_to_str(6)"); }
        if let Some(s) = elf::to_str::st_symtype_to_str(7) { assert!(eq(s, "ELFOSABI_AIX"), "st_symtype_to_str(7)"); }
        if let Some(s) = elf::to_str::st_symtype_to_str(8) { assert!(eq(s, "ELFOSABI_IRIX"), "st_symtype_to_str(8)"); }
        if let Some(s) = elf::to_str::st_symtype_to_str(9) { assert!(eq(s, "ELFOSABI_FREEBSD"), "st_symtype_to_str(9)"); }
        if let Some(s) = elf::to_str::st_symtype_to_str(10) { assert!(eq(s, "ELFOSABI_TRU64") || eq(s, "STT_GNU_IFUNC") || eq(s, "STT_LOOS") || eq(s, "STB_GNU_UNIQUE") || eq(s, "STB_LOOS"), "st_symtype_to_str(10)"); }
        if let Some(s) = elf::to_str::st_symtype_to_str(11) { assert!(eq(s, "ELFOSABI_MODESTO"), "st_symtype_to_str(11)"); }
        if let Some(s) = elf::to_str::st_symtype_to_str(12) { assert!(eq(s, "ELFOSABI_OPENBSD") || eq(s, "STT_HIOS") || eq(s, "STB_HIOS"), "st_symtype_to_str(12)"); }
        if let Some(s) = elf::to_str::st_symtype_to_str(13) { assert!(eq(s, "ELFOSABI_OPENVMS") || eq(s, "STT_LOPROC") || eq(s, "STB_LOPROC"), "st_symtype_to_str(13)"); }
        if let Some(s) = elf::to_str::st_symtype_to_str(14) { assert!(eq(s, "ELFOSABI_NSK"), "st_symtype_to_str(14)"); }
        if let Some(s) = elf::to_str::st_symtype_to_str(15) { assert!(eq(s, "ELFOSABI_AROS") || eq(s, "STT_HIPROC") || eq(s, "STB_HIPROC"), "st_symtype_to_str(15)"); }
        if let Some(s) = elf::to_str::st_symtype_to_str(16) { assert!(eq(s, "ELFOSABI_FENIXOS"), "st_symtype_to_str(16)"); }
        if let Some(s) = elf::to_str::st_symtype_to_str(17) { assert!(eq(s, "ELFOSABI_CLOUDABI"), "st_symtype_to_str(17)"); }
        if let Some(s) = elf::to_str::st_symtype_to_str(18) { assert!(eq(s, "ELFOSABI_OPENVOS"), "st_symtype_to_str(18)"); }
        if let Some(s) = elf::to_str::st_symtype_to_str(69) { assert!(eq(s, "ELFMAG1"), "st_symtype_to_str(69)"); }
        if let Some(s) = elf::to_str::st_symtype_to_str(70) { assert!(eq(s, "ELFMAG3"), "st_symtype_to_str(70)"); }
        if let Some(s) = elf::to_str::st_symtype_to_str(76) { assert!(eq(s, "ELFMAG2"), "st_symtype_to_str(76)"); }
        if let Some(s) = elf::to_str::st_symtype_to_str(127) { assert!(eq(s, "ELFMAG0"), "st_symtype_to_str(127)"); }
        if let Some(s) = elf::to_str::st_symtype_to_str(128) { assert!(eq(s, "STO_AARCH64_VARIANT_PCS") || eq(s, "STO_RISCV_VARIANT_CC"), "st_symtype_to_str(128)"); }
        if let Some(s) = elf::to_str::st_symtype_to_str(224) { assert!(eq(s, "STO_PPC64_LOCAL_MASK"), "st_symtype_to_str(224)"); }
    }
    #[kani::proof]
    pub fn st_bind_to_str_none_outside_constants() {
        let x: u8 = kani::any();
        kani::assume(x != 0 && x != 1 && x != 2 && x != 3 && x != 4 && x != 5 && x != 6 && x != 7 && x != 8 && x != 9 && x != 10 && x != 11);
        kani::assume(x != 12 && x != 13 && x != 14 && x != 15 && x != 16 && x != 17 && x != 18 && x != 69 && x != 70 && x != 76 && x != 127 && x != 128);
        kani::assume(x != 224);
        assert!(elf::to_str::st_bind_to_str(x).is_none());
    }
    #[kani::proof]
    #[kani::unwind(26)]
    pub fn st_bind_to_str_names_00() {
        if let Some(s) = elf::to_str::st_bind_to_str(0) { assert!(eq(s, "ELFCLASSNONE") || eq(s, "ELFDATANONE") || eq(s, "ELFOSABI_NONE") || eq(s, "ELFOSABI_SYSV") || eq(s, "EV_NONE") || eq(s, "STT_NOTYPE") || eq(s, "STB_LOCAL") || eq(s, "STV_DEFAULT"), "st_bind_to_str(0)"); }
        if let Some(s) = elf::to_str::st_bind_to_str(1) { assert!(eq(s, "ELFCLASS32") || eq(s, "ELFDATA2LSB") || eq(s, "ELFOSABI_HPUX") || eq(s, "EV_CURRENT") || eq(s, "STT_OBJECT") || eq(s, "STB_GLOBAL") || eq(s, "STV_INTERNAL"), "st_bind_to_str(1)"); }
        if let Some(s) = elf::to_str::st_bind_to_str(2) { assert!(eq(s, "ELFCLASS64") || eq(s, "ELFDATA2MSB") || eq(s, "ELFOSABI_NETBSD") || eq(s, "STT_FUNC") || eq(s, "STB_WEAK") || eq(s, "STV_HIDDEN"), "st_bind_to_str(2)"); }
        if let Some(s) = elf::to_str::st_bind_to_str(3) { assert!(eq(s, "ELFOSABI_GNU") || eq(s, "ELFOSABI_LINUX") || eq(s, "STT_SECTION") || eq(s, "STV_PROTECTED"), "st_bind_to_str(3)"); }
        if let Some(s) = elf::to_str::st_bind_to_str(4) { assert!(eq(s, "STT_FILE"), "st_bind_to_str(4)"); }
        if let Some(s) = elf::to_str::st_bind_to_str(5) { assert!(eq(s, "STT_COMMON") || eq(s, "STO_PPC64_LOCAL_BIT"), "st_bind_to_str(5)"); }
        if let Some(s) = elf::to_str::st_bind_to_str(6) { assert!(eq(s, "ELFOSABI_SOLARIS") || eq(s, "STT_TLS"), "st_bind_to_str(6)"); }
        if let Some(s) = elf::to_str::st_bind_to_str(7) { assert!(eq(s, "ELFOSABI_AIX"), "st_bind_to_str(7)"); }
        if let Some(s) = elf::to_str::st_bind_to_str(8) { assert!(eq(s, "ELFOSABI_IRIX"), "st_bind_to_str(8)"); }
        if let Some(s) = elf::to_str::st_bind_to_str(9) { assert!(eq(s, "ELFOSABI_FREEBSD"), "st_bind_to_str(9)"); }
        if let Some(s) = elf::to_str::st_bind_to_str(10) { assert!(eq(s, "ELFOSABI_TRU64") || eq(s, "STT_GNU_IFUNC") || eq(s, "STT_LOOS") || eq(s, "STB_GNU_UNIQUE") || eq(s, "STB_LOOS"), "st_bind_to_str(10)"); }
        if let Some(s) = elf::to_str::st_bind_to_str(11) { assert!(eq(s, "ELFOSABI_MODESTO"), "st_bind_to_str(11)"); }
        if let Some(s) = elf::to_str::st_bind_to_str(12) { assert!(eq(s, "ELFOSABI_OPENBSD") || eq(s, "STT_HIOS") || eq(s, "STB_HIOS"), "st_bind_to_str(12)"); }
        if let Some(s) = elf::to_str::st_bind_to_str(13) { assert!(eq(s, "ELFOSABI_OPENVMS") || eq(s, "STT_LOPROC") || eq(s, "STB_LOPROC"), "st_bind_to_str(13)"); }
        if let Some(s) = elf::to_str::st_bind_to_str(14) { assert!(eq(s, "ELFOSABI_NSK"), "st_bind_to_str(14)"); }
        if let Some(s) = elf::to_str::st_bind_to_str(15) { assert!(eq(s, "ELFOSABI_AROS") || eq(s, "STT_HIPROC") || eq(s, "STB_HIPROC"), "st_bind_to_str(15)"); }
        if let Some(s) = elf::to_str::st_bind_to_str(16) { assert!(eq(s, "ELFOSABI_FENIXOS"), "st_bind_to_str(16)"); }
        if let Some(s) = elf::to_str::st_bind_to_str(17) { assert!(eq(s, "ELFOSABI_CLOUDABI"), "st_bind_to_str(17)"); }
        if let Some(s) = elf::to_str::st_bind_to_str(18) { assert!(eq(s, "ELFOSABI_OPENVOS"), "st_bind_to_str(18)"); }
        if let Some(s) = elf::to_str::st_bind_to_str(69) { assert!(eq(s, "ELFMAG1"), "st_bind_to_str(69)"); }
        if let Some(s) = elf::to_str::st_bind_to_str(70) { assert!(eq(s, "ELFMAG3"), "st_bind_to_str(70)"); }
        if let Some(s) = elf::to_str::st_bind_to_str(76) { assert!(eq(s, "ELFMAG2"), "st_bind_to_str(76)"); }
        if let Some(s) = elf::to_str::st_bind_to_str(127) { assert!(eq(s, "ELFMAG0"), "st_bind_to_str(127)"); }
        if let Some(s) = elf::to_str::st_bind_to_str(128) { assert!(eq(s, "STO_AARCH64_VARIANT_PCS") || eq(s, "STO_RISCV_VARIANT_CC"), "st_bind_to_str(128)"); }
        if let Some(s) = elf::to_str::st_bind_to_str(224) { assert!(eq(s, "STO_PPC64_LOCAL_MASK"), "st_bind_to_str(224)"); }
    }
    #[kani::proof]
    pub fn st_vis_to_str_none_outside_constants() {
        let x: u8 = kani::any();
        kani::assume(x != 0 && x != 1 && x != 2 && x != 3 && x != 4 && x != 5 && x != 6 && x != 7 && x != 8 && x != 9 && x != 10 && x != 11);
        kani::assume(x != 12 && x != 13 && x != 14 && x != 15 && x != 16 && x != 17 && x != 18 && x != 69 && x != 70 && x != 76 && x != 127 && x != 128);
        kani::assume(x != 224);
        assert!(elf::to_str::st_vis_to_str(x).is_none());
    }
    #[kani::proof]
    #[kani::unwind(26)]
    pub fn st_vis_to_str_names_00() {
        if let Some(s) = elf::to_str::st_vis_to_str(0) { assert!(eq(s, "ELFCLASSNONE") || eq(s, "ELFDATANONE") || eq(s, "ELFOSABI_NONE") || eq(s, "ELFOSABI_SYSV") || eq(s, "EV_NONE") || eq(s, "STT_NOTYPE") || eq(s, "STB_LOCAL") || eq(s, "STV_DEFAULT"), "st_vis_to_str(0)"); }
        if let Some(s) = elf::to_str::st_vis_to_str(1) { assert!(eq(s, "ELFCLASS32") || eq(s, "ELFDATA2LSB") || eq(s, "ELFOSABI_HPUX") || eq(s, "EV_CURRENT") || eq(s, "STT_OBJECT") || eq(s, "STB_GLOBAL") || eq(s, "STV_INTERNAL"), "st_vis_to_str(1)"); }
        if let Some(s) = elf::to_str::st_vis_to_str(2) { assert!(eq(s, "ELFCLASS64") || eq(s, "ELFDATA2MSB") || eq(s, "ELFOSABI_NETBSD") || eq(s, "STT_FUNC") || eq(s, "STB_WEAK") || eq(s, "STV_HIDDEN"), "st_vis_to_str(2)"); }
        if let Some(s) = elf::to_str::st_vis_to_str(3) { assert!(eq(s, "ELFOSABI_GNU") || eq(s, "ELFOSABI_LINUX") || eq(s, "STT_SECTION") || eq(s, "STV_PROTECTED"), "st_vis_to_str(3)"); }
        if let Some(s) = elf::to_str::st_vis_to_str(4) { assert!(eq(s, "STT_FILE"), "st_vis_to_str(4)"); }
        if let Some(s) = elf::to_str::st_vis_to_str(5) { assert!(eq(s, "STT_COMMON") || eq(s, "STO_PPC64_LOCAL_BIT"), "st_vis_to_str(5)"); }
        if let Some(s) = elf::to_str::st_vis_to_str(6) { assert!(eq(s, "ELFOSABI_SOLARIS") || eq(s, "STT_TLS"), "st_vis_to_str(6)"); }
        if let Some(s) = elf::to_str::st_vis_to_str(7) { assert!(eq(s, "ELFOSABI_AIX"), "st_vis_to_str(7)"); }
        if let Some(s) = elf::to_str::st_vis_to_str(8) { assert!(eq(s, "ELFOSABI_IRIX"), "st_vis_to_str(8)"); }
        if let Some(s) = elf::to_str::st_vis_to_str(9) { assert!(eq(s, "ELFOSABI_FREEBSD"), "st_vis_to_str(9)"); }
        if let Some(s) = elf::to_str::st_vis_to_str(10) { assert!(eq(s, "ELFOSABI_TRU64") || eq(s, "STT_GNU_IFUNC") || eq(s, "STT_LOOS") || eq(s, "STB_GNU_UNIQUE") || eq(s, "STB_LOOS"), "st_vis_to_str(10)"); }
        if let Some(s) = elf::to_str::st_vis_to_str(11) { assert!(eq(s, "ELFOSABI_MODESTO"), "st_vis_to_str(11)"); }
        if let Some(s) = elf::to_str::st_vis_to_str(12) { assert!(eq(s, "ELFOSABI_OPENBSD") || eq(s, "STT_HIOS") || eq(s, "STB_HIOS"), "st_vis_to_str(12)"); }
        if let Some(s) = elf::to_str::st_vis_to_str(13) { assert!(eq(s, "ELFOSABI_OPENVMS") || eq(s, "STT_LOPROC") || eq(s, "STB_LOPROC"), "st_vis_to_str(13)"); }
        if let Some(s) = elf::to_str::st_vis_to_str(14) { assert!(eq(s, "ELFOSABI_NSK"), "st_vis_to_str(14)"); }
        if let Some(s) = elf::to_str::st_vis_to_str(15) { assert!(eq(s, "ELFOSABI_AROS") || eq(s, "STT_HIPROC") || eq(s, "STB_HIPROC"), "st_vis_to_str(15)"); }
        if let Some(s) = elf::to_str::st_vis_to_str(16) { assert!(eq(s, "ELFOSABI_FENIXOS"), "st_vis_to_str(16)"); }
        if let Some(s) = elf::to_str::st_vis_to_str(17) { assert!(eq(s, "ELFOSABI_CLOUDABI"), "st_vis_to_str(17)"); }
        if let Some(s) = elf::to_str::st_vis_to_str(18) { assert!(eq(s, "ELFOSABI_OPENVOS"), "st_vis_to_str(18)"); }
        if let Some(s) = elf::to_str::st_vis_to_str(69) { assert!(eq(s, "ELFMAG1"), "st_vis_to_str(69)"); }
        if let Some(s) = elf::to_str::st_vis_to_str(70) { assert!(eq(s, "ELFMAG3"), "st_vis_to_str(70)"); }
        if let Some(s) = elf::to_str::st_vis_to_str(76) { assert!(eq(s, "ELFMAG2"), "st_vis_to_str(76)"); }
        if let Some(s) = elf::to_str::st_vis_to_str(127) { assert!(eq(s, "ELFMAG0"), "st_vis_to_str(127)"); }
        if let Some(s) = elf::to_str::st_vis_to_str(128) { assert!(eq(s, "STO_AARCH64_VARIANT_PCS") || eq(s, "STO_RISCV_VARIANT_CC"), "st_vis_to_str(128)"); }
        if let Some(s) = elf::to_str::st_vis_to_str(224) { assert!(eq(s, "STO_PPC64_LOCAL_MASK"), "st_vis_to_str(224)"); }
    }
    #[kani::proof]
    pub fn ch_type_to_str_none_outside_constants() {
        let x: u32 = kani::any();
        kani::assume(x != 0 && x != 1 && x != 2 && x != 3 && x != 4 && x != 5 && x != 6 && x != 7 && x != 8 && x != 9 && x != 10 && x != 11);
        kani::assume(x != 12 && x != 13 && x != 14 && x != 15 && x != 16 && x != 17 && x != 18 && x != 19 && x != 20 && x != 21 && x != 22 && x != 23);
        kani::assume(x != 24 && x != 25 && x != 26 && x != 27 && x != 28 && x != 29 && x != 30 && x != 31 && x != 32 && x != 33 && x != 34 && x != 35);
        kani::assume(x != 36 && x != 37 && x != 38 && x != 39 && x != 40 && x != 41 && x != 42 && x != 43 && x != 44 && x != 45 && x != 46 && x != 47);
        kani::assume(x != 48 && x != 49 && x != 50 && x != 51 && x != 52 && x != 53 && x != 54 && x != 55 && x != 56 && x != 57 && x != 58 && x != 59);
        kani::assume(x != 60 && x != 61 && x != 62 && x != 63 && x != 64 && x != 65 && x != 66 && x != 67 && x != 68 && x != 69 && x != 70 && x != 71);
        kani::assume(x != 72 && x != 73 && x != 74 && x != 75 && x != 76 && x != 77 && x != 78 && x != 79 && x != 80 && x != 81 && x != 82 && x != 83);
        kani::assume(x != 84 && x != 85 && x != 86 && x != 87 && x != 88 && x != 89 && x != 90 && x != 91 && x != 92 && x != 93 && x != 94 && x != 95);
        kani::assume(x != 96 && x != 97 && x != 98 && x != 99 && x != 100 && x != 101 && x != 102 && x != 103 && x != 104 && x != 105 && x != 106 && x != 107);
        kani::assume(x != 108 && x != 109 && x != 110 && x != 111 && x != 112 && x != 113 && x != 114 && x != 115 && x != 116 && x != 128 && x != 129 && x != 130);
        kani::assume(x != 131 && x != 132 && x != 133 && x != 134 && x != 135 && x != 136 && x != 137 && x != 138 && x != 160 && x != 180 && x != 181 && x != 182);
        kani::assume(x != 183 && x != 184 && x != 185 && x != 186 && x != 187 && x != 188 && x != 247 && x != 248 && x != 249 && x != 250 && x != 251 && x != 252);
        kani::assume(x != 255 && x != 256 && x != 257 && x != 258 && x != 259 && x != 260 && x != 261 && x != 262 && x != 263 && x != 264 && x != 265 && x != 266);
        kani::assume(x != 267 && x != 268 && x != 269 && x != 270 && x != 271 && x != 272 && x != 273 && x != 274 && x != 275 && x != 276 && x != 277 && x != 278);
        kani::assume(x != 279 && x != 280 && x != 282 && x != 283 && x != 284 && x != 285 && x != 286 && x != 287 && x != 288 && x != 289 && x != 290 && x != 291);
        kani::assume(x != 292 && x != 293 && x != 299 && x != 300 && x != 301 && x != 302 && x != 303 && x != 304 && x != 305 && x != 306 && x != 307 && x != 308);
        kani::assume(x != 309 && x != 310 && x != 311 && x != 312 && x != 313 && x != 512 && x != 513 && x != 514 && x != 515 && x != 516 && x != 517 && x != 518);
        kani::assume(x != 519 && x != 520 && x != 521 && x != 522 && x != 523 && x != 524 && x != 525 && x != 526 && x != 527 && x != 528 && x != 529 && x != 530);
        kani::assume(x != 531 && x != 532 && x != 533 && x != 534 && x != 535 && x != 536 && x != 537 && x != 538 && x != 539 && x != 540 && x != 541 && x != 542);
        kani::assume(x != 543 && x != 544 && x != 545 && x != 546 && x != 547 && x != 548 && x != 549 && x != 550 && x != 551 && x != 552 && x != 553 && x != 554);
        kani::assume(x != 555 && x != 556 && x != 557 && x != 558 && x != 559 && x != 560 && x != 561 && x != 562 && x != 563 && x != 564 && x != 565 && x != 566);
        kani::assume(x != 567 && x != 568 && x != 569 && x != 570 && x != 571 && x != 572 && x != 573 && x != 1024 && x != 1025 && x != 1026 && x != 1027 && x != 1028);
        kani::assume(x != 1029 && x != 1030 && x != 1031 && x != 1032 && x != 2048 && x != 32768 && x != 65536 && x != 4198399 && x != 4259840 && x != 5046272 && x != 5373952 && x != 5439488);
        kani::assume(x != 8388608 && x != 16711680 && x != 16777216 && x != 33554432 && x != 50331648 && x != 67108864 && x != 83886080 && x != 267386880 && x != 1610612736 && x != 1685382480 && x != 1685382481 && x != 1685382482);
        kani::assume(x != 1685382483 && x != 1879048181 && x != 1879048182 && x != 1879048183 && x != 1879048189 && x != 1879048190 && x != 1879048191 && x != 1879048192 && x != 1879048193 && x != 1879048194 && x != 1879048195 && x != 1879048196);
        kani::assume(x != 1879048197 && x != 2147483647 && x != 2147483648 && x != 2415919103 && x != 3221225472 && x != 4026531840 && x != 4278190080);
        assert!(elf::to_str::ch_type_to_str(x).is_none());
    }
    #[kani::proof]
    #[kani::unwind(41)]
    pub fn ch_type_to_str_names_00() {
        if let Some(s) = elf::to_str::ch_type_to_str(0) { assert!(eq(s, "PF_NONE") || eq(s, "PT_NULL") || eq(s, "SHT_NULL") || eq(s, "SHF_NONE") || eq(s, "ELF_NOTE_GNU_ABI_TAG_OS_LINUX") || eq(s, "EF_ARM_EABI_UNKNOWN") || eq(s, "PT_ARM_ARCHEXT_FMT_OS") || eq(s, "PT_ARM_ARCHEXT_PROF_NONE") || eq(s, "PT_ARM_ARCHEXT_ARCH_UNKN") || eq(s, "R_ARM_NONE") || eq(s, "R_AARCH64_NONE") || eq(s, "R_PPC_NONE") || eq(s, "R_PPC64_NONE") || eq(s, "EF_RISCV_FLOAT_ABI_SOFT") || eq(s, "R_RISCV_NONE") || eq(s, "R_X86_64_NONE"), "ch_type_to_str(0)"); }
        if let Some(s) = elf::to_str::ch_type_to_str(1) { assert!(eq(s, "PF_X") || eq(s, "PT_LOAD") || eq(s, "SHT_PROGBITS") || eq(s, "SHF_WRITE") || eq(s, "ELFCOMPRESS_ZLIB") || eq(s, "ELF_NOTE_GNU_ABI_TAG_OS_GNU") || eq(s, "PT_ARM_ARCHEXT_ARCHV4") || eq(s, "R_ARM_PC24") || eq(s, "GNU_PROPERTY_AARCH64_FEATURE_1_BTI") || eq(s, "R_AARCH64_P32_ABS32") || eq(s, "R_PPC_ADDR32") || eq(s, "R_PPC64_ADDR32") || eq(s, "EF_RISCV_RVC") || eq(s, "R_RISCV_32") || eq(s, "R_X86_64_64"), "ch_type_to_str(1)"); }
        if let Some(s) = elf::to_str::ch_type_to_str(2) { assert!(eq(s, "PF_W") || eq(s, "PT_DYNAMIC") || eq(s, "SHT_SYMTAB") || eq(s, "SHF_ALLOC") || eq(s, "ELFCOMPRESS_ZSTD") || eq(s, "ELF_NOTE_GNU_ABI_TAG_OS_SOLARIS2") || eq(s, "PT_ARM_ARCHEXT_ARCHV4T") || eq(s, "R_ARM_ABS32") || eq(s, "GNU_PROPERTY_AARCH64_FEATURE_1_PAC") || eq(s, "R_PPC_ADDR24") || eq(s, "R_PPC64_ADDR24") || eq(s, "EF_RISCV_FLOAT_ABI_SINGLE") || eq(s, "R_RISCV_64") || eq(s, "R_X86_64_PC32"), "ch_type_to_str(2)"); }
        if let Some(s) = elf::to_str::ch_type_to_str(3) { assert!(eq(s, "PT_INTERP") || eq(s, "SHT_STRTAB") || eq(s, "ELF_NOTE_GNU_ABI_TAG_OS_FREEBSD") || eq(s, "PT_ARM_ARCHEXT_ARCHV5T") || eq(s, "R_ARM_REL32") || eq(s, "R_PPC_ADDR16") || eq(s, "EF_PPC64_ABI") || eq(s, "R_PPC64_ADDR16") || eq(s, "R_RISCV_RELATIVE") || eq(s, "R_X86_64_GOT32"), "ch_type_to_str(3)"); }
        if let Some(s) = elf::to_str::ch_type_to_str(4) { assert!(eq(s, "PF_R") || eq(s, "PT_NOTE") || eq(s, "SHT_RELA") || eq(s, "SHF_EXECINSTR") || eq(s, "PT_ARM_ARCHEXT_ARCHV5TE") || eq(s, "R_ARM_LDR_PC_G0") || eq(s, "R_PPC_ADDR16_LO") || eq(s, "R_PPC64_ADDR16_LO") || eq(s, "EF_RISCV_FLOAT_ABI_DOUBLE") || eq(s, "R_RISCV_COPY") || eq(s, "R_X86_64_PLT32"), "ch_type_to_str(4)"); }
        if let Some(s) = elf::to_str::ch_type_to_str(5) { assert!(eq(s, "PT_SHLIB") || eq(s, "SHT_HASH") || eq(s, "PT_ARM_ARCHEXT_ARCHV5TEJ") || eq(s, "R_ARM_ABS16") || eq(s, "R_PPC_ADDR16_HI") || eq(s, "R_PPC64_ADDR16_HI") || eq(s, "R_RISCV_JUMP_SLOT") || eq(s, "R_X86_64_COPY"), "ch_type_to_str(5)"); }
        if let Some(s) = elf::to_str::ch_type_to_str(6) { assert!(eq(s, "PT_PHDR") || eq(s, "SHT_DYNAMIC") || eq(s, "PT_ARM_ARCHEXT_ARCHV6") || eq(s, "R_ARM_ABS12") || eq(s, "R_PPC_ADDR16_HA") || eq(s, "R_PPC64_ADDR16_HA") || eq(s, "EF_RISCV_FLOAT_ABI_QUAD") || eq(s, "EF_RISCV_FLOAT_ABI_MASK") || eq(s, "R_RISCV_TLS_DTPMOD32") || eq(s, "R_X86_64_GLOB_DAT"), "ch_type_to_str(6)"); }
        if let Some(s) = elf::to_str::ch_type_to_str(7) { assert!(eq(s, "PT_TLS") || eq(s, "SHT_NOTE") || eq(s, "PT_ARM_ARCHEXT_ARCHV6KZ") || eq(s, "R_ARM_THM_ABS5") || eq(s, "R_PPC_ADDR14") || eq(s, "R_PPC64_ADDR14") || eq(s, "R_RISCV_TLS_DTPMOD64") || eq(s, "R_X86_64_JUMP_SLOT"), "ch_type_to_str(7)"); }
        if let Some(s) = elf::to_str::ch_type_to_str(8) { assert!(eq(s, "SHT_NOBITS") || eq(s, "PT_ARM_ARCHEXT_ARCHV6T2") || eq(s, "R_ARM_ABS8") || eq(s, "R_PPC_ADDR14_BRTAKEN") || eq(s, "R_PPC64_ADDR14_BRTAKEN") || eq(s, "EF_RISCV_RVE") || eq(s, "R_RISCV_TLS_DTPREL32") || eq(s, "R_X86_64_RELATIVE"), "ch_type_to_str(8)"); }
        if let Some(s) = elf::to_str::ch_type_to_str(9) { assert!(eq(s, "SHT_REL") || eq(s, "PT_ARM_ARCHEXT_ARCHV6K") || eq(s, "R_ARM_SBREL32") || eq(s, "R_PPC_ADDR14_BRNTAKEN") || eq(s, "R_PPC64_ADDR14_BRNTAKEN") || eq(s, "R_RISCV_TLS_DTPREL64") || eq(s, "R_X86_64_GOTPCREL"), "ch_type_to_str(9)"); }
        if let Some(s) = elf::to_str::ch_type_to_str(10) { assert!(eq(s, "SHT_SHLIB") || eq(s, "PT_ARM_ARCHEXT_ARCHV7") || eq(s, "R_ARM_THM_CALL") || eq(s, "R_PPC_REL24") || eq(s, "R_PPC64_REL24") || eq(s, "R_RISCV_TLS_TPREL32") || eq(s, "R_X86_64_32"), "ch_type_to_str(10)"); }
        if let Some(s) = elf::to_str::ch_type_to_str(11) { assert!(eq(s, "SHT_DYNSYM") || eq(s, "PT_ARM_ARCHEXT_ARCHV6M") || eq(s, "R_ARM_THM_PC8") || eq(s, "R_PPC_REL14") || eq(s, "R_PPC64_REL14") || eq(s, "R_RISCV_TLS_TPREL64") || eq(s, "R_X86_64_32S"), "ch_type_to_str(11)"); }
        if let Some(s) = elf::to_str::ch_type_to_str(12) { assert!(eq(s, "PT_ARM_ARCHEXT_ARCHV6SM") || eq(s, "R_ARM_BREL_ADJ") || eq(s, "R_PPC_REL14_BRTAKEN") || eq(s, "R_PPC64_REL14_BRTAKEN") || eq(s, "R_X86_64_16"), "ch_type_to_str(12)"); }
        if let Some(s) = elf::to_str::ch_type_to_str(13) { assert!(eq(s, "PT_ARM_ARCHEXT_ARCHV7EM") || eq(s, "R_ARM_TLS_DESC") || eq(s, "R_PPC_REL14_BRNTAKEN") || eq(s, "R_PPC64_REL14_BRNTAKEN") || eq(s, "R_X86_64_PC16"), "ch_type_to_str(13)"); }
        if let Some(s) = elf::to_str::ch_type_to_str(14) { assert!(eq(s, "SHT_INIT_ARRAY") || eq(s, "R_ARM_THM_SWI8") || eq(s, "R_PPC_GOT16") || eq(s, "R_PPC64_GOT16") || eq(s, "R_X86_64_8"), "ch_type_to_str(14)"); }
        if let Some(s) = elf::to_str::ch_type_to_str(15) { assert!(eq(s, "SHT_FINI_ARRAY") || eq(s, "R_ARM_XPC25") || eq(s, "R_PPC_GOT16_LO") || eq(s, "R_PPC64_GOT16_LO") || eq(s, "R_X86_64_PC8"), "ch_type_to_str(15)"); }
        if let Some(s) = elf::to_str::ch_type_to_str(16) { assert!(eq(s, "SHT_PREINIT_ARRAY") || eq(s, "SHF_MERGE") || eq(s, "R_ARM_THM_XPC22") || eq(s, "R_PPC_GOT16_HI") || eq(s, "R_PPC64_GOT16_HI") || eq(s, "EF_RISCV_TSO") || eq(s, "R_RISCV_BRANCH") || eq(s, "R_X86_64_DTPMOD64"), "ch_type_to_str(16)"); }
        if let Some(s) = elf::to_str::ch_type_to_str(17) { assert!(eq(s, "SHT_GROUP") || eq(s, "R_ARM_TLS_DTPMOD32") || eq(s, "R_PPC_GOT16_HA") || eq(s, "R_PPC64_GOT16_HA") || eq(s, "R_RISCV_JAL") || eq(s, "R_X86_64_DTPOFF64"), "ch_type_to_str(17)"); }
        if let Some(s) = elf::to_str::ch_type_to_str(18) { assert!(eq(s, "SHT_SYMTAB_SHNDX") || eq(s, "R_ARM_TLS_DTPOFF32") || eq(s, "R_PPC_PLTREL24") || eq(s, "R_RISCV_CALL") || eq(s, "R_X86_64_TPOFF64"), "ch_type_to_str(18)"); }
        if let Some(s) = elf::to_str::ch_type_to_str(19) { assert!(eq(s, "R_ARM_TLS_TPOFF32") || eq(s, "R_PPC_COPY") || eq(s, "R_PPC64_COPY") || eq(s, "R_RISCV_CALL_PLT") || eq(s, "R_X86_64_TLSGD"), "ch_type_to_str(19)"); }
        if let Some(s) = elf::to_str::ch_type_to_str(20) { assert!(eq(s, "R_ARM_COPY") || eq(s, "R_PPC_GLOB_DAT") || eq(s, "R_PPC64_GLOB_DAT") || eq(s, "R_RISCV_GOT_HI20") || eq(s, "R_X86_64_TLSLD"), "ch_type_to_str(20)"); }
        if let Some(s) = elf::to_str::ch_type_to_str(21) { assert!(eq(s, "R_ARM_GLOB_DAT") || eq(s, "R_PPC_JMP_SLOT") || eq(s, "R_PPC64_JMP_SLOT") || eq(s, "R_RISCV_TLS_GOT_HI20") || eq(s, "R_X86_64_DTPOFF32"), "ch_type_to_str(21)"); }
        if let Some(s) = elf::to_str::ch_type_to_str(22) { assert!(eq(s, "R_ARM_JUMP_SLOT") || eq(s, "R_PPC_RELATIVE") || eq(s, "R_PPC64_RELATIVE") || eq(s, "R_RISCV_TLS_GD_HI20") || eq(s, "R_X86_64_GOTTPOFF"), "ch_type_to_str(22)"); }
        if let Some(s) = elf::to_str::ch_type_to_str(23) { assert!(eq(s, "R_ARM_RELATIVE") || eq(s, "R_PPC_LOCAL24PC") || eq(s, "R_RISCV_PCREL_HI20") || eq(s, "R_X86_64_TPOFF32"), "ch_type_to_str(23)"); }
        if let Some(s) = elf::to_str::ch_type_to_str(24) { assert!(eq(s, "R_ARM_GOTOFF32") || eq(s, "R_PPC_UADDR32") || eq(s, "R_PPC64_UADDR32") || eq(s, "R_RISCV_PCREL_LO12_I") || eq(s, "R_X86_64_PC64"), "ch_type_to_str(24)"); }
        if let Some(s) = elf::to_str::ch_type_to_str(25) { assert!(eq(s, "R_ARM_BASE_PREL") || eq(s, "R_PPC_UADDR16") || eq(s, "R_PPC64_UADDR16") || eq(s, "R_RISCV_PCREL_LO12_S") || eq(s, "R_X86_64_GOTOFF64"), "ch_type_to_str(25)"); }
        if let Some(s) = elf::to_str::ch_type_to_str(26) { assert!(eq(s, "R_ARM_BASE_BREL") || eq(s, "R_PPC_REL32") || eq(s, "R_PPC64_REL32") || eq(s, "R_RISCV_HI20") || eq(s, "R_X86_64_GOTPC32"), "ch_type_to_str(26)"); }
        if let Some(s) = elf::to_str::ch_type_to_str(27) { assert!(eq(s, "R_ARM_PLT32") || eq(s, "R_PPC_PLT32") || eq(s, "R_PPC64_PLT32") || eq(s, "R_RISCV_LO12_I") || eq(s, "R_X86_64_GOT64"), "ch_type_to_str(27)"); }
        if let Some(s) = elf::to_str::ch_type_to_str(28) { assert!(eq(s, "R_ARM_CALL") || eq(s, "R_PPC_PLTREL32") || eq(s, "R_PPC64_PLTREL32") || eq(s, "R_RISCV_LO12_S") || eq(s, "R_X86_64_GOTPCREL64"), "ch_type_to_str(28)"); }
        if let Some(s) = elf::to_str::ch_type_to_str(29) { assert!(eq(s, "R_ARM_JUMP24") || eq(s, "R_PPC_PLT16_LO") || eq(s, "R_PPC64_PLT16_LO") || eq(s, "R_RISCV_TPREL_HI20") || eq(s, "R_X86_64_GOTPC64"), "ch_type_to_str(29)"); }
        if let Some(s) = elf::to_str::ch_type_to_str(30) { assert!(eq(s, "R_ARM_THM_JUMP24") || eq(s, "R_PPC_PLT16_HI") || eq(s, "R_PPC64_PLT16_HI") || eq(s, "R_RISCV_TPREL_LO12_I"), "ch_type_to_str(30)"); }
        if let Some(s) = elf::to_str::ch_type_to_str(31) { assert!(eq(s, "R_ARM_BASE_ABS") || eq(s, "R_PPC_PLT16_HA") || eq(s, "R_PPC64_PLT16_HA") || eq(s, "R_RISCV_TPREL_LO12_S") || eq(s, "R_X86_64_PLTOFF64"), "ch_type_to_str(31)"); }
        if let Some(s) = elf::to_str::ch_type_to_str(32) { assert!(eq(s, "SHF_STRINGS") || eq(s, "R_ARM_ALU_PCREL_7_0") || eq(s, "R_PPC_SDAREL16") || eq(s, "R_RISCV_TPREL_ADD") || eq(s, "R_X86_64_SIZE32"), "ch_type_to_str(32)"); }
        if let Some(s) = elf::to_str::ch_type_to_str(33) { assert!(eq(s, "R_ARM_ALU_PCREL_15_8") || eq(s, "R_PPC_SECTOFF") || eq(s, "R_PPC64_SECTOFF") || eq(s, "R_RISCV_ADD8") || eq(s, "R_X86_64_SIZE64"), "ch_type_to_str(33)"); }
        if let Some(s) = elf::to_str::ch_type_to_str(34) { assert!(eq(s, "R_ARM_ALU_PCREL_23_15") || eq(s, "R_PPC_SECTOFF_LO") || eq(s, "R_PPC64_SECTOFF_LO") || eq(s, "R_RISCV_ADD16") || eq(s, "R_X86_64_GOTPC32_TLSDESC"), "ch_type_to_str(34)"); }
        if let Some(s) = elf::to_str::ch_type_to_str(35) { assert!(eq(s, "R_ARM_LDR_SBREL_11_0") || eq(s, "R_PPC_SECTOFF_HI") || eq(s, "R_PPC64_SECTOFF_HI") || eq(s, "R_RISCV_ADD32") || eq(s, "R_X86_64_TLSDESC_CALL"), "ch_type_to_str(35)"); }
        if let Some(s) = elf::to_str::ch_type_to_str(36) { assert!(eq(s, "R_ARM_ALU_SBREL_19_12") || eq(s, "R_PPC_SECTOFF_HA") || eq(s, "R_PPC64_SECTOFF_HA") || eq(s, "R_RISCV_ADD64") || eq(s, "R_X86_64_TLSDESC"), "ch_type_to_str(36)"); }
        if let Some(s) = elf::to_str::ch_type_to_str(37) { assert!(eq(s, "R_ARM_ALU_SBREL_27_20") || eq(s, "R_PPC64_ADDR30") || eq(s, "R_RISCV_SUB8") || eq(s, "R_X86_64_IRELATIVE"), "ch_type_to_str(37)"); }
        if let Some(s) = elf::to_str::ch_type_to_str(38) { assert!(eq(s, "R_ARM_TARGET1") || eq(s, "R_PPC64_ADDR64") || eq(s, "R_RISCV_SUB16") || eq(s, "R_X86_64_RELATIVE64"), "ch_type_to_str(38)"); }
        if let Some(s) = elf::to_str::ch_type_to_str(39) { assert!(eq(s, "R_ARM_SBREL31") || eq(s, "R_PPC64_ADDR16_HIGHER") || eq(s, "R_RISCV_SUB32"), "ch_type_to_str(39)"); }
        if let Some(s) = elf::to_str::ch_type_to_str(40) { assert!(eq(s, "R_ARM_V4BX") || eq(s, "R_PPC64_ADDR16_HIGHERA") || eq(s, "R_RISCV_SUB64"), "ch_type_to_str(40)"); }
        if let Some(s) = elf::to_str::ch_type_to_str(41) { assert!(eq(s, "R_ARM_TARGET2") || eq(s, "R_PPC64_ADDR16_HIGHEST") || eq(s, "R_X86_64_GOTPCRELX"), "ch_type_to_str(41)"); }
        if let Some(s) = elf::to_str::ch_type_to_str(42) { assert!(eq(s, "R_ARM_PREL31") || eq(s, "R_PPC64_ADDR16_HIGHESTA") || eq(s, "R_X86_64_REX_GOTPCRELX"), "ch_type_to_str(42)"); }
        if let Some(s) = elf::to_str::ch_type_to_str(43) { assert!(eq(s, "R_ARM_MOVW_ABS_NC") || eq(s, "R_PPC64_UADDR64") || eq(s, "R_RISCV_ALIGN"), "ch_type_to_str(43)"); }
        if let Some(s) = elf::to_str::ch_type_to_str(44) { assert!(eq(s, "R_ARM_MOVT_ABS") || eq(s, "R_PPC64_REL64") || eq(s, "R_RISCV_RVC_BRANCH"), "ch_type_to_str(44)"); }
        if let Some(s) = elf::to_str::ch_type_to_str(45) { assert!(eq(s, "R_ARM_MOVW_PREL_NC") || eq(s, "R_PPC64_PLT64") || eq(s, "R_RISCV_RVC_JUMP"), "ch_type_to_str(45)"); }
        if let Some(s) = elf::to_str::ch_type_to_str(46) { assert!(eq(s, "R_ARM_MOVT_PREL") || eq(s, "R_PPC64_PLTREL64") || eq(s, "R_RISCV_RVC_LUI"), "ch_type_to_str(46)"); }
        if let Some(s) = elf::to_str::ch_type_to_str(47) { assert!(eq(s, "R_ARM_THM_MOVW_ABS_NC") || eq(s, "R_PPC64_TOC16"), "ch_type_to_str(47)"); }
        if let Some(s) = elf::to_str::ch_type_to_str(48) { assert!(eq(s, "R_ARM_THM_MOVT_ABS") || eq(s, "R_PPC64_TOC16_LO"), "ch_type_to_str(48)"); }
        if let Some(s) = elf::to_str::ch_type_to_str(49) { assert!(eq(s, "R_ARM_THM_MOVW_PREL_NC") || eq(s, "R_PPC64_TOC16_HI"), "ch_type_to_str(49)"); }
        if let Some(s) = elf::to_str::ch_type_to_str(50) { assert!(eq(s, "R_ARM_THM_MOVT_PREL") || eq(s, "R_PPC64_TOC16_HA"), "ch_type_to_str(50)"); }
        if let Some(s) = elf::to_str::ch_type_to_str(51) { assert!(eq(s, "R_ARM_THM_JUMP19") || eq(s, "R_PPC64_TOC") || eq(s, "R_RISCV_RELAX"), "ch_type_to_str(51)"); }
        if let Some(s) = elf::to_str::ch_type_to_str(52) { assert!(eq(s, "R_ARM_THM_JUMP6") || eq(s, "R_PPC64_PLTGOT16") || eq(s, "R_RISCV_SUB6"), "ch_type_to_str(52)"); }
        if let Some(s) = elf::to_str::ch_type_to_str(53) { assert!(eq(s, "R_ARM_THM_ALU_PREL_11_0") || eq(s, "R_PPC64_PLTGOT16_LO") || eq(s, "R_RISCV_SET6"), "ch_type_to_str(53)"); }
        if let Some(s) = elf::to_str::ch_type_to_str(54) { assert!(eq(s, "R_ARM_THM_PC12") || eq(s, "R_PPC64_PLTGOT16_HI") || eq(s, "R_RISCV_SET8"), "ch_type_to_str(54)"); }
        if let Some(s) = elf::to_str::ch_type_to_str(55) { assert!(eq(s, "R_ARM_ABS32_NOI") || eq(s, "R_PPC64_PLTGOT16_HA") || eq(s, "R_RISCV_SET16"), "ch_type_to_str(55)"); }
        if let Some(s) = elf::to_str::ch_type_to_str(56) { assert!(eq(s, "R_ARM_REL32_NOI") || eq(s, "R_PPC64_ADDR16_DS") || eq(s, "R_RISCV_SET32"), "ch_type_to_str(56)"); }
        if let Some(s) = elf::to_str::ch_type_to_str(57) { assert!(eq(s, "R_ARM_ALU_PC_G0_NC") || eq(s, "R_PPC64_ADDR16_LO_DS") || eq(s, "R_RISCV_32_PCREL"), "ch_type_to_str(57)"); }
        if let Some(s) = elf::to_str::ch_type_to_str(58) { assert!(eq(s, "R_ARM_ALU_PC_G0") || eq(s, "R_PPC64_GOT16_DS") || eq(s, "R_RISCV_IRELATIVE"), "ch_type_to_str(58)"); }
        if let Some(s) = elf::to_str::ch_type_to_str(59) { assert!(eq(s, "R_ARM_ALU_PC_G1_NC") || eq(s, "R_PPC64_GOT16_LO_DS"), "ch_type_to_str(59)"); }
    }
    #[kani::proof]
    #[kani::unwind(41)]
    pub fn ch_type_to_str_names_01() {
        if let Some(s) = elf::to_str::ch_type_to_str(60) { assert!(eq(s, "R_ARM_ALU_PC_G1") || eq(s, "R_PPC64_PLT16_LO_DS") || eq(s, "R_PPC64_TPREL16_LO"), "ch_type_to_str(60)"); }
        if let Some(s) = elf::to_str::ch_type_to_str(61) { assert!(eq(s, "R_ARM_ALU_PC_G2") || eq(s, "R_PPC64_SECTOFF_DS"), "ch_type_to_str(61)"); }
        if let Some(s) = elf::to_str::ch_type_to_str(62) { assert!(eq(s, "R_ARM_LDR_PC_G1") || eq(s, "R_PPC64_SECTOFF_LO_DS"), "ch_type_to_str(62)"); }
        if let Some(s) = elf::to_str::ch_type_to_str(63) { assert!(eq(s, "R_ARM_LDR_PC_G2") || eq(s, "R_PPC64_TOC16_DS"), "ch_type_to_str(63)"); }
        if let Some(s) = elf::to_str::ch_type_to_str(64) { assert!(eq(s, "SHF_INFO_LINK") || eq(s, "R_ARM_LDRS_PC_G0") || eq(s, "R_PPC64_TOC16_LO_DS"), "ch_type_to_str(64)"); }
        if let Some(s) = elf::to_str::ch_type_to_str(65) { assert!(eq(s, "R_ARM_LDRS_PC_G1") || eq(s, "R_PPC64_PLTGOT16_DS"), "ch_type_to_str(65)"); }
        if let Some(s) = elf::to_str::ch_type_to_str(66) { assert!(eq(s, "R_ARM_LDRS_PC_G2") || eq(s, "R_PPC64_PLTGOT16_LO_DS"), "ch_type_to_str(66)"); }
        if let Some(s) = elf::to_str::ch_type_to_str(67) { assert!(eq(s, "R_ARM_LDC_PC_G0") || eq(s, "R_PPC_TLS") || eq(s, "R_PPC64_TLS"), "ch_type_to_str(67)"); }
        if let Some(s) = elf::to_str::ch_type_to_str(68) { assert!(eq(s, "R_ARM_LDC_PC_G1") || eq(s, "R_PPC_DTPMOD32") || eq(s, "R_PPC64_DTPMOD64"), "ch_type_to_str(68)"); }
        if let Some(s) = elf::to_str::ch_type_to_str(69) { assert!(eq(s, "R_ARM_LDC_PC_G2") || eq(s, "R_PPC_TPREL16") || eq(s, "R_PPC64_TPREL16"), "ch_type_to_str(69)"); }
        if let Some(s) = elf::to_str::ch_type_to_str(70) { assert!(eq(s, "R_ARM_ALU_SB_G0_NC") || eq(s, "R_PPC_TPREL16_LO"), "ch_type_to_str(70)"); }
        if let Some(s) = elf::to_str::ch_type_to_str(71) { assert!(eq(s, "R_ARM_ALU_SB_G0") || eq(s, "R_PPC_TPREL16_HI") || eq(s, "R_PPC64_TPREL16_HI"), "ch_type_to_str(71)"); }
        if let Some(s) = elf::to_str::ch_type_to_str(72) { assert!(eq(s, "R_ARM_ALU_SB_G1_NC") || eq(s, "R_PPC_TPREL16_HA") || eq(s, "R_PPC64_TPREL16_HA"), "ch_type_to_str(72)"); }
        if let Some(s) = elf::to_str::ch_type_to_str(73) { assert!(eq(s, "R_ARM_ALU_SB_G1") || eq(s, "R_PPC_TPREL32") || eq(s, "R_PPC64_TPREL64"), "ch_type_to_str(73)"); }
        if let Some(s) = elf::to_str::ch_type_to_str(74) { assert!(eq(s, "R_ARM_ALU_SB_G2") || eq(s, "R_PPC_DTPREL16") || eq(s, "R_PPC64_DTPREL16"), "ch_type_to_str(74)"); }
        if let Some(s) = elf::to_str::ch_type_to_str(75) { assert!(eq(s, "R_ARM_LDR_SB_G0") || eq(s, "R_PPC_DTPREL16_LO") || eq(s, "R_PPC64_DTPREL16_LO"), "ch_type_to_str(75)"); }
        if let Some(s) = elf::to_str::ch_type_to_str(76) { assert!(eq(s, "R_ARM_LDR_SB_G1") || eq(s, "R_PPC_DTPREL16_HI") || eq(s, "R_PPC64_DTPREL16_HI"), "ch_type_to_str(76)"); }
        if let Some(s) = elf::to_str::ch_type_to_str(77) { assert!(eq(s, "R_ARM_LDR_SB_G2") || eq(s, "R_PPC_DTPREL16_HA") || eq(s, "R_PPC64_DTPREL16_HA"), "ch_type_to_str(77)"); }
        if let Some(s) = elf::to_str::ch_type_to_str(78) { assert!(eq(s, "R_ARM_LDRS_SB_G0") || eq(s, "R_PPC_DTPREL32") || eq(s, "R_PPC64_DTPREL64"), "ch_type_to_str(78)"); }
        if let Some(s) = elf::to_str::ch_type_to_str(79) { assert!(eq(s, "R_ARM_LDRS_SB_G1") || eq(s, "R_PPC_GOT_TLSGD16") || eq(s, "R_PPC64_GOT_TLSGD16"), "ch_type_to_str(79)"); }
        if let Some(s) = elf::to_str::ch_type_to_str(80) { assert!(eq(s, "R_ARM_LDRS_SB_G2") || eq(s, "R_PPC_GOT_TLSGD16_LO") || eq(s, "R_PPC64_GOT_TLSGD16_LO"), "ch_type_to_str(80)"); }
        if let Some(s) = elf::to_str::ch_type_to_str(81) { assert!(eq(s, "R_ARM_LDC_SB_G0") || eq(s, "R_PPC_GOT_TLSGD16_HI") || eq(s, "R_PPC64_GOT_TLSGD16_HI"), "ch_type_to_str(81)"); }
        if let Some(s) = elf::to_str::ch_type_to_str(82) { assert!(eq(s, "R_ARM_LDC_SB_G1") || eq(s, "R_PPC_GOT_TLSGD16_HA") || eq(s, "R_PPC64_GOT_TLSGD16_HA"), "ch_type_to_str(82)"); }
        if let Some(s) = elf::to_str::ch_type_to_str(83) { assert!(eq(s, "R_ARM_LDC_SB_G2") || eq(s, "R_PPC_GOT_TLSLD16") || eq(s, "R_PPC64_GOT_TLSLD16"), "ch_type_to_str(83)"); }
        if let Some(s) = elf::to_str::ch_type_to_str(84) { assert!(eq(s, "R_ARM_MOVW_BREL_NC") || eq(s, "R_PPC_GOT_TLSLD16_LO") || eq(s, "R_PPC64_GOT_TLSLD16_LO"), "ch_type_to_str(84)"); }
        if let Some(s) = elf::to_str::ch_type_to_str(85) { assert!(eq(s, "R_ARM_MOVT_BREL") || eq(s, "R_PPC_GOT_TLSLD16_HI") || eq(s, "R_PPC64_GOT_TLSLD16_HI"), "ch_type_to_str(85)"); }
        if let Some(s) = elf::to_str::ch_type_to_str(86) { assert!(eq(s, "R_ARM_MOVW_BREL") || eq(s, "R_PPC_GOT_TLSLD16_HA") || eq(s, "R_PPC64_GOT_TLSLD16_HA"), "ch_type_to_str(86)"); }
        if let Some(s) = elf::to_str::ch_type_to_str(87) { assert!(eq(s, "R_ARM_THM_MOVW_BREL_NC") || eq(s, "R_PPC_GOT_TPREL16") || eq(s, "R_PPC64_GOT_TPREL16_DS"), "ch_type_to_str(87)"); }
        if let Some(s) = elf::to_str::ch_type_to_str(88) { assert!(eq(s, "R_ARM_THM_MOVT_BREL") || eq(s, "R_PPC_GOT_TPREL16_LO") || eq(s, "R_PPC64_GOT_TPREL16_LO_DS"), "ch_type_to_str(88)"); }
        if let Some(s) = elf::to_str::ch_type_to_str(89) { assert!(eq(s, "R_ARM_THM_MOVW_BREL") || eq(s, "R_PPC_GOT_TPREL16_HI") || eq(s, "R_PPC64_GOT_TPREL16_HI"), "ch_type_to_str(89)"); }
        if let Some(s) = elf::to_str::ch_type_to_str(90) { assert!(eq(s, "R_ARM_TLS_GOTDESC") || eq(s, "R_PPC_GOT_TPREL16_HA") || eq(s, "R_PPC64_GOT_TPREL16_HA"), "ch_type_to_str(90)"); }
        if let Some(s) = elf::to_str::ch_type_to_str(91) { assert!(eq(s, "R_ARM_TLS_CALL") || eq(s, "R_PPC_GOT_DTPREL16") || eq(s, "R_PPC64_GOT_DTPREL16_DS"), "ch_type_to_str(91)"); }
        if let Some(s) = elf::to_str::ch_type_to_str(92) { assert!(eq(s, "R_ARM_TLS_DESCSEQ") || eq(s, "R_PPC_GOT_DTPREL16_LO") || eq(s, "R_PPC64_GOT_DTPREL16_LO_DS"), "ch_type_to_str(92)"); }
        if let Some(s) = elf::to_str::ch_type_to_str(93) { assert!(eq(s, "R_ARM_THM_TLS_CALL") || eq(s, "R_PPC_GOT_DTPREL16_HI") || eq(s, "R_PPC64_GOT_DTPREL16_HI"), "ch_type_to_str(93)"); }
        if let Some(s) = elf::to_str::ch_type_to_str(94) { assert!(eq(s, "R_ARM_PLT32_ABS") || eq(s, "R_PPC_GOT_DTPREL16_HA") || eq(s, "R_PPC64_GOT_DTPREL16_HA"), "ch_type_to_str(94)"); }
        if let Some(s) = elf::to_str::ch_type_to_str(95) { assert!(eq(s, "R_ARM_GOT_ABS") || eq(s, "R_PPC_TLSGD") || eq(s, "R_PPC64_TPREL16_DS"), "ch_type_to_str(95)"); }
        if let Some(s) = elf::to_str::ch_type_to_str(96) { assert!(eq(s, "R_ARM_GOT_PREL") || eq(s, "R_PPC_TLSLD") || eq(s, "R_PPC64_TPREL16_LO_DS"), "ch_type_to_str(96)"); }
        if let Some(s) = elf::to_str::ch_type_to_str(97) { assert!(eq(s, "R_ARM_GOT_BREL12") || eq(s, "R_PPC64_TPREL16_HIGHER"), "ch_type_to_str(97)"); }
        if let Some(s) = elf::to_str::ch_type_to_str(98) { assert!(eq(s, "R_ARM_GOTOFF12") || eq(s, "R_PPC64_TPREL16_HIGHERA"), "ch_type_to_str(98)"); }
        if let Some(s) = elf::to_str::ch_type_to_str(99) { assert!(eq(s, "R_ARM_GOTRELAX") || eq(s, "R_PPC64_TPREL16_HIGHEST"), "ch_type_to_str(99)"); }
        if let Some(s) = elf::to_str::ch_type_to_str(100) { assert!(eq(s, "R_ARM_GNU_VTENTRY") || eq(s, "R_PPC64_TPREL16_HIGHESTA"), "ch_type_to_str(100)"); }
        if let Some(s) = elf::to_str::ch_type_to_str(101) { assert!(eq(s, "R_ARM_GNU_VTINHERIT") || eq(s, "R_PPC_EMB_NADDR32") || eq(s, "R_PPC64_DTPREL16_DS"), "ch_type_to_str(101)"); }
        if let Some(s) = elf::to_str::ch_type_to_str(102) { assert!(eq(s, "R_ARM_THM_JUMP11") || eq(s, "R_PPC_EMB_NADDR16") || eq(s, "R_PPC64_DTPREL16_LO_DS"), "ch_type_to_str(102)"); }
        if let Some(s) = elf::to_str::ch_type_to_str(103) { assert!(eq(s, "R_ARM_THM_JUMP8") || eq(s, "R_PPC_EMB_NADDR16_LO") || eq(s, "R_PPC64_DTPREL16_HIGHER"), "ch_type_to_str(103)"); }
        if let Some(s) = elf::to_str::ch_type_to_str(104) { assert!(eq(s, "R_ARM_TLS_GD32") || eq(s, "R_PPC_EMB_NADDR16_HI") || eq(s, "R_PPC64_DTPREL16_HIGHERA"), "ch_type_to_str(104)"); }
        if let Some(s) = elf::to_str::ch_type_to_str(105) { assert!(eq(s, "R_ARM_TLS_LDM32") || eq(s, "R_PPC_EMB_NADDR16_HA") || eq(s, "R_PPC64_DTPREL16_HIGHEST"), "ch_type_to_str(105)"); }
        if let Some(s) = elf::to_str::ch_type_to_str(106) { assert!(eq(s, "R_ARM_TLS_LDO32") || eq(s, "R_PPC_EMB_SDAI16") || eq(s, "R_PPC64_DTPREL16_HIGHESTA"), "ch_type_to_str(106)"); }
        if let Some(s) = elf::to_str::ch_type_to_str(107) { assert!(eq(s, "R_ARM_TLS_IE32") || eq(s, "R_PPC_EMB_SDA2I16") || eq(s, "R_PPC64_TLSGD"), "ch_type_to_str(107)"); }
        if let Some(s) = elf::to_str::ch_type_to_str(108) { assert!(eq(s, "R_ARM_TLS_LE32") || eq(s, "R_PPC_EMB_SDA2REL") || eq(s, "R_PPC64_TLSLD"), "ch_type_to_str(108)"); }
        if let Some(s) = elf::to_str::ch_type_to_str(109) { assert!(eq(s, "R_ARM_TLS_LDO12") || eq(s, "R_PPC_EMB_SDA21") || eq(s, "R_PPC64_TOCSAVE"), "ch_type_to_str(109)"); }
        if let Some(s) = elf::to_str::ch_type_to_str(110) { assert!(eq(s, "R_ARM_TLS_LE12") || eq(s, "R_PPC_EMB_MRKREF") || eq(s, "R_PPC64_ADDR16_HIGH"), "ch_type_to_str(110)"); }
        if let Some(s) = elf::to_str::ch_type_to_str(111) { assert!(eq(s, "R_ARM_TLS_IE12GP") || eq(s, "R_PPC_EMB_RELSEC16") || eq(s, "R_PPC64_ADDR16_HIGHA"), "ch_type_to_str(111)"); }
        if let Some(s) = elf::to_str::ch_type_to_str(112) { assert!(eq(s, "R_PPC_EMB_RELST_LO") || eq(s, "R_PPC64_TPREL16_HIGH"), "ch_type_to_str(112)"); }
        if let Some(s) = elf::to_str::ch_type_to_str(113) { assert!(eq(s, "R_PPC_EMB_RELST_HI") || eq(s, "R_PPC64_TPREL16_HIGHA"), "ch_type_to_str(113)"); }
        if let Some(s) = elf::to_str::ch_type_to_str(114) { assert!(eq(s, "R_PPC_EMB_RELST_HA") || eq(s, "R_PPC64_DTPREL16_HIGH"), "ch_type_to_str(114)"); }
        if let Some(s) = elf::to_str::ch_type_to_str(115) { assert!(eq(s, "R_PPC_EMB_BIT_FLD") || eq(s, "R_PPC64_DTPREL16_HIGHA"), "ch_type_to_str(115)"); }
        if let Some(s) = elf::to_str::ch_type_to_str(116) { assert!(eq(s, "R_PPC_EMB_RELSDA"), "ch_type_to_str(116)"); }
        if let Some(s) = elf::to_str::ch_type_to_str(128) { assert!(eq(s, "SHF_LINK_ORDER") || eq(s, "R_ARM_ME_TOO"), "ch_type_to_str(128)"); }
        if let Some(s) = elf::to_str::ch_type_to_str(129) { assert!(eq(s, "R_ARM_THM_TLS_DESCSEQ16"), "ch_type_to_str(129)"); }
        if let Some(s) = elf::to_str::ch_type_to_str(130) { assert!(eq(s, "R_ARM_THM_TLS_DESCSEQ32"), "ch_type_to_str(130)"); }
    }
    #[kani::proof]
    #[kani::unwind(41)]
    pub fn ch_type_to_str_names_02() {
        if let Some(s) = elf::to_str::ch_type_to_str(131) { assert!(eq(s, "R_ARM_THM_GOT_BREL12"), "ch_type_to_str(131)"); }
        if let Some(s) = elf::to_str::ch_type_to_str(132) { assert!(eq(s, "R_ARM_THM_ALU_ABS_G0_NC"), "ch_type_to_str(132)"); }
        if let Some(s) = elf::to_str::ch_type_to_str(133) { assert!(eq(s, "R_ARM_THM_ALU_ABS_G1_NC"), "ch_type_to_str(133)"); }
        if let Some(s) = elf::to_str::ch_type_to_str(134) { assert!(eq(s, "R_ARM_THM_ALU_ABS_G2_NC"), "ch_type_to_str(134)"); }
        if let Some(s) = elf::to_str::ch_type_to_str(135) { assert!(eq(s, "R_ARM_THM_ALU_ABS_G3"), "ch_type_to_str(135)"); }
        if let Some(s) = elf::to_str::ch_type_to_str(136) { assert!(eq(s, "R_ARM_THM_BF16"), "ch_type_to_str(136)"); }
        if let Some(s) = elf::to_str::ch_type_to_str(137) { assert!(eq(s, "R_ARM_THM_BF12"), "ch_type_to_str(137)"); }
        if let Some(s) = elf::to_str::ch_type_to_str(138) { assert!(eq(s, "R_ARM_THM_BF18"), "ch_type_to_str(138)"); }
        if let Some(s) = elf::to_str::ch_type_to_str(160) { assert!(eq(s, "R_ARM_IRELATIVE"), "ch_type_to_str(160)"); }
        if let Some(s) = elf::to_str::ch_type_to_str(180) { assert!(eq(s, "R_AARCH64_P32_COPY") || eq(s, "R_PPC_DIAB_SDA21_LO"), "ch_type_to_str(180)"); }
        if let Some(s) = elf::to_str::ch_type_to_str(181) { assert!(eq(s, "R_AARCH64_P32_GLOB_DAT") || eq(s, "R_PPC_DIAB_SDA21_HI"), "ch_type_to_str(181)"); }
        if let Some(s) = elf::to_str::ch_type_to_str(182) { assert!(eq(s, "R_AARCH64_P32_JUMP_SLOT") || eq(s, "R_PPC_DIAB_SDA21_HA"), "ch_type_to_str(182)"); }
        if let Some(s) = elf::to_str::ch_type_to_str(183) { assert!(eq(s, "R_AARCH64_P32_RELATIVE") || eq(s, "R_PPC_DIAB_RELSDA_LO"), "ch_type_to_str(183)"); }
        if let Some(s) = elf::to_str::ch_type_to_str(184) { assert!(eq(s, "R_AARCH64_P32_TLS_DTPMOD") || eq(s, "R_PPC_DIAB_RELSDA_HI"), "ch_type_to_str(184)"); }
        if let Some(s) = elf::to_str::ch_type_to_str(185) { assert!(eq(s, "R_AARCH64_P32_TLS_DTPREL") || eq(s, "R_PPC_DIAB_RELSDA_HA"), "ch_type_to_str(185)"); }
        if let Some(s) = elf::to_str::ch_type_to_str(186) { assert!(eq(s, "R_AARCH64_P32_TLS_TPREL"), "ch_type_to_str(186)"); }
        if let Some(s) = elf::to_str::ch_type_to_str(187) { assert!(eq(s, "R_AARCH64_P32_TLSDESC"), "ch_type_to_str(187)"); }
        if let Some(s) = elf::to_str::ch_type_to_str(188) { assert!(eq(s, "R_AARCH64_P32_IRELATIVE"), "ch_type_to_str(188)"); }
        if let Some(s) = elf::to_str::ch_type_to_str(247) { assert!(eq(s, "R_PPC64_JMP_IREL"), "ch_type_to_str(247)"); }
        if let Some(s) = elf::to_str::ch_type_to_str(248) { assert!(eq(s, "R_PPC_IRELATIVE") || eq(s, "R_PPC64_IRELATIVE"), "ch_type_to_str(248)"); }
        if let Some(s) = elf::to_str::ch_type_to_str(249) { assert!(eq(s, "R_PPC_REL16") || eq(s, "R_PPC64_REL16"), "ch_type_to_str(249)"); }
        if let Some(s) = elf::to_str::ch_type_to_str(250) { assert!(eq(s, "R_PPC_REL16_LO") || eq(s, "R_PPC64_REL16_LO"), "ch_type_to_str(250)"); }
        if let Some(s) = elf::to_str::ch_type_to_str(251) { assert!(eq(s, "R_PPC_REL16_HI") || eq(s, "R_PPC64_REL16_HI"), "ch_type_to_str(251)"); }
        if let Some(s) = elf::to_str::ch_type_to_str(252) { assert!(eq(s, "R_PPC_REL16_HA") || eq(s, "R_PPC64_REL16_HA"), "ch_type_to_str(252)"); }
        if let Some(s) = elf::to_str::ch_type_to_str(255) { assert!(eq(s, "PT_ARM_ARCHEXT_ARCHMSK") || eq(s, "R_PPC_TOC16"), "ch_type_to_str(255)"); }
        if let Some(s) = elf::to_str::ch_type_to_str(256) { assert!(eq(s, "SHF_OS_NONCONFORMING"), "ch_type_to_str(256)"); }
        if let Some(s) = elf::to_str::ch_type_to_str(257) { assert!(eq(s, "R_AARCH64_ABS64"), "ch_type_to_str(257)"); }
        if let Some(s) = elf::to_str::ch_type_to_str(258) { assert!(eq(s, "R_AARCH64_ABS32"), "ch_type_to_str(258)"); }
        if let Some(s) = elf::to_str::ch_type_to_str(259) { assert!(eq(s, "R_AARCH64_ABS16"), "ch_type_to_str(259)"); }
        if let Some(s) = elf::to_str::ch_type_to_str(260) { assert!(eq(s, "R_AARCH64_PREL64"), "ch_type_to_str(260)"); }
        if let Some(s) = elf::to_str::ch_type_to_str(261) { assert!(eq(s, "R_AARCH64_PREL32"), "ch_type_to_str(261)"); }
        if let Some(s) = elf::to_str::ch_type_to_str(262) { assert!(eq(s, "R_AARCH64_PREL16"), "ch_type_to_str(262)"); }
        if let Some(s) = elf::to_str::ch_type_to_str(263) { assert!(eq(s, "R_AARCH64_MOVW_UABS_G0"), "ch_type_to_str(263)"); }
        if let Some(s) = elf::to_str::ch_type_to_str(264) { assert!(eq(s, "R_AARCH64_MOVW_UABS_G0_NC"), "ch_type_to_str(264)"); }
        if let Some(s) = elf::to_str::ch_type_to_str(265) { assert!(eq(s, "R_AARCH64_MOVW_UABS_G1"), "ch_type_to_str(265)"); }
        if let Some(s) = elf::to_str::ch_type_to_str(266) { assert!(eq(s, "R_AARCH64_MOVW_UABS_G1_NC"), "ch_type_to_str(266)"); }
        if let Some(s) = elf::to_str::ch_type_to_str(267) { assert!(eq(s, "R_AARCH64_MOVW_UABS_G2"), "ch_type_to_str(267)"); }
        if let Some(s) = elf::to_str::ch_type_to_str(268) { assert!(eq(s, "R_AARCH64_MOVW_UABS_G2_NC"), "ch_type_to_str(268)"); }
        if let Some(s) = elf::to_str::ch_type_to_str(269) { assert!(eq(s, "R_AARCH64_MOVW_UABS_G3"), "ch_type_to_str(269)"); }
        if let Some(s) = elf::to_str::ch_type_to_str(270) { assert!(eq(s, "R_AARCH64_MOVW_SABS_G0"), "ch_type_to_str(270)"); }
        if let Some(s) = elf::to_str::ch_type_to_str(271) { assert!(eq(s, "R_AARCH64_MOVW_SABS_G1"), "ch_type_to_str(271)"); }
        if let Some(s) = elf::to_str::ch_type_to_str(272) { assert!(eq(s, "R_AARCH64_MOVW_SABS_G2"), "ch_type_to_str(272)"); }
        if let Some(s) = elf::to_str::ch_type_to_str(273) { assert!(eq(s, "R_AARCH64_LD_PREL_LO19"), "ch_type_to_str(273)"); }
        if let Some(s) = elf::to_str::ch_type_to_str(274) { assert!(eq(s, "R_AARCH64_ADR_PREL_LO21"), "ch_type_to_str(274)"); }
        if let Some(s) = elf::to_str::ch_type_to_str(275) { assert!(eq(s, "R_AARCH64_ADR_PREL_PG_HI21"), "ch_type_to_str(275)"); }
        if let Some(s) = elf::to_str::ch_type_to_str(276) { assert!(eq(s, "R_AARCH64_ADR_PREL_PG_HI21_NC"), "ch_type_to_str(276)"); }
        if let Some(s) = elf::to_str::ch_type_to_str(277) { assert!(eq(s, "R_AARCH64_ADD_ABS_LO12_NC"), "ch_type_to_str(277)"); }
        if let Some(s) = elf::to_str::ch_type_to_str(278) { assert!(eq(s, "R_AARCH64_LDST8_ABS_LO12_NC"), "ch_type_to_str(278)"); }
        if let Some(s) = elf::to_str::ch_type_to_str(279) { assert!(eq(s, "R_AARCH64_TSTBR14"), "ch_type_to_str(279)"); }
        if let Some(s) = elf::to_str::ch_type_to_str(280) { assert!(eq(s, "R_AARCH64_CONDBR19"), "ch_type_to_str(280)"); }
        if let Some(s) = elf::to_str::ch_type_to_str(282) { assert!(eq(s, "R_AARCH64_JUMP26"), "ch_type_to_str(282)"); }
        if let Some(s) = elf::to_str::ch_type_to_str(283) { assert!(eq(s, "R_AARCH64_CALL26"), "ch_type_to_str(283)"); }
        if let Some(s) = elf::to_str::ch_type_to_str(284) { assert!(eq(s, "R_AARCH64_LDST16_ABS_LO12_NC"), "ch_type_to_str(284)"); }
        if let Some(s) = elf::to_str::ch_type_to_str(285) { assert!(eq(s, "R_AARCH64_LDST32_ABS_LO12_NC"), "ch_type_to_str(285)"); }
        if let Some(s) = elf::to_str::ch_type_to_str(286) { assert!(eq(s, "R_AARCH64_LDST64_ABS_LO12_NC"), "ch_type_to_str(286)"); }
        if let Some(s) = elf::to_str::ch_type_to_str(287) { assert!(eq(s, "R_AARCH64_MOVW_PREL_G0"), "ch_type_to_str(287)"); }
        if let Some(s) = elf::to_str::ch_type_to_str(288) { assert!(eq(s, "R_AARCH64_MOVW_PREL_G0_NC"), "ch_type_to_str(288)"); }
        if let Some(s) = elf::to_str::ch_type_to_str(289) { assert!(eq(s, "R_AARCH64_MOVW_PREL_G1"), "ch_type_to_str(289)"); }
        if let Some(s) = elf::to_str::ch_type_to_str(290) { assert!(eq(s, "R_AARCH64_MOVW_PREL_G1_NC"), "ch_type_to_str(290)"); }
        if let Some(s) = elf::to_str::ch_type_to_str(291) { assert!(eq(s, "R_AARCH64_MOVW_PREL_G2"), "ch_type_to_str(291)"); }
    }
    #[kani::proof]
    #[kani::unwind(41)]
    pub fn ch_type_to_str_names_03() {
        if let Some(s) = elf::to_str::ch_type_to_str(292) { assert!(eq(s, "R_AARCH64_MOVW_PREL_G2_NC"), "ch_type_to_str(292)"); }
        if let Some(s) = elf::to_str::ch_type_to_str(293) { assert!(eq(s, "R_AARCH64_MOVW_PREL_G3"), "ch_type_to_str(293)"); }
        if let Some(s) = elf::to_str::ch_type_to_str(299) { assert!(eq(s, "R_AARCH64_LDST128_ABS_LO12_NC"), "ch_type_to_str(299)"); }
        if let Some(s) = elf::to_str::ch_type_to_str(300) { assert!(eq(s, "R_AARCH64_MOVW_GOTOFF_G0"), "ch_type_to_str(300)"); }
        if let Some(s) = elf::to_str::ch_type_to_str(301) { assert!(eq(s, "R_AARCH64_MOVW_GOTOFF_G0_NC"), "ch_type_to_str(301)"); }
        if let Some(s) = elf::to_str::ch_type_to_str(302) { assert!(eq(s, "R_AARCH64_MOVW_GOTOFF_G1"), "ch_type_to_str(302)"); }
        if let Some(s) = elf::to_str::ch_type_to_str(303) { assert!(eq(s, "R_AARCH64_MOVW_GOTOFF_G1_NC"), "ch_type_to_str(303)"); }
        if let Some(s) = elf::to_str::ch_type_to_str(304) { assert!(eq(s, "R_AARCH64_MOVW_GOTOFF_G2"), "ch_type_to_str(304)"); }
        if let Some(s) = elf::to_str::ch_type_to_str(305) { assert!(eq(s, "R_AARCH64_MOVW_GOTOFF_G2_NC"), "ch_type_to_str(305)"); }
        if let Some(s) = elf::to_str::ch_type_to_str(306) { assert!(eq(s, "R_AARCH64_MOVW_GOTOFF_G3"), "ch_type_to_str(306)"); }
        if let Some(s) = elf::to_str::ch_type_to_str(307) { assert!(eq(s, "R_AARCH64_GOTREL64"), "ch_type_to_str(307)"); }
        if let Some(s) = elf::to_str::ch_type_to_str(308) { assert!(eq(s, "R_AARCH64_GOTREL32"), "ch_type_to_str(308)"); }
        if let Some(s) = elf::to_str::ch_type_to_str(309) { assert!(eq(s, "R_AARCH64_GOT_LD_PREL19"), "ch_type_to_str(309)"); }
        if let Some(s) = elf::to_str::ch_type_to_str(310) { assert!(eq(s, "R_AARCH64_LD64_GOTOFF_LO15"), "ch_type_to_str(310)"); }
        if let Some(s) = elf::to_str::ch_type_to_str(311) { assert!(eq(s, "R_AARCH64_ADR_GOT_PAGE"), "ch_type_to_str(311)"); }
        if let Some(s) = elf::to_str::ch_type_to_str(312) { assert!(eq(s, "R_AARCH64_LD64_GOT_LO12_NC"), "ch_type_to_str(312)"); }
        if let Some(s) = elf::to_str::ch_type_to_str(313) { assert!(eq(s, "R_AARCH64_LD64_GOTPAGE_LO15"), "ch_type_to_str(313)"); }
        if let Some(s) = elf::to_str::ch_type_to_str(512) { assert!(eq(s, "SHF_GROUP") || eq(s, "EF_ARM_ABI_FLOAT_SOFT") || eq(s, "EF_ARM_SOFT_FLOAT") || eq(s, "R_AARCH64_TLSGD_ADR_PREL21"), "ch_type_to_str(512)"); }
        if let Some(s) = elf::to_str::ch_type_to_str(513) { assert!(eq(s, "R_AARCH64_TLSGD_ADR_PAGE21"), "ch_type_to_str(513)"); }
        if let Some(s) = elf::to_str::ch_type_to_str(514) { assert!(eq(s, "R_AARCH64_TLSGD_ADD_LO12_NC"), "ch_type_to_str(514)"); }
        if let Some(s) = elf::to_str::ch_type_to_str(515) { assert!(eq(s, "R_AARCH64_TLSGD_MOVW_G1"), "ch_type_to_str(515)"); }
        if let Some(s) = elf::to_str::ch_type_to_str(516) { assert!(eq(s, "R_AARCH64_TLSGD_MOVW_G0_NC"), "ch_type_to_str(516)"); }
        if let Some(s) = elf::to_str::ch_type_to_str(517) { assert!(eq(s, "R_AARCH64_TLSLD_ADR_PREL21"), "ch_type_to_str(517)"); }
        if let Some(s) = elf::to_str::ch_type_to_str(518) { assert!(eq(s, "R_AARCH64_TLSLD_ADR_PAGE21"), "ch_type_to_str(518)"); }
        if let Some(s) = elf::to_str::ch_type_to_str(519) { assert!(eq(s, "R_AARCH64_TLSLD_ADD_LO12_NC"), "ch_type_to_str(519)"); }
        if let Some(s) = elf::to_str::ch_type_to_str(520) { assert!(eq(s, "R_AARCH64_TLSLD_MOVW_G1"), "ch_type_to_str(520)"); }
        if let Some(s) = elf::to_str::ch_type_to_str(521) { assert!(eq(s, "R_AARCH64_TLSLD_MOVW_G0_NC"), "ch_type_to_str(521)"); }
        if let Some(s) = elf::to_str::ch_type_to_str(522) { assert!(eq(s, "R_AARCH64_TLSLD_LD_PREL19"), "ch_type_to_str(522)"); }
        if let Some(s) = elf::to_str::ch_type_to_str(523) { assert!(eq(s, "R_AARCH64_TLSLD_MOVW_DTPREL_G2"), "ch_type_to_str(523)"); }
        if let Some(s) = elf::to_str::ch_type_to_str(524) { assert!(eq(s, "R_AARCH64_TLSLD_MOVW_DTPREL_G1"), "ch_type_to_str(524)"); }
        if let Some(s) = elf::to_str::ch_type_to_str(525) { assert!(eq(s, "R_AARCH64_TLSLD_MOVW_DTPREL_G1_NC"), "ch_type_to_str(525)"); }
        if let Some(s) = elf::to_str::ch_type_to_str(526) { assert!(eq(s, "R_AARCH64_TLSLD_MOVW_DTPREL_G0"), "ch_type_to_str(526)"); }
        if let Some(s) = elf::to_str::ch_type_to_str(527) { assert!(eq(s, "R_AARCH64_TLSLD_MOVW_DTPREL_G0_NC"), "ch_type_to_str(527)"); }
        if let Some(s) = elf::to_str::ch_type_to_str(528) { assert!(eq(s, "R_AARCH64_TLSLD_ADD_DTPREL_HI12"), "ch_type_to_str(528)"); }
        if let Some(s) = elf::to_str::ch_type_to_str(529) { assert!(eq(s, "R_AARCH64_TLSLD_ADD_DTPREL_LO12"), "ch_type_to_str(529)"); }
        if let Some(s) = elf::to_str::ch_type_to_str(530) { assert!(eq(s, "R_AARCH64_TLSLD_ADD_DTPREL_LO12_NC"), "ch_type_to_str(530)"); }
        if let Some(s) = elf::to_str::ch_type_to_str(531) { assert!(eq(s, "R_AARCH64_TLSLD_LDST8_DTPREL_LO12"), "ch_type_to_str(531)"); }
        if let Some(s) = elf::to_str::ch_type_to_str(532) { assert!(eq(s, "R_AARCH64_TLSLD_LDST8_DTPREL_LO12_NC"), "ch_type_to_str(532)"); }
        if let Some(s) = elf::to_str::ch_type_to_str(533) { assert!(eq(s, "R_AARCH64_TLSLD_LDST16_DTPREL_LO12"), "ch_type_to_str(533)"); }
        if let Some(s) = elf::to_str::ch_type_to_str(534) { assert!(eq(s, "R_AARCH64_TLSLD_LDST16_DTPREL_LO12_NC"), "ch_type_to_str(534)"); }
        if let Some(s) = elf::to_str::ch_type_to_str(535) { assert!(eq(s, "R_AARCH64_TLSLD_LDST32_DTPREL_LO12"), "ch_type_to_str(535)"); }
        if let Some(s) = elf::to_str::ch_type_to_str(536) { assert!(eq(s, "R_AARCH64_TLSLD_LDST32_DTPREL_LO12_NC"), "ch_type_to_str(536)"); }
        if let Some(s) = elf::to_str::ch_type_to_str(537) { assert!(eq(s, "R_AARCH64_TLSLD_LDST64_DTPREL_LO12"), "ch_type_to_str(537)"); }
        if let Some(s) = elf::to_str::ch_type_to_str(538) { assert!(eq(s, "R_AARCH64_TLSLD_LDST64_DTPREL_LO12_NC"), "ch_type_to_str(538)"); }
        if let Some(s) = elf::to_str::ch_type_to_str(539) { assert!(eq(s, "R_AARCH64_TLSIE_MOVW_GOTTPREL_G1"), "ch_type_to_str(539)"); }
        if let Some(s) = elf::to_str::ch_type_to_str(540) { assert!(eq(s, "R_AARCH64_TLSIE_MOVW_GOTTPREL_G0_NC"), "ch_type_to_str(540)"); }
        if let Some(s) = elf::to_str::ch_type_to_str(541) { assert!(eq(s, "R_AARCH64_TLSIE_ADR_GOTTPREL_PAGE21"), "ch_type_to_str(541)"); }
        if let Some(s) = elf::to_str::ch_type_to_str(542) { assert!(eq(s, "R_AARCH64_TLSIE_LD64_GOTTPREL_LO12_NC"), "ch_type_to_str(542)"); }
        if let Some(s) = elf::to_str::ch_type_to_str(543) { assert!(eq(s, "R_AARCH64_TLSIE_LD_GOTTPREL_PREL19"), "ch_type_to_str(543)"); }
        if let Some(s) = elf::to_str::ch_type_to_str(544) { assert!(eq(s, "R_AARCH64_TLSLE_MOVW_TPREL_G2"), "ch_type_to_str(544)"); }
        if let Some(s) = elf::to_str::ch_type_to_str(545) { assert!(eq(s, "R_AARCH64_TLSLE_MOVW_TPREL_G1"), "ch_type_to_str(545)"); }
        if let Some(s) = elf::to_str::ch_type_to_str(546) { assert!(eq(s, "R_AARCH64_TLSLE_MOVW_TPREL_G1_NC"), "ch_type_to_str(546)"); }
        if let Some(s) = elf::to_str::ch_type_to_str(547) { assert!(eq(s, "R_AARCH64_TLSLE_MOVW_TPREL_G0"), "ch_type_to_str(547)"); }
        if let Some(s) = elf::to_str::ch_type_to_str(548) { assert!(eq(s, "R_AARCH64_TLSLE_MOVW_TPREL_G0_NC"), "ch_type_to_str(548)"); }
        if let Some(s) = elf::to_str::ch_type_to_str(549) { assert!(eq(s, "R_AARCH64_TLSLE_ADD_TPREL_HI12"), "ch_type_to_str(549)"); }
        if let Some(s) = elf::to_str::ch_type_to_str(550) { assert!(eq(s, "R_AARCH64_TLSLE_ADD_TPREL_LO12"), "ch_type_to_str(550)"); }
        if let Some(s) = elf::to_str::ch_type_to_str(551) { assert!(eq(s, "R_AARCH64_TLSLE_ADD_TPREL_LO12_NC"), "ch_type_to_str(551)"); }
        if let Some(s) = elf::to_str::ch_type_to_str(552) { assert!(eq(s, "R_AARCH64_TLSLE_LDST8_TPREL_LO12"), "ch_type_to_str(552)"); }
        if let Some(s) = elf::to_str::ch_type_to_str(553) { assert!(eq(s, "R_AARCH64_TLSLE_LDST8_TPREL_LO12_NC"), "ch_type_to_str(553)"); }
        if let Some(s) = elf::to_str::ch_type_to_str(554) { assert!(eq(s, "R_AARCH64_TLSLE_LDST16_TPREL_LO12"), "ch_type_to_str(554)"); }
    }
    #[kani::proof]
    #[kani::unwind(41)]
    pub fn ch_type_to_str_names_04() {
        if let Some(s) = elf::to_str::ch_type_to_str(555) { assert!(eq(s, "R_AARCH64_TLSLE_LDST16_TPREL_LO12_NC"), "ch_type_to_str(555)"); }
        if let Some(s) = elf::to_str::ch_type_to_str(556) { assert!(eq(s, "R_AARCH64_TLSLE_LDST32_TPREL_LO12"), "ch_type_to_str(556)"); }
        if let Some(s) = elf::to_str::ch_type_to_str(557) { assert!(eq(s, "R_AARCH64_TLSLE_LDST32_TPREL_LO12_NC"), "ch_type_to_str(557)"); }
        if let Some(s) = elf::to_str::ch_type_to_str(558) { assert!(eq(s, "R_AARCH64_TLSLE_LDST64_TPREL_LO12"), "ch_type_to_str(558)"); }
        if let Some(s) = elf::to_str::ch_type_to_str(559) { assert!(eq(s, "R_AARCH64_TLSLE_LDST64_TPREL_LO12_NC"), "ch_type_to_str(559)"); }
        if let Some(s) = elf::to_str::ch_type_to_str(560) { assert!(eq(s, "R_AARCH64_TLSDESC_LD_PREL19"), "ch_type_to_str(560)"); }
        if let Some(s) = elf::to_str::ch_type_to_str(561) { assert!(eq(s, "R_AARCH64_TLSDESC_ADR_PREL21"), "ch_type_to_str(561)"); }
        if let Some(s) = elf::to_str::ch_type_to_str(562) { assert!(eq(s, "R_AARCH64_TLSDESC_ADR_PAGE21"), "ch_type_to_str(562)"); }
        if let Some(s) = elf::to_str::ch_type_to_str(563) { assert!(eq(s, "R_AARCH64_TLSDESC_LD64_LO12"), "ch_type_to_str(563)"); }
        if let Some(s) = elf::to_str::ch_type_to_str(564) { assert!(eq(s, "R_AARCH64_TLSDESC_ADD_LO12"), "ch_type_to_str(564)"); }
        if let Some(s) = elf::to_str::ch_type_to_str(565) { assert!(eq(s, "R_AARCH64_TLSDESC_OFF_G1"), "ch_type_to_str(565)"); }
        if let Some(s) = elf::to_str::ch_type_to_str(566) { assert!(eq(s, "R_AARCH64_TLSDESC_OFF_G0_NC"), "ch_type_to_str(566)"); }
        if let Some(s) = elf::to_str::ch_type_to_str(567) { assert!(eq(s, "R_AARCH64_TLSDESC_LDR"), "ch_type_to_str(567)"); }
        if let Some(s) = elf::to_str::ch_type_to_str(568) { assert!(eq(s, "R_AARCH64_TLSDESC_ADD"), "ch_type_to_str(568)"); }
        if let Some(s) = elf::to_str::ch_type_to_str(569) { assert!(eq(s, "R_AARCH64_TLSDESC_CALL"), "ch_type_to_str(569)"); }
        if let Some(s) = elf::to_str::ch_type_to_str(570) { assert!(eq(s, "R_AARCH64_TLSLE_LDST128_TPREL_LO12"), "ch_type_to_str(570)"); }
        if let Some(s) = elf::to_str::ch_type_to_str(571) { assert!(eq(s, "R_AARCH64_TLSLE_LDST128_TPREL_LO12_NC"), "ch_type_to_str(571)"); }
        if let Some(s) = elf::to_str::ch_type_to_str(572) { assert!(eq(s, "R_AARCH64_TLSLD_LDST128_DTPREL_LO12"), "ch_type_to_str(572)"); }
        if let Some(s) = elf::to_str::ch_type_to_str(573) { assert!(eq(s, "R_AARCH64_TLSLD_LDST128_DTPREL_LO12_NC"), "ch_type_to_str(573)"); }
        if let Some(s) = elf::to_str::ch_type_to_str(1024) { assert!(eq(s, "SHF_TLS") || eq(s, "EF_ARM_ABI_FLOAT_HARD") || eq(s, "EF_ARM_VFP_FLOAT") || eq(s, "R_AARCH64_COPY"), "ch_type_to_str(1024)"); }
        if let Some(s) = elf::to_str::ch_type_to_str(1025) { assert!(eq(s, "R_AARCH64_GLOB_DAT"), "ch_type_to_str(1025)"); }
        if let Some(s) = elf::to_str::ch_type_to_str(1026) { assert!(eq(s, "R_AARCH64_JUMP_SLOT"), "ch_type_to_str(1026)"); }
        if let Some(s) = elf::to_str::ch_type_to_str(1027) { assert!(eq(s, "R_AARCH64_RELATIVE"), "ch_type_to_str(1027)"); }
        if let Some(s) = elf::to_str::ch_type_to_str(1028) { assert!(eq(s, "R_AARCH64_TLS_DTPMOD"), "ch_type_to_str(1028)"); }
        if let Some(s) = elf::to_str::ch_type_to_str(1029) { assert!(eq(s, "R_AARCH64_TLS_DTPREL"), "ch_type_to_str(1029)"); }
        if let Some(s) = elf::to_str::ch_type_to_str(1030) { assert!(eq(s, "R_AARCH64_TLS_TPREL"), "ch_type_to_str(1030)"); }
        if let Some(s) = elf::to_str::ch_type_to_str(1031) { assert!(eq(s, "R_AARCH64_TLSDESC"), "ch_type_to_str(1031)"); }
        if let Some(s) = elf::to_str::ch_type_to_str(1032) { assert!(eq(s, "R_AARCH64_IRELATIVE"), "ch_type_to_str(1032)"); }
        if let Some(s) = elf::to_str::ch_type_to_str(2048) { assert!(eq(s, "SHF_COMPRESSED"), "ch_type_to_str(2048)"); }
        if let Some(s) = elf::to_str::ch_type_to_str(32768) { assert!(eq(s, "EF_PPC_RELOCATABLE_LIB"), "ch_type_to_str(32768)"); }
        if let Some(s) = elf::to_str::ch_type_to_str(65536) { assert!(eq(s, "EF_PPC_RELOCATABLE"), "ch_type_to_str(65536)"); }
        if let Some(s) = elf::to_str::ch_type_to_str(4198399) { assert!(eq(s, "EF_ARM_GCCMASK"), "ch_type_to_str(4198399)"); }
        if let Some(s) = elf::to_str::ch_type_to_str(4259840) { assert!(eq(s, "PT_ARM_ARCHEXT_PROF_ARM"), "ch_type_to_str(4259840)"); }
        if let Some(s) = elf::to_str::ch_type_to_str(5046272) { assert!(eq(s, "PT_ARM_ARCHEXT_PROF_MC"), "ch_type_to_str(5046272)"); }
        if let Some(s) = elf::to_str::ch_type_to_str(5373952) { assert!(eq(s, "PT_ARM_ARCHEXT_PROF_RT"), "ch_type_to_str(5373952)"); }
        if let Some(s) = elf::to_str::ch_type_to_str(5439488) { assert!(eq(s, "PT_ARM_ARCHEXT_PROF_CLASSIC"), "ch_type_to_str(5439488)"); }
        if let Some(s) = elf::to_str::ch_type_to_str(8388608) { assert!(eq(s, "EF_ARM_BE8"), "ch_type_to_str(8388608)"); }
        if let Some(s) = elf::to_str::ch_type_to_str(16711680) { assert!(eq(s, "PT_ARM_ARCHEXT_PROFMSK"), "ch_type_to_str(16711680)"); }
        if let Some(s) = elf::to_str::ch_type_to_str(16777216) { assert!(eq(s, "EF_ARM_EABI_VER1") || eq(s, "PT_ARM_ARCHEXT_FMT_ABI"), "ch_type_to_str(16777216)"); }
        if let Some(s) = elf::to_str::ch_type_to_str(33554432) { assert!(eq(s, "EF_ARM_EABI_VER2"), "ch_type_to_str(33554432)"); }
        if let Some(s) = elf::to_str::ch_type_to_str(50331648) { assert!(eq(s, "EF_ARM_EABI_VER3"), "ch_type_to_str(50331648)"); }
        if let Some(s) = elf::to_str::ch_type_to_str(67108864) { assert!(eq(s, "EF_ARM_EABI_VER4"), "ch_type_to_str(67108864)"); }
        if let Some(s) = elf::to_str::ch_type_to_str(83886080) { assert!(eq(s, "EF_ARM_EABI_VER5"), "ch_type_to_str(83886080)"); }
        if let Some(s) = elf::to_str::ch_type_to_str(267386880) { assert!(eq(s, "PF_MASKOS") || eq(s, "SHF_MASKOS"), "ch_type_to_str(267386880)"); }
        if let Some(s) = elf::to_str::ch_type_to_str(1610612736) { assert!(eq(s, "PT_LOOS") || eq(s, "SHT_LOOS") || eq(s, "ELFCOMPRESS_LOOS"), "ch_type_to_str(1610612736)"); }
        if let Some(s) = elf::to_str::ch_type_to_str(1685382480) { assert!(eq(s, "PT_GNU_EH_FRAME"), "ch_type_to_str(1685382480)"); }
        if let Some(s) = elf::to_str::ch_type_to_str(1685382481) { assert!(eq(s, "PT_GNU_STACK"), "ch_type_to_str(1685382481)"); }
        if let Some(s) = elf::to_str::ch_type_to_str(1685382482) { assert!(eq(s, "PT_GNU_RELRO"), "ch_type_to_str(1685382482)"); }
        if let Some(s) = elf::to_str::ch_type_to_str(1685382483) { assert!(eq(s, "PT_GNU_PROPERTY"), "ch_type_to_str(1685382483)"); }
        if let Some(s) = elf::to_str::ch_type_to_str(1879048181) { assert!(eq(s, "SHT_GNU_ATTRIBUTES"), "ch_type_to_str(1879048181)"); }
        if let Some(s) = elf::to_str::ch_type_to_str(1879048182) { assert!(eq(s, "SHT_GNU_HASH"), "ch_type_to_str(1879048182)"); }
        if let Some(s) = elf::to_str::ch_type_to_str(1879048183) { assert!(eq(s, "SHT_GNU_LIBLIST"), "ch_type_to_str(1879048183)"); }
        if let Some(s) = elf::to_str::ch_type_to_str(1879048189) { assert!(eq(s, "SHT_GNU_VERDEF"), "ch_type_to_str(1879048189)"); }
        if let Some(s) = elf::to_str::ch_type_to_str(1879048190) { assert!(eq(s, "SHT_GNU_VERNEED"), "ch_type_to_str(1879048190)"); }
        if let Some(s) = elf::to_str::ch_type_to_str(1879048191) { assert!(eq(s, "PT_HIOS") || eq(s, "SHT_GNU_VERSYM") || eq(s, "SHT_HIOS") || eq(s, "ELFCOMPRESS_HIOS"), "ch_type_to_str(1879048191)"); }
        if let Some(s) = elf::to_str::ch_type_to_str(1879048192) { assert!(eq(s, "PT_LOPROC") || eq(s, "SHT_LOPROC") || eq(s, "SHT_IA_64_EXT") || eq(s, "ELFCOMPRESS_LOPROC") || eq(s, "PT_ARM_ARCHEXT") || eq(s, "PT_AARCH64_ARCHEXT"), "ch_type_to_str(1879048192)"); }
        if let Some(s) = elf::to_str::ch_type_to_str(1879048193) { assert!(eq(s, "SHT_IA_64_UNWIND") || eq(s, "SHT_ARM_EXIDX") || eq(s, "PT_ARM_EXIDX") || eq(s, "PT_ARM_UNWIND") || eq(s, "PT_AARCH64_UNWIND") || eq(s, "SHT_X86_64_UNWIND"), "ch_type_to_str(1879048193)"); }
        if let Some(s) = elf::to_str::ch_type_to_str(1879048194) { assert!(eq(s, "SHT_ARM_PREEMPTMAP") || eq(s, "PT_AARCH64_MEMTAG_MTE"), "ch_type_to_str(1879048194)"); }
        if let Some(s) = elf::to_str::ch_type_to_str(1879048195) { assert!(eq(s, "SHT_ARM_ATTRIBUTES") || eq(s, "SHT_AARCH64_ATTRIBUTES") || eq(s, "SHT_RISCV_ATTRIBUTES") || eq(s, "PT_RISCV_ATTRIBUTES"), "ch_type_to_str(1879048195)"); }
        if let Some(s) = elf::to_str::ch_type_to_str(1879048196) { assert!(eq(s, "SHT_ARM_DEBUGOVERLAY"), "ch_type_to_str(1879048196)"); }
    }
    #[kani::proof]
    #[kani::unwind(41)]
    pub fn ch_type_to_str_names_05() {
        if let Some(s) = elf::to_str::ch_type_to_str(1879048197) { assert!(eq(s, "SHT_ARM_OVERLAYSECTION"), "ch_type_to_str(1879048197)"); }
        if let Some(s) = elf::to_str::ch_type_to_str(2147483647) { assert!(eq(s, "PT_HIPROC") || eq(s, "SHT_HIPROC") || eq(s, "ELFCOMPRESS_HIPROC"), "ch_type_to_str(2147483647)"); }
        if let Some(s) = elf::to_str::ch_type_to_str(2147483648) { assert!(eq(s, "SHT_LOUSER") || eq(s, "EF_PPC_EMB"), "ch_type_to_str(2147483648)"); }
        if let Some(s) = elf::to_str::ch_type_to_str(2415919103) { assert!(eq(s, "SHT_HIUSER"), "ch_type_to_str(2415919103)"); }
        if let Some(s) = elf::to_str::ch_type_to_str(3221225472) { assert!(eq(s, "GNU_PROPERTY_AARCH64_FEATURE_1_AND"), "ch_type_to_str(3221225472)"); }
        if let Some(s) = elf::to_str::ch_type_to_str(4026531840) { assert!(eq(s, "PF_MASKPROC") || eq(s, "SHF_MASKPROC"), "ch_type_to_str(4026531840)"); }
        if let Some(s) = elf::to_str::ch_type_to_str(4278190080) { assert!(eq(s, "EF_ARM_EABIMASK") || eq(s, "PT_ARM_ARCHEXT_FMTMSK"), "ch_type_to_str(4278190080)"); }
    }
    #[kani::proof]
    pub fn d_tag_to_str_none_outside_constants() {
        let x: i64 = kani::any();
        kani::assume(x != 0 && x != 1 && x != 2 && x != 3 && x != 4 && x != 5 && x != 6 && x != 7 && x != 8 && x != 9 && x != 10 && x != 11);
        kani::assume(x != 12 && x != 13 && x != 14 && x != 15 && x != 16 && x != 17 && x != 18 && x != 19 && x != 20 && x != 21 && x != 22 && x != 23);
        kani::assume(x != 24 && x != 25 && x != 26 && x != 27 && x != 28 && x != 29 && x != 30 && x != 32 && x != 33 && x != 34 && x != 64 && x != 128);
        kani::assume(x != 256 && x != 512 && x != 1024 && x != 2048 && x != 4096 && x != 8192 && x != 16384 && x != 32768 && x != 65536 && x != 131072 && x != 262144 && x != 524288);
        kani::assume(x != 1048576 && x != 2097152 && x != 4194304 && x != 8388608 && x != 16777216 && x != 33554432 && x != 67108864 && x != 134217728 && x != 268435456 && x != 536870912 && x != 924082176 && x != 924082177);
        kani::assume(x != 924082178 && x != 924082179 && x != 924082180 && x != 1073741824 && x != 1610612749 && x != 1879044096 && x != 1879047669 && x != 1879047670 && x != 1879047671 && x != 1879047672 && x != 1879047673 && x != 1879047674);
        kani::assume(x != 1879047675 && x != 1879047676 && x != 1879047677 && x != 1879047678 && x != 1879047679 && x != 1879047925 && x != 1879047926 && x != 1879047927 && x != 1879047928 && x != 1879047929 && x != 1879047930 && x != 1879047931);
        kani::assume(x != 1879047932 && x != 1879047933 && x != 1879047934 && x != 1879047935 && x != 1879048176 && x != 1879048185 && x != 1879048186 && x != 1879048187 && x != 1879048188 && x != 1879048189 && x != 1879048190 && x != 1879048191);
        kani::assume(x != 1879048192 && x != 1879048193 && x != 1879048194 && x != 1879048195 && x != 1879048197 && x != 2147483647);
        assert!(elf::to_str::d_tag_to_str(x).is_none());
    }
    #[kani::proof]
    #[kani::unwind(25)]
    pub fn d_tag_to_str_names_00() {
        if let Some(s) = elf::to_str::d_tag_to_str(0) { assert!(eq(s, "DT_NULL"), "d_tag_to_str(0)"); }
        if let Some(s) = elf::to_str::d_tag_to_str(1) { assert!(eq(s, "DT_NEEDED") || eq(s, "DF_ORIGIN") || eq(s, "DF_1_NOW") || eq(s, "DTF_1_PARINIT") || eq(s, "DF_P1_LAZYLOAD"), "d_tag_to_str(1)"); }
        if let Some(s) = elf::to_str::d_tag_to_str(2) { assert!(eq(s, "DT_PLTRELSZ") || eq(s, "DF_SYMBOLIC") || eq(s, "DF_1_GLOBAL") || eq(s, "DTF_1_CONFEXP") || eq(s, "DF_P1_GROUPPERM"), "d_tag_to_str(2)"); }
        if let Some(s) = elf::to_str::d_tag_to_str(3) { assert!(eq(s, "DT_PLTGOT"), "d_tag_to_str(3)"); }
        if let Some(s) = elf::to_str::d_tag_to_str(4) { assert!(eq(s, "DT_HASH") || eq(s, "DF_TEXTREL") || eq(s, "DF_1_GROUP"), "d_tag_to_str(4)"); }
        if let Some(s) = elf::to_str::d_tag_to_str(5) { assert!(eq(s, "DT_STRTAB"), "d_tag_to_str(5)"); }
        if let Some(s) = elf::to_str::d_tag_to_str(6) { assert!(eq(s, "DT_SYMTAB"), "d_tag_to_str(6)"); }
        if let Some(s) = elf::to_str::d_tag_to_str(7) { assert!(eq(s, "DT_RELA"), "d_tag_to_str(7)"); }
        if let Some(s) = elf::to_str::d_tag_to_str(8) { assert!(eq(s, "DT_RELASZ") || eq(s, "DF_BIND_NOW") || eq(s, "DF_1_NODELETE"), "d_tag_to_str(8)"); }
        if let Some(s) = elf::to_str::d_tag_to_str(9) { assert!(eq(s, "DT_RELAENT"), "d_tag_to_str(9)"); }
        if let Some(s) = elf::to_str::d_tag_to_str(10) { assert!(eq(s, "DT_STRSZ"), "d_tag_to_str(10)"); }
        if let Some(s) = elf::to_str::d_tag_to_str(11) { assert!(eq(s, "DT_SYMENT"), "d_tag_to_str(11)"); }
        if let Some(s) = elf::to_str::d_tag_to_str(12) { assert!(eq(s, "DT_INIT"), "d_tag_to_str(12)"); }
        if let Some(s) = elf::to_str::d_tag_to_str(13) { assert!(eq(s, "DT_FINI"), "d_tag_to_str(13)"); }
        if let Some(s) = elf::to_str::d_tag_to_str(14) { assert!(eq(s, "DT_SONAME"), "d_tag_to_str(14)"); }
        if let Some(s) = elf::to_str::d_tag_to_str(15) { assert!(eq(s, "DT_RPATH"), "d_tag_to_str(15)"); }
        if let Some(s) = elf::to_str::d_tag_to_str(16) { assert!(eq(s, "DT_SYMBOLIC") || eq(s, "DF_STATIC_TLS") || eq(s, "DF_1_LOADFLTR"), "d_tag_to_str(16)"); }
        if let Some(s) = elf::to_str::d_tag_to_str(17) { assert!(eq(s, "DT_REL"), "d_tag_to_str(17)"); }
        if let Some(s) = elf::to_str::d_tag_to_str(18) { assert!(eq(s, "DT_RELSZ"), "d_tag_to_str(18)"); }
        if let Some(s) = elf::to_str::d_tag_to_str(19) { assert!(eq(s, "DT_RELENT"), "d_tag_to_str(19)"); }
        if let Some(s) = elf::to_str::d_tag_to_str(20) { assert!(eq(s, "DT_PLTREL"), "d_tag_to_str(20)"); }
        if let Some(s) = elf::to_str::d_tag_to_str(21) { assert!(eq(s, "DT_DEBUG"), "d_tag_to_str(21)"); }
        if let Some(s) = elf::to_str::d_tag_to_str(22) { assert!(eq(s, "DT_TEXTREL"), "d_tag_to_str(22)"); }
        if let Some(s) = elf::to_str::d_tag_to_str(23) { assert!(eq(s, "DT_JMPREL"), "d_tag_to_str(23)"); }
        if let Some(s) = elf::to_str::d_tag_to_str(24) { assert!(eq(s, "DT_BIND_NOW"), "d_tag_to_str(24)"); }
        if let Some(s) = elf::to_str::d_tag_to_str(25) { assert!(eq(s, "DT_INIT_ARRAY"), "d_tag_to_str(25)"); }
        if let Some(s) = elf::to_str::d_tag_to_str(26) { assert!(eq(s, "DT_FINI_ARRAY"), "d_tag_to_str(26)"); }
        if let Some(s) = elf::to_str::d_tag_to_str(27) { assert!(eq(s, "DT_INIT_ARRAYSZ"), "d_tag_to_str(27)"); }
        if let Some(s) = elf::to_str::d_tag_to_str(28) { assert!(eq(s, "DT_FINI_ARRAYSZ"), "d_tag_to_str(28)"); }
        if let Some(s) = elf::to_str::d_tag_to_str(29) { assert!(eq(s, "DT_RUNPATH"), "d_tag_to_str(29)"); }
        if let Some(s) = elf::to_str::d_tag_to_str(30) { assert!(eq(s, "DT_FLAGS"), "d_tag_to_str(30)"); }
        if let Some(s) = elf::to_str::d_tag_to_str(32) { assert!(eq(s, "DT_PREINIT_ARRAY") || eq(s, "DF_1_INITFIRST"), "d_tag_to_str(32)"); }
        if let Some(s) = elf::to_str::d_tag_to_str(33) { assert!(eq(s, "DT_PREINIT_ARRAYSZ"), "d_tag_to_str(33)"); }
        if let Some(s) = elf::to_str::d_tag_to_str(34) { assert!(eq(s, "DT_SYMTAB_SHNDX"), "d_tag_to_str(34)"); }
        if let Some(s) = elf::to_str::d_tag_to_str(64) { assert!(eq(s, "DF_1_NOOPEN"), "d_tag_to_str(64)"); }
        if let Some(s) = elf::to_str::d_tag_to_str(128) { assert!(eq(s, "DF_1_ORIGIN"), "d_tag_to_str(128)"); }
        if let Some(s) = elf::to_str::d_tag_to_str(256) { assert!(eq(s, "DF_1_DIRECT"), "d_tag_to_str(256)"); }
        if let Some(s) = elf::to_str::d_tag_to_str(512) { assert!(eq(s, "DF_1_TRANS"), "d_tag_to_str(512)"); }
        if let Some(s) = elf::to_str::d_tag_to_str(1024) { assert!(eq(s, "DF_1_INTERPOSE"), "d_tag_to_str(1024)"); }
        if let Some(s) = elf::to_str::d_tag_to_str(2048) { assert!(eq(s, "DF_1_NODEFLIB"), "d_tag_to_str(2048)"); }
        if let Some(s) = elf::to_str::d_tag_to_str(4096) { assert!(eq(s, "DF_1_NODUMP"), "d_tag_to_str(4096)"); }
        if let Some(s) = elf::to_str::d_tag_to_str(8192) { assert!(eq(s, "DF_1_CONFALT"), "d_tag_to_str(8192)"); }
        if let Some(s) = elf::to_str::d_tag_to_str(16384) { assert!(eq(s, "DF_1_ENDFILTEE"), "d_tag_to_str(16384)"); }
        if let Some(s) = elf::to_str::d_tag_to_str(32768) { assert!(eq(s, "DF_1_DISPRELDNE"), "d_tag_to_str(32768)"); }
        if let Some(s) = elf::to_str::d_tag_to_str(65536) { assert!(eq(s, "DF_1_DISPRELPND"), "d_tag_to_str(65536)"); }
        if let Some(s) = elf::to_str::d_tag_to_str(131072) { assert!(eq(s, "DF_1_NODIRECT"), "d_tag_to_str(131072)"); }
        if let Some(s) = elf::to_str::d_tag_to_str(262144) { assert!(eq(s, "DF_1_IGNMULDEF"), "d_tag_to_str(262144)"); }
        if let Some(s) = elf::to_str::d_tag_to_str(524288) { assert!(eq(s, "DF_1_NOKSYMS"), "d_tag_to_str(524288)"); }
        if let Some(s) = elf::to_str::d_tag_to_str(1048576) { assert!(eq(s, "DF_1_NOHDR"), "d_tag_to_str(1048576)"); }
        if let Some(s) = elf::to_str::d_tag_to_str(2097152) { assert!(eq(s, "DF_1_EDITED"), "d_tag_to_str(2097152)"); }
        if let Some(s) = elf::to_str::d_tag_to_str(4194304) { assert!(eq(s, "DF_1_NORELOC"), "d_tag_to_str(4194304)"); }
        if let Some(s) = elf::to_str::d_tag_to_str(8388608) { assert!(eq(s, "DF_1_SYMINTPOSE"), "d_tag_to_str(8388608)"); }
        if let Some(s) = elf::to_str::d_tag_to_str(16777216) { assert!(eq(s, "DF_1_GLOBAUDIT"), "d_tag_to_str(16777216)"); }
        if let Some(s) = elf::to_str::d_tag_to_str(33554432) { assert!(eq(s, "DF_1_SINGLETON"), "d_tag_to_str(33554432)"); }
        if let Some(s) = elf::to_str::d_tag_to_str(67108864) { assert!(eq(s, "DF_1_STUB"), "d_tag_to_str(67108864)"); }
        if let Some(s) = elf::to_str::d_tag_to_str(134217728) { assert!(eq(s, "DF_1_PIE"), "d_tag_to_str(134217728)"); }
        if let Some(s) = elf::to_str::d_tag_to_str(268435456) { assert!(eq(s, "DF_1_KMOD"), "d_tag_to_str(268435456)"); }
        if let Some(s) = elf::to_str::d_tag_to_str(536870912) { assert!(eq(s, "DF_1_WEAKFILTER"), "d_tag_to_str(536870912)"); }
        if let Some(s) = elf::to_str::d_tag_to_str(924082176) { assert!(eq(s, "DT_GUILE_GC_ROOT"), "d_tag_to_str(924082176)"); }
        if let Some(s) = elf::to_str::d_tag_to_str(924082177) { assert!(eq(s, "DT_GUILE_GC_ROOT_SZ"), "d_tag_to_str(924082177)"); }
    }
    #[kani::proof]
    #[kani::unwind(25)]
    pub fn d_tag_to_str_names_01() {
        if let Some(s) = elf::to_str::d_tag_to_str(924082178) { assert!(eq(s, "DT_GUILE_ENTRY"), "d_tag_to_str(924082178)"); }
        if let Some(s) = elf::to_str::d_tag_to_str(924082179) { assert!(eq(s, "DT_GUILE_VM_VERSION"), "d_tag_to_str(924082179)"); }
        if let Some(s) = elf::to_str::d_tag_to_str(924082180) { assert!(eq(s, "DT_GUILE_FRAME_MAPS"), "d_tag_to_str(924082180)"); }
        if let Some(s) = elf::to_str::d_tag_to_str(1073741824) { assert!(eq(s, "DF_1_NOCOMMON"), "d_tag_to_str(1073741824)"); }
        if let Some(s) = elf::to_str::d_tag_to_str(1610612749) { assert!(eq(s, "DT_LOOS"), "d_tag_to_str(1610612749)"); }
        if let Some(s) = elf::to_str::d_tag_to_str(1879044096) { assert!(eq(s, "DT_HIOS"), "d_tag_to_str(1879044096)"); }
        if let Some(s) = elf::to_str::d_tag_to_str(1879047669) { assert!(eq(s, "DT_GNU_PRELINKED"), "d_tag_to_str(1879047669)"); }
        if let Some(s) = elf::to_str::d_tag_to_str(1879047670) { assert!(eq(s, "DT_GNU_CONFLICTSZ"), "d_tag_to_str(1879047670)"); }
        if let Some(s) = elf::to_str::d_tag_to_str(1879047671) { assert!(eq(s, "DT_GNU_LIBLISTSZ"), "d_tag_to_str(1879047671)"); }
        if let Some(s) = elf::to_str::d_tag_to_str(1879047672) { assert!(eq(s, "DT_CHECKSUM"), "d_tag_to_str(1879047672)"); }
        if let Some(s) = elf::to_str::d_tag_to_str(1879047673) { assert!(eq(s, "DT_PLTPADSZ"), "d_tag_to_str(1879047673)"); }
        if let Some(s) = elf::to_str::d_tag_to_str(1879047674) { assert!(eq(s, "DT_MOVEENT"), "d_tag_to_str(1879047674)"); }
        if let Some(s) = elf::to_str::d_tag_to_str(1879047675) { assert!(eq(s, "DT_MOVESZ"), "d_tag_to_str(1879047675)"); }
        if let Some(s) = elf::to_str::d_tag_to_str(1879047676) { assert!(eq(s, "DT_FEATURE_1"), "d_tag_to_str(1879047676)"); }
        if let Some(s) = elf::to_str::d_tag_to_str(1879047677) { assert!(eq(s, "DT_POSFLAG_1"), "d_tag_to_str(1879047677)"); }
        if let Some(s) = elf::to_str::d_tag_to_str(1879047678) { assert!(eq(s, "DT_SYMINSZ"), "d_tag_to_str(1879047678)"); }
        if let Some(s) = elf::to_str::d_tag_to_str(1879047679) { assert!(eq(s, "DT_SYMINENT"), "d_tag_to_str(1879047679)"); }
        if let Some(s) = elf::to_str::d_tag_to_str(1879047925) { assert!(eq(s, "DT_GNU_HASH"), "d_tag_to_str(1879047925)"); }
        if let Some(s) = elf::to_str::d_tag_to_str(1879047926) { assert!(eq(s, "DT_TLSDESC_PLT"), "d_tag_to_str(1879047926)"); }
        if let Some(s) = elf::to_str::d_tag_to_str(1879047927) { assert!(eq(s, "DT_TLSDESC_GOT"), "d_tag_to_str(1879047927)"); }
        if let Some(s) = elf::to_str::d_tag_to_str(1879047928) { assert!(eq(s, "DT_GNU_CONFLICT"), "d_tag_to_str(1879047928)"); }
        if let Some(s) = elf::to_str::d_tag_to_str(1879047929) { assert!(eq(s, "DT_GNU_LIBLIST"), "d_tag_to_str(1879047929)"); }
        if let Some(s) = elf::to_str::d_tag_to_str(1879047930) { assert!(eq(s, "DT_CONFIG"), "d_tag_to_str(1879047930)"); }
        if let Some(s) = elf::to_str::d_tag_to_str(1879047931) { assert!(eq(s, "DT_DEPAUDIT"), "d_tag_to_str(1879047931)"); }
        if let Some(s) = elf::to_str::d_tag_to_str(1879047932) { assert!(eq(s, "DT_AUDIT"), "d_tag_to_str(1879047932)"); }
        if let Some(s) = elf::to_str::d_tag_to_str(1879047933) { assert!(eq(s, "DT_PLTPAD"), "d_tag_to_str(1879047933)"); }
        if let Some(s) = elf::to_str::d_tag_to_str(1879047934) { assert!(eq(s, "DT_MOVETAB"), "d_tag_to_str(1879047934)"); }
        if let Some(s) = elf::to_str::d_tag_to_str(1879047935) { assert!(eq(s, "DT_SYMINFO"), "d_tag_to_str(1879047935)"); }
        if let Some(s) = elf::to_str::d_tag_to_str(1879048176) { assert!(eq(s, "DT_VERSYM"), "d_tag_to_str(1879048176)"); }
        if let Some(s) = elf::to_str::d_tag_to_str(1879048185) { assert!(eq(s, "DT_RELACOUNT"), "d_tag_to_str(1879048185)"); }
        if let Some(s) = elf::to_str::d_tag_to_str(1879048186) { assert!(eq(s, "DT_RELCOUNT"), "d_tag_to_str(1879048186)"); }
        if let Some(s) = elf::to_str::d_tag_to_str(1879048187) { assert!(eq(s, "DT_FLAGS_1"), "d_tag_to_str(1879048187)"); }
        if let Some(s) = elf::to_str::d_tag_to_str(1879048188) { assert!(eq(s, "DT_VERDEF"), "d_tag_to_str(1879048188)"); }
        if let Some(s) = elf::to_str::d_tag_to_str(1879048189) { assert!(eq(s, "DT_VERDEFNUM"), "d_tag_to_str(1879048189)"); }
        if let Some(s) = elf::to_str::d_tag_to_str(1879048190) { assert!(eq(s, "DT_VERNEED"), "d_tag_to_str(1879048190)"); }
        if let Some(s) = elf::to_str::d_tag_to_str(1879048191) { assert!(eq(s, "DT_VERNEEDNUM"), "d_tag_to_str(1879048191)"); }
        if let Some(s) = elf::to_str::d_tag_to_str(1879048192) { assert!(eq(s, "DT_LOPROC") || eq(s, "DT_PPC_GOT") || eq(s, "DT_PPC64_GLINK"), "d_tag_to_str(1879048192)"); }
        if let Some(s) = elf::to_str::d_tag_to_str(1879048193) { assert!(eq(s, "DT_ARM_SYMTABSZ") || eq(s, "DT_AARCH64_BTI_PLT") || eq(s, "DT_PPC_OPT") || eq(s, "DT_PPC64_OPD") || eq(s, "DT_RISCV_VARIANT_CC"), "d_tag_to_str(1879048193)"); }
        if let Some(s) = elf::to_str::d_tag_to_str(1879048194) { assert!(eq(s, "DT_ARM_PREEMPTMAP") || eq(s, "DT_PPC64_OPDSZ"), "d_tag_to_str(1879048194)"); }
        if let Some(s) = elf::to_str::d_tag_to_str(1879048195) { assert!(eq(s, "DT_AARCH64_PAC_PLT") || eq(s, "DT_PPC64_OPT"), "d_tag_to_str(1879048195)"); }
        if let Some(s) = elf::to_str::d_tag_to_str(1879048197) { assert!(eq(s, "DT_AARCH64_VARIANT_PCS"), "d_tag_to_str(1879048197)"); }
        if let Some(s) = elf::to_str::d_tag_to_str(2147483647) { assert!(eq(s, "DT_HIPROC"), "d_tag_to_str(2147483647)"); }
    }
    #[kani::proof]
    pub fn note_abi_tag_os_to_str_none_outside_constants() {
        let x: u32 = kani::any();
        kani::assume(x != 0 && x != 1 && x != 2 && x != 3 && x != 4 && x != 5 && x != 6 && x != 7 && x != 8 && x != 9 && x != 10 && x != 11);
        kani::assume(x != 12 && x != 13 && x != 14 && x != 15 && x != 16 && x != 17 && x != 18 && x != 19 && x != 20 && x != 21 && x != 22 && x != 23);
        kani::assume(x != 24 && x != 25 && x != 26 && x != 27 && x != 28 && x != 29 && x != 30 && x != 31 && x != 32 && x != 33 && x != 34 && x != 35);
        kani::assume(x != 36 && x != 37 && x != 38 && x != 39 && x != 40 && x != 41 && x != 42 && x != 43 && x != 44 && x != 45 && x != 46 && x != 47);
        kani::assume(x != 48 && x != 49 && x != 50 && x != 51 && x != 52 && x != 53 && x != 54 && x != 55 && x != 56 && x != 57 && x != 58 && x != 59);
        kani::assume(x != 60 && x != 61 && x != 62 && x != 63 && x != 64 && x != 65 && x != 66 && x != 67 && x != 68 && x != 69 && x != 70 && x != 71);
        kani::assume(x != 72 && x != 73 && x != 74 && x != 75 && x != 76 && x != 77 && x != 78 && x != 79 && x != 80 && x != 81 && x != 82 && x != 83);
        kani::assume(x != 84 && x != 85 && x != 86 && x != 87 && x != 88 && x != 89 && x != 90 && x != 91 && x != 92 && x != 93 && x != 94 && x != 95);
        kani::assume(x != 96 && x != 97 && x != 98 && x != 99 && x != 100 && x != 101 && x != 102 && x != 103 && x != 104 && x != 105 && x != 106 && x != 107);
        kani::assume(x != 108 && x != 109 && x != 110 && x != 111 && x != 112 && x != 113 && x != 114 && x != 115 && x != 116 && x != 128 && x != 129 && x != 130);
        kani::assume(x != 131 && x != 132 && x != 133 && x != 134 && x != 135 && x != 136 && x != 137 && x != 138 && x != 160 && x != 180 && x != 181 && x != 182);
        kani::assume(x != 183 && x != 184 && x != 185 && x != 186 && x != 187 && x != 188 && x != 247 && x != 248 && x != 249 && x != 250 && x != 251 && x != 252);
        kani::assume(x != 255 && x != 256 && x != 257 && x != 258 && x != 259 && x != 260 && x != 261 && x != 262 && x != 263 && x != 264 && x != 265 && x != 266);
        kani::assume(x != 267 && x != 268 && x != 269 && x != 270 && x != 271 && x != 272 && x != 273 && x != 274 && x != 275 && x != 276 && x != 277 && x != 278);
        kani::assume(x != 279 && x != 280 && x != 282 && x != 283 && x != 284 && x != 285 && x != 286 && x != 287 && x != 288 && x != 289 && x != 290 && x != 291);
        kani::assume(x != 292 && x != 293 && x != 299 && x != 300 && x != 301 && x != 302 && x != 303 && x != 304 && x != 305 && x != 306 && x != 307 && x != 308);
        kani::assume(x != 309 && x != 310 && x != 311 && x != 312 && x != 313 && x != 512 && x != 513 && x != 514 && x != 515 && x != 516 && x != 517 && x != 518);
        kani::assume(x != 519 && x != 520 && x != 521 && x != 522 && x != 523 && x != 524 && x != 525 && x != 526 && x != 527 && x != 528 && x != 529 && x != 530);
        kani::assume(x != 531 && x != 532 && x != 533 && x != 534 && x != 535 && x != 536 && x != 537 && x != 538 && x != 539 && x != 540 && x != 541 && x != 542);
        kani::assume(x != 543 && x != 544 && x != 545 && x != 546 && x != 547 && x != 548 && x != 549 && x != 550 && x != 551 && x != 552 && x != 553 && x != 554);
        kani::assume(x != 555 && x != 556 && x != 557 && x != 558 && x != 559 && x != 560 && x != 561 && x != 562 && x != 563 && x != 564 && x != 565 && x != 566);
        kani::assume(x != 567 && x != 568 && x != 569 && x != 570 && x != 571 && x != 572 && x != 573 && x != 1024 && x != 1025 && x != 1026 && x != 1027 && x != 1028);
        kani::assume(x != 1029 && x != 1030 && x != 1031 && x != 1032 && x != 2048 && x != 32768 && x != 65536 && x != 4198399 && x != 4259840 && x != 5046272 && x != 5373952 && x != 5439488);
        kani::assume(x != 8388608 && x != 16711680 && x != 16777216 && x != 33554432 && x != 50331648 && x != 67108864 && x != 83886080 && x != 267386880 && x != 1610612736 && x != 1685382480 && x != 1685382481 && x != 1685382482);
        kani::assume(x != 1685382483 && x != 1879048181 && x != 1879048182 && x != 1879048183 && x != 1879048189 && x != 1879048190 && x != 1879048191 && x != 1879048192 && x != 1879048193 && x != 1879048194 && x != 1879048195 && x != 1879048196);
        kani::assume(x != 1879048197 && x != 2147483647 && x != 2147483648 && x != 2415919103 && x != 3221225472 && x != 4026531840 && x != 4278190080);
        assert!(elf::to_str::note_abi_tag_os_to_str(x).is_none());
    }
}
