//! #[repr(C)] structs have the ABI's size, alignment and field offsets (reference: elf.h via offsetof/sizeof)
#[cfg(kani)]
pub mod layout {
    #[kani::proof]
    pub fn Elf32_Chdr() {
        assert!(core::mem::size_of::<elf::compression::Elf32_Chdr>() == 12, "Elf32_Chdr size");
        assert!(core::mem::align_of::<elf::compression::Elf32_Chdr>() == 4, "Elf32_Chdr align");
        assert!(core::mem::offset_of!(elf::compression::Elf32_Chdr, ch_type) == 0, "Elf32_Chdr.ch_type offset");
        assert!(core::mem::offset_of!(elf::compression::Elf32_Chdr, ch_size) == 4, "Elf32_Chdr.ch_size offset");
        assert!(core::mem::offset_of!(elf::compression::Elf32_Chdr, ch_addralign) == 8, "Elf32_Chdr.ch_addralign offset");
    }
    #[kani::proof]
    pub fn Elf64_Chdr() {
        assert!(core::mem::size_of::<elf::compression::Elf64_Chdr>() == 24, "Elf64_Chdr size");
        assert!(core::mem::align_of::<elf::compression::Elf64_Chdr>() == 8, "Elf64_Chdr align");
        assert!(core::mem::offset_of!(elf::compression::Elf64_Chdr, ch_type) == 0, "Elf64_Chdr.ch_type offset");
        assert!(core::mem::offset_of!(elf::compression::Elf64_Chdr, ch_reserved) == 4, "Elf64_Chdr.ch_reserved offset");
        assert!(core::mem::offset_of!(elf::compression::Elf64_Chdr, ch_size) == 8, "Elf64_Chdr.ch_size offset");
        assert!(core::mem::offset_of!(elf::compression::Elf64_Chdr, ch_addralign) == 16, "Elf64_Chdr.ch_addralign offset");
    }
    #[kani::proof]
    pub fn Elf32_Dyn() {
        assert!(core::mem::size_of::<elf::dynamic::Elf32_Dyn>() == 8, "Elf32_Dyn size");
        assert!(core::mem::align_of::<elf::dynamic::Elf32_Dyn>() == 4, "Elf32_Dyn align");
        assert!(core::mem::offset_of!(elf::dynamic::Elf32_Dyn, d_tag) == 0, "Elf32_Dyn.d_tag offset");
        assert!(core::mem::offset_of!(elf::dynamic::Elf32_Dyn, d_un) == 4, "Elf32_Dyn.d_un offset");
    }
    #[kani::proof]
    pub fn Elf64_Dyn() {
        assert!(core::mem::size_of::<elf::dynamic::Elf64_Dyn>() == 16, "Elf64_Dyn size");
        assert!(core::mem::align_of::<elf::dynamic::Elf64_Dyn>() == 8, "Elf64_Dyn align");
        assert!(core::mem::offset_of!(elf::dynamic::Elf64_Dyn, d_tag) == 0, "Elf64_Dyn.d_tag offset");
        assert!(core::mem::offset_of!(elf::dynamic::Elf64_Dyn, d_un) == 8, "Elf64_Dyn.d_un offset");
    }
    #[kani::proof]
    pub fn Elf32_Ehdr() {
        assert!(core::mem::size_of::<elf::file::Elf32_Ehdr>() == 52, "Elf32_Ehdr size");
        assert!(core::mem::align_of::<elf::file::Elf32_Ehdr>() == 4, "Elf32_Ehdr align");
        assert!(core::mem::offset_of!(elf::file::Elf32_Ehdr, e_ident) == 0, "Elf32_Ehdr.e_ident offset");
        assert!(core::mem::offset_of!(elf::file::Elf32_Ehdr, e_type) == 16, "Elf32_Ehdr.e_type offset");
        assert!(core::mem::offset_of!(elf::file::Elf32_Ehdr, e_machine) == 18, "Elf32_Ehdr.e_machine offset");
        assert!(core::mem::offset_of!(elf::file::Elf32_Ehdr, e_version) == 20, "Elf32_Ehdr.e_version offset");
        assert!(core::mem::offset_of!(elf::file::Elf32_Ehdr, e_entry) == 24, "Elf32_Ehdr.e_entry offset");
        assert!(core::mem::offset_of!(elf::file::Elf32_Ehdr, e_phoff) == 28, "Elf32_Ehdr.e_phoff offset");
        assert!(core::mem::offset_of!(elf::file::Elf32_Ehdr, e_shoff) == 32, "Elf32_Ehdr.e_shoff offset");
        assert!(core::mem::offset_of!(elf::file::Elf32_Ehdr, e_flags) == 36, "Elf32_Ehdr.e_flags offset");
        assert!(core::mem::offset_of!(elf::file::Elf32_Ehdr, e_ehsize) == 40, "Elf32_Ehdr.e_ehsize offset");
        assert!(core::mem::offset_of!(elf::file::Elf32_Ehdr, e_phentsize) == 42, "Elf32_Ehdr.e_phentsize offset");
        assert!(core::mem::offset_of!(elf::file::Elf32_Ehdr, e_phnum) == 44, "Elf32_Ehdr.e_phnum offset");
        assert!(core::mem::offset_of!(elf::file::Elf32_Ehdr, e_shentsize) == 46, "Elf32_Ehdr.e_shentsize offset");
        assert!(core::mem::offset_of!(elf::file::Elf32_Ehdr, e_shnum) == 48, "Elf32_Ehdr.e_shnum offset");
        assert!(core::mem::offset_of!(elf::file::Elf32_Ehdr, e_shstrndx) == 50, "Elf32_Ehdr.e_shstrndx offset");
    }
    #[kani::proof]
    pub fn Elf64_Ehdr() {
        assert!(core::mem::size_of::<elf::file::Elf64_Ehdr>() == 64, "Elf64_Ehdr size");
        assert!(core::mem::align_of::<elf::file::Elf64_Ehdr>() == 8, "Elf64_Ehdr align");
        assert!(core::mem::offset_of!(elf::file::Elf64_Ehdr, e_ident) == 0, "Elf64_Ehdr.e_ident offset");
        assert!(core::mem::offset_of!(elf::file::Elf64_Ehdr, e_type) == 16, "Elf64_Ehdr.e_type offset");
        assert!(core::mem::offset_of!(elf::file::Elf64_Ehdr, e_machine) == 18, "Elf64_Ehdr.e_machine offset");
        assert!(core::mem::offset_of!(elf::file::Elf64_Ehdr, e_version) == 20, "Elf64_Ehdr.e_version offset");
        assert!(core::mem::offset_of!(elf::file::Elf64_Ehdr, e_entry) == 24, "Elf64_Ehdr.e_entry offset");
        assert!(core::mem::offset_of!(elf::file::Elf64_Ehdr, e_phoff) == 32, "Elf64_Ehdr.e_phoff offset");
        assert!(core::mem::offset_of!(elf::file::Elf64_Ehdr, e_shoff) == 40, "Elf64_Ehdr.e_shoff offset");
        assert!(core::mem::offset_of!(elf::file::Elf64_Ehdr, e_flags) == 48, "Elf64_Ehdr.e_flags offset");
        assert!(core::mem::offset_of!(elf::file::Elf64_Ehdr, e_ehsize) == 52, "Elf64_Ehdr.e_ehsize offset");
        assert!(core::mem::offset_of!(elf::file::Elf64_Ehdr, e_phentsize) == 54, "Elf64_Ehdr.e_phentsize offset");
        assert!(core::mem::offset_of!(elf::file::Elf64_Ehdr, e_phnum) == 56, "Elf64_Ehdr.e_phnum offset");
        assert!(core::mem::offset_of!(elf::file::Elf64_Ehdr, e_shentsize) == 58, "Elf64_Ehdr.e_shentsize offset");
        assert!(core::mem::offset_of!(elf::file::Elf64_Ehdr, e_shnum) == 60, "Elf64_Ehdr.e_shnum offset");
        assert!(core::mem::offset_of!(elf::file::Elf64_Ehdr, e_shstrndx) == 62, "Elf64_Ehdr.e_shstrndx offset");
    }
    #[kani::proof]
    pub fn Elf32_Rel() {
        assert!(core::mem::size_of::<elf::relocation::Elf32_Rel>() == 8, "Elf32_Rel size");
        assert!(core::mem::align_of::<elf::relocation::Elf32_Rel>() == 4, "Elf32_Rel align");
        assert!(core::mem::offset_of!(elf::relocation::Elf32_Rel, r_offset) == 0, "Elf32_Rel.r_offset offset");
        assert!(core::mem::offset_of!(elf::relocation::Elf32_Rel, r_info) == 4, "Elf32_Rel.r_info offset");
    }
    #[kani::proof]
    pub fn Elf64_Rel() {
        assert!(core::mem::size_of::<elf::relocation::Elf64_Rel>() == 16, "Elf64_Rel size");
        assert!(core::mem::align_of::<elf::relocation::Elf64_Rel>() == 8, "Elf64_Rel align");
        assert!(core::mem::offset_of!(elf::relocation::Elf64_Rel, r_offset) == 0, "Elf64_Rel.r_offset offset");
        assert!(core::mem::offset_of!(elf::relocation::Elf64_Rel, r_info) == 8, "Elf64_Rel.r_info offset");
    }
    #[kani::proof]
    pub fn Elf32_Rela() {
        assert!(core::mem::size_of::<elf::relocation::Elf32_Rela>() == 12, "Elf32_Rela size");
        assert!(core::mem::align_of::<elf::relocation::Elf32_Rela>() == 4, "Elf32_Rela align");
        assert!(core::mem::offset_of!(elf::relocation::Elf32_Rela, r_offset) == 0, "Elf32_Rela.r_offset offset");
        assert!(core::mem::offset_of!(elf::relocation::Elf32_Rela, r_info) == 4, "Elf32_Rela.r_info offset");
        assert!(core::mem::offset_of!(elf::relocation::Elf32_Rela, r_addend) == 8, "Elf32_Rela.r_addend offset");
    }
    #[kani::proof]
    pub fn Elf64_Rela() {
        assert!(core::mem::size_of::<elf::relocation::Elf64_Rela>() == 24, "Elf64_Rela size");
        assert!(core::mem::align_of::<elf::relocation::Elf64_Rela>() == 8, "Elf64_Rela align");
        assert!(core::mem::offset_of!(elf::relocation::Elf64_Rela, r_offset) == 0, "Elf64_Rela.r_offset offset");
        assert!(core::mem::offset_of!(elf::relocation::Elf64_Rela, r_info) == 8, "Elf64_Rela.r_info offset");
        assert!(core::mem::offset_of!(elf::relocation::Elf64_Rela, r_addend) == 16, "Elf64_Rela.r_addend offset");
    }
    #[kani::proof]
    pub fn Elf32_Shdr() {
        assert!(core::mem::size_of::<elf::section::Elf32_Shdr>() == 40, "Elf32_Shdr size");
        assert!(core::mem::align_of::<elf::section::Elf32_Shdr>() == 4, "Elf32_Shdr align");
        assert!(core::mem::offset_of!(elf::section::Elf32_Shdr, sh_name) == 0, "Elf32_Shdr.sh_name offset");
        assert!(core::mem::offset_of!(elf::section::Elf32_Shdr, sh_type) == 4, "Elf32_Shdr.sh_type offset");
        assert!(core::mem::offset_of!(elf::section::Elf32_Shdr, sh_flags) == 8, "Elf32_Shdr.sh_flags offset");
        assert!(core::mem::offset_of!(elf::section::Elf32_Shdr, sh_addr) == 12, "Elf32_Shdr.sh_addr offset");
        assert!(core::mem::offset_of!(elf::section::Elf32_Shdr, sh_offset) == 16, "Elf32_Shdr.sh_offset offset");
        assert!(core::mem::offset_of!(elf::section::Elf32_Shdr, sh_size) == 20, "Elf32_Shdr.sh_size offset");
        assert!(core::mem::offset_of!(elf::section::Elf32_Shdr, sh_link) == 24, "Elf32_Shdr.sh_link offset");
        assert!(core::mem::offset_of!(elf::section::Elf32_Shdr, sh_info) == 28, "Elf32_Shdr.sh_info offset");
        assert!(core::mem::offset_of!(elf::section::Elf32_Shdr, sh_addralign) == 32, "Elf32_Shdr.sh_addralign offset");
        assert!(core::mem::offset_of!(elf::section::Elf32_Shdr, sh_entsize) == 36, "Elf32_Shdr.sh_entsize offset");
    }
    #[kani::proof]
    pub fn Elf64_Shdr() {
        assert!(core::mem::size_of::<elf::section::Elf64_Shdr>() == 64, "Elf64_Shdr size");
        assert!(core::mem::align_of::<elf::section::Elf64_Shdr>() == 8, "Elf64_Shdr align");
        assert!(core::mem::offset_of!(elf::section::Elf64_Shdr, sh_name) == 0, "Elf64_Shdr.sh_name offset");
        assert!(core::mem::offset_of!(elf::section::Elf64_Shdr, sh_type) == 4, "Elf64_Shdr.sh_type offset");
        assert!(core::mem::offset_of!(elf::section::Elf64_Shdr, sh_flags) == 8, "Elf64_Shdr.sh_flags offset");
        assert!(core::mem::offset_of!(elf::section::Elf64_Shdr, sh_addr) == 16, "Elf64_Shdr.sh_addr offset");
        assert!(core::mem::offset_of!(elf::section::Elf64_Shdr, sh_offset) == 24, "Elf64_Shdr.sh_offset offset");
        assert!(core::mem::offset_of!(elf::section::Elf64_Shdr, sh_size) == 32, "Elf64_Shdr.sh_size offset");
        assert!(core::mem::offset_of!(elf::section::Elf64_Shdr, sh_link) == 40, "Elf64_Shdr.sh_link offset");
        assert!(core::mem::offset_of!(elf::section::Elf64_Shdr, sh_info) == 44, "Elf64_Shdr.sh_info offset");
        assert!(core::mem::offset_of!(elf::section::Elf64_Shdr, sh_addralign) == 48, "Elf64_Shdr.sh_addralign offset");
        assert!(core::mem::offset_of!(elf::section::Elf64_Shdr, sh_entsize) == 56, "Elf64_Shdr.sh_entsize offset");
    }
    #[kani::proof]
    pub fn Elf32_Phdr() {
        assert!(core::mem::size_of::<elf::segment::Elf32_Phdr>() == 32, "Elf32_Phdr size");
        assert!(core::mem::align_of::<elf::segment::Elf32_Phdr>() == 4, "Elf32_Phdr align");
        assert!(core::mem::offset_of!(elf::segment::Elf32_Phdr, p_type) == 0, "Elf32_Phdr.p_type offset");
        assert!(core::mem::offset_of!(elf::segment::Elf32_Phdr, p_offset) == 4, "Elf32_Phdr.p_offset offset");
        assert!(core::mem::offset_of!(elf::segment::Elf32_Phdr, p_vaddr) == 8, "Elf32_Phdr.p_vaddr offset");
        assert!(core::mem::offset_of!(elf::segment::Elf32_Phdr, p_paddr) == 12, "Elf32_Phdr.p_paddr offset");
        assert!(core::mem::offset_of!(elf::segment::Elf32_Phdr, p_filesz) == 16, "Elf32_Phdr.p_filesz offset");
        assert!(core::mem::offset_of!(elf::segment::Elf32_Phdr, p_memsz) == 20, "Elf32_Phdr.p_memsz offset");
        assert!(core::mem::offset_of!(elf::segment::Elf32_Phdr, p_flags) == 24, "Elf32_Phdr.p_flags offset");
        assert!(core::mem::offset_of!(elf::segment::Elf32_Phdr, p_align) == 28, "Elf32_Phdr.p_align offset");
    }
    #[kani::proof]
    pub fn Elf64_Phdr() {
        assert!(core::mem::size_of::<elf::segment::Elf64_Phdr>() == 56, "Elf64_Phdr size");
        assert!(core::mem::align_of::<elf::segment::Elf64_Phdr>() == 8, "Elf64_Phdr align");
        assert!(core::mem::offset_of!(elf::segment::Elf64_Phdr, p_type) == 0, "Elf64_Phdr.p_type offset");
        assert!(core::mem::offset_of!(elf::segment::Elf64_Phdr, p_flags) == 4, "Elf64_Phdr.p_flags offset");
        assert!(core::mem::offset_of!(elf::segment::Elf64_Phdr, p_offset) == 8, "Elf64_Phdr.p_offset offset");
        assert!(core::mem::offset_of!(elf::segment::Elf64_Phdr, p_vaddr) == 16, "Elf64_Phdr.p_vaddr offset");
        assert!(core::mem::offset_of!(elf::segment::Elf64_Phdr, p_paddr) == 24, "Elf64_Phdr.p_paddr offset");
        assert!(core::mem::offset_of!(elf::segment::Elf64_Phdr, p_filesz) == 32, "Elf64_Phdr.p_filesz offset");
        assert!(core::mem::offset_of!(elf::segment::Elf64_Phdr, p_memsz) == 40, "Elf64_Phdr.p_memsz offset");
        assert!(core::mem::offset_of!(elf::segment::Elf64_Phdr, p_align) == 48, "Elf64_Phdr.p_align offset");
    }
    #[kani::proof]
    pub fn Elf32_Sym() {
        assert!(core::mem::size_of::<elf::symbol::Elf32_Sym>() == 16, "Elf32_Sym size");
        assert!(core::mem::align_of::<elf::symbol::Elf32_Sym>() == 4, "Elf32_Sym align");
        assert!(core::mem::offset_of!(elf::symbol::Elf32_Sym, st_name) == 0, "Elf32_Sym.st_name offset");
        assert!(core::mem::offset_of!(elf::symbol::Elf32_Sym, st_value) == 4, "Elf32_Sym.st_value offset");
        assert!(core::mem::offset_of!(elf::symbol::Elf32_Sym, st_size) == 8, "Elf32_Sym.st_size offset");
        assert!(core::mem::offset_of!(elf::symbol::Elf32_Sym, st_info) == 12, "Elf32_Sym.st_info offset");
        assert!(core::mem::offset_of!(elf::symbol::Elf32_Sym, st_other) == 13, "Elf32_Sym.st_other offset");
        assert!(core::mem::offset_of!(elf::symbol::Elf32_Sym, st_shndx) == 14, "Elf32_Sym.st_shndx offset");
    }
    #[kani::proof]
    pub fn Elf64_Sym() {
        assert!(core::mem::size_of::<elf::symbol::Elf64_Sym>() == 24, "Elf64_Sym size");
        assert!(core::mem::align_of::<elf::symbol::Elf64_Sym>() == 8, "Elf64_Sym align");
        assert!(core::mem::offset_of!(elf::symbol::Elf64_Sym, st_name) == 0, "Elf64_Sym.st_name offset");
        assert!(core::mem::offset_of!(elf::symbol::Elf64_Sym, st_info) == 4, "Elf64_Sym.st_info offset");
        assert!(core::mem::offset_of!(elf::symbol::Elf64_Sym, st_other) == 5, "Elf64_Sym.st_other offset");
        assert!(core::mem::offset_of!(elf::symbol::Elf64_Sym, st_shndx) == 6, "Elf64_Sym.st_shndx offset");
        assert!(core::mem::offset_of!(elf::symbol::Elf64_Sym, st_value) == 8, "Elf64_Sym.st_value offset");
        assert!(core::mem::offset_of!(elf::symbol::Elf64_Sym, st_size) == 16, "Elf64_Sym.st_size offset");
    }
}
