//! Native confirmation program for engine-B counterexamples on the SLICE parser (C05 table location / entsize gates /
//! SHN_XINDEX, C13 symbol-version wiring, C20 alternative access paths, C01 totality of the file-level accessors).
//! It builds families of small concrete ELF files (all orders of the common section kinds, every sh_link target incl. out of
//! range, right/wrong sh_entsize, ranges inside / touching / outside the file, extended numbering) and compares what the REAL
//! `ElfBytes` returns with an independent reference reader written from the gABI / GNU documents.
//! Prints `FAIL <property> <scenario> :: <what>` and exits 1 on the first disagreement; exits 0 when every scenario agrees.
use elf::endian::AnyEndian;
use elf::ElfBytes;
use std::panic::{catch_unwind, AssertUnwindSafe};

const SHT_SYMTAB: u32 = 2;
const SHT_STRTAB: u32 = 3;
const SHT_HASH: u32 = 5;
const SHT_DYNAMIC: u32 = 6;
const SHT_DYNSYM: u32 = 11;
const SHT_GNU_HASH: u32 = 0x6ffffff6;
const SHT_GNU_VERDEF: u32 = 0x6ffffffd;
const SHT_GNU_VERNEED: u32 = 0x6ffffffe;
const SHT_GNU_VERSYM: u32 = 0x6fffffff;
const PT_DYNAMIC: u32 = 2;

#[derive(Clone, Debug)]
struct Sec {
    ty: u32,
    link: u32,
    info: u32,
    entsize: u64,
    data: Vec<u8>,
    off_override: Option<u64>,
    size_override: Option<u64>,
    name: u32,
}
fn sec(ty: u32, data: Vec<u8>) -> Sec {
    Sec { ty, link: 0, info: 0, entsize: 0, data, off_override: None, size_override: None, name: 0 }
}

#[derive(Clone, Debug, Default)]
struct Spec {
    secs: Vec<Sec>,
    phdrs: Vec<(u32, u64, u64)>, // (type, offset, filesz)
    shstrndx: u16,
    xnum: bool,        // e_shnum = 0 / e_phnum = 0xffff / e_shstrndx = 0xffff with the real values in shdr[0]
    shentsize: u16,
    trailing: usize,
}

/// Same image with the tables FIRST (header | phdrs | shdrs | section data): most proper prefixes still open (C18 family).
fn build_early(s: &Spec) -> Vec<u8> {
    let late = build(s);
    let nph = s.phdrs.len();
    let nsec = s.secs.len();
    let tables = 56 * nph + 64 * nsec;
    let old_phoff = u64a(&late, 32).unwrap() as usize;
    let old_shoff = u64a(&late, 40).unwrap() as usize;
    let data_end = if nph > 0 { old_phoff } else { old_shoff };
    let mut f = late[..64].to_vec();
    let phoff = if nph > 0 { 64usize } else { 0 };
    let shoff = 64 + 56 * nph;
    if nph > 0 {
        f.extend_from_slice(&late[old_phoff..old_phoff + 56 * nph]);
    }
    f.extend_from_slice(&late[old_shoff..old_shoff + 64 * nsec]);
    f.extend_from_slice(&late[64..data_end]);
    f.extend(std::iter::repeat(0xa5u8).take(s.trailing));
    f[32..40].copy_from_slice(&(phoff as u64).to_le_bytes());
    f[40..48].copy_from_slice(&(shoff as u64).to_le_bytes());
    // section offsets move by the size of the tables (overridden offsets stay as they are)
    for (i, sc) in s.secs.iter().enumerate() {
        if sc.off_override.is_none() {
            let p = shoff + 64 * i + 24;
            let o = u64a(&f, p).unwrap() + tables as u64;
            f[p..p + 8].copy_from_slice(&o.to_le_bytes());
        }
    }
    for i in 0..nph {
        let p = phoff + 56 * i + 8;
        let o = u64a(&f, p).unwrap();
        if o >= 64 {
            f[p..p + 8].copy_from_slice(&(o + tables as u64).to_le_bytes());
        }
    }
    f
}

/// ELF64 little-endian image: header | section data | phdrs | shdrs
fn build(s: &Spec) -> Vec<u8> {
    let mut f = vec![0u8; 64];
    let mut offs = Vec::new();
    for sc in &s.secs {
        offs.push(f.len() as u64);
        f.extend_from_slice(&sc.data);
    }
    let phoff = if s.phdrs.is_empty() { 0 } else { f.len() as u64 };
    for (ty, off, fsz) in &s.phdrs {
        let mut p = vec![0u8; 56];
        p[0..4].copy_from_slice(&ty.to_le_bytes());
        p[8..16].copy_from_slice(&off.to_le_bytes());
        p[32..40].copy_from_slice(&fsz.to_le_bytes());
        p[40..48].copy_from_slice(&fsz.to_le_bytes());
        p[48..56].copy_from_slice(&8u64.to_le_bytes());
        f.extend_from_slice(&p);
    }
    let shoff = if s.secs.is_empty() { 0 } else { f.len() as u64 };
    let nsec = s.secs.len();
    for (i, sc) in s.secs.iter().enumerate() {
        let mut h = vec![0u8; 64];
        h[0..4].copy_from_slice(&sc.name.to_le_bytes());
        h[4..8].copy_from_slice(&sc.ty.to_le_bytes());
        h[24..32].copy_from_slice(&sc.off_override.unwrap_or(offs[i]).to_le_bytes());
        let mut size = sc.size_override.unwrap_or(sc.data.len() as u64);
        let mut link = sc.link;
        let mut info = sc.info;
        if i == 0 && s.xnum {
            size = nsec as u64;
            link = s.shstrndx as u32;
            info = s.phdrs.len() as u32;
        }
        h[32..40].copy_from_slice(&size.to_le_bytes());
        h[40..44].copy_from_slice(&link.to_le_bytes());
        h[44..48].copy_from_slice(&info.to_le_bytes());
        h[48..56].copy_from_slice(&1u64.to_le_bytes());
        h[56..64].copy_from_slice(&sc.entsize.to_le_bytes());
        f.extend_from_slice(&h);
    }
    f.extend(std::iter::repeat(0xa5u8).take(s.trailing));
    f[0..4].copy_from_slice(b"\x7fELF");
    f[4] = 2;
    f[5] = 1;
    f[6] = 1;
    f[16] = 2;
    f[18] = 62;
    f[20] = 1;
    f[32..40].copy_from_slice(&phoff.to_le_bytes());
    f[40..48].copy_from_slice(&shoff.to_le_bytes());
    f[52..54].copy_from_slice(&64u16.to_le_bytes());
    f[54..56].copy_from_slice(&56u16.to_le_bytes());
    let phnum = if s.xnum && !s.phdrs.is_empty() { 0xffff } else { s.phdrs.len() as u16 };
    f[56..58].copy_from_slice(&phnum.to_le_bytes());
    f[58..60].copy_from_slice(&s.shentsize.to_le_bytes());
    let shnum = if s.xnum { 0 } else { nsec as u16 };
    f[60..62].copy_from_slice(&shnum.to_le_bytes());
    let ndx = if s.xnum { 0xffff } else { s.shstrndx };
    f[62..64].copy_from_slice(&ndx.to_le_bytes());
    f
}

// ---------------- independent reference reader (ELF64 LE only) ----------------
fn u16a(f: &[u8], p: usize) -> Option<u64> {
    f.get(p..p + 2).map(|b| u16::from_le_bytes(b.try_into().unwrap()) as u64)
}
fn u32a(f: &[u8], p: usize) -> Option<u64> {
    f.get(p..p.checked_add(4)?).map(|b| u32::from_le_bytes(b.try_into().unwrap()) as u64)
}
fn u64a(f: &[u8], p: usize) -> Option<u64> {
    f.get(p..p.checked_add(8)?).map(|b| u64::from_le_bytes(b.try_into().unwrap()))
}
#[derive(Clone, Copy, Debug, PartialEq)]
struct RSh {
    name: u64,
    ty: u64,
    flags: u64,
    off: u64,
    size: u64,
    link: u64,
    info: u64,
    entsize: u64,
}
fn rsh(f: &[u8], p: usize) -> Option<RSh> {
    if p.checked_add(64)? > f.len() {
        return None;
    }
    Some(RSh { name: u32a(f, p)?, ty: u32a(f, p + 4)?, flags: u64a(f, p + 8)?, off: u64a(f, p + 24)?, size: u64a(f, p + 32)?, link: u32a(f, p + 40)?, info: u32a(f, p + 44)?, entsize: u64a(f, p + 56)? })
}
/// Ok(None) = table absent; Err = open must fail
fn ref_sections(f: &[u8]) -> Result<Option<Vec<RSh>>, ()> {
    if f.len() < 64 {
        return Err(());
    }
    let shoff = u64a(f, 40).unwrap();
    if shoff == 0 {
        return Ok(None);
    }
    let mut n = u16a(f, 60).unwrap();
    if n == 0 {
        n = rsh(f, shoff as usize).ok_or(())?.size;
    }
    if u16a(f, 58).unwrap() != 64 {
        return Err(());
    }
    let total = n.checked_mul(64).ok_or(())?;
    let end = shoff.checked_add(total).ok_or(())?;
    if end > f.len() as u64 {
        return Err(());
    }
    Ok(Some((0..n).map(|i| rsh(f, (shoff + i * 64) as usize).unwrap()).collect()))
}
fn rrange(f: &[u8], off: u64, size: u64) -> Result<(u64, u64), ()> {
    let end = off.checked_add(size).ok_or(())?;
    if end > f.len() as u64 {
        return Err(());
    }
    Ok((off, size))
}
/// reference for symbol_table()/dynamic_symbol_table(): first section of the type; entsize gate; ranges of it and of shdr[sh_link]
fn ref_symtab(f: &[u8], secs: &Option<Vec<RSh>>, ty: u32) -> Result<Option<((u64, u64), (u64, u64))>, ()> {
    let secs = match secs {
        Some(s) => s,
        None => return Ok(None),
    };
    let s = match secs.iter().find(|s| s.ty == ty as u64) {
        Some(s) => s,
        None => return Ok(None),
    };
    let l = secs.get(s.link as usize).ok_or(())?;
    if s.entsize != 24 {
        return Err(());
    }
    Ok(Some((rrange(f, s.off, s.size)?, rrange(f, l.off, l.size)?)))
}

struct Failure(String);
macro_rules! fail {
    ($($t:tt)*) => { return Err(Failure(format!($($t)*))) };
}
fn off_of(f: &[u8], s: &[u8]) -> u64 {
    (s.as_ptr() as usize).wrapping_sub(f.as_ptr() as usize) as u64
}

fn check_file(label: &str, f: &[u8]) -> Result<(), Failure> {
    let opened = match catch_unwind(AssertUnwindSafe(|| ElfBytes::<AnyEndian>::minimal_parse(f))) {
        Ok(o) => o,
        Err(_) => fail!("C01/C05 minimal_parse panicked [{label}]"),
    };
    let rs = ref_sections(f);
    // program header table reference
    let rp: Result<Option<u64>, ()> = (|| {
        if f.len() < 64 {
            return Err(());
        }
        let phoff = u64a(f, 32).unwrap();
        if phoff == 0 {
            return Ok(None);
        }
        let mut n = u16a(f, 56).unwrap();
        if n == 0xffff {
            n = rsh(f, u64a(f, 40).unwrap() as usize).ok_or(())?.info;
        }
        if u16a(f, 54).unwrap() != 56 {
            return Err(());
        }
        let end = phoff.checked_add(n.checked_mul(56).ok_or(())?).ok_or(())?;
        if end > f.len() as u64 {
            return Err(());
        }
        Ok(Some(n))
    })();
    let e = match (opened, &rs, &rp) {
        (Ok(e), Ok(_), Ok(_)) => e,
        (Err(_), Err(_), _) | (Err(_), _, Err(_)) => return Ok(()),
        (Ok(_), _, _) => fail!("C05 minimal_parse succeeds although a declared header table is malformed / does not fit [{label}]"),
        (Err(x), Ok(_), Ok(_)) => fail!("C05 minimal_parse fails ({x}) although both tables are well-formed [{label}]"),
    };
    let rs = rs.unwrap();
    match (&rs, e.section_headers()) {
        (None, None) => {}
        (Some(r), Some(t)) => {
            if r.len() != t.len() {
                fail!("C05 section table has {} entries, the header declares {} [{label}]", t.len(), r.len());
            }
            for (i, x) in r.iter().enumerate() {
                let g = t.get(i).map_err(|_| Failure(format!("C05 section header {i} unreadable [{label}]")))?;
                if g.sh_offset != x.off || g.sh_size != x.size || g.sh_type as u64 != x.ty || g.sh_link as u64 != x.link || g.sh_info as u64 != x.info || g.sh_entsize != x.entsize {
                    fail!("C05 section header {i} is not the record at e_shoff+{i}*64 [{label}]");
                }
            }
        }
        _ => fail!("C05 section table presence differs from e_shoff != 0 [{label}]"),
    }
    match (rp.unwrap(), e.segments()) {
        (None, None) => {}
        (Some(n), Some(t)) => {
            if n as usize != t.len() {
                fail!("C05 program header table has {} entries, the header (or shdr[0].sh_info) declares {n} [{label}]", t.len());
            }
        }
        _ => fail!("C05 program table presence differs from e_phoff != 0 [{label}]"),
    }
    // section_data on every section header: exact range or error, never a panic
    if let Some(secs) = &rs {
        for (i, x) in secs.iter().enumerate() {
            let h = match e.section_headers().and_then(|t| t.get(i).ok()) {
                Some(h) => h,
                None => continue,
            };
            let got = match catch_unwind(AssertUnwindSafe(|| e.section_data(&h).map(|(d, c)| (off_of(f, d), d.len() as u64, c.is_some())))) {
                Ok(g) => g,
                Err(_) => fail!("C01 section_data panicked on section {i} (flags {:#x}, size {}) [{label}]", x.flags, x.size),
            };
            if x.ty == 8 {
                continue;
            }
            let fits = rrange(f, x.off, x.size).is_ok();
            let compressed = x.flags & 0x800 != 0;
            match got {
                Ok((o, l, c)) => {
                    if !fits || (compressed && x.size < 24) {
                        fail!("C03 section_data succeeds on section {i} although its range (or compression header) does not fit [{label}]");
                    }
                    let (eo, el) = if compressed { (x.off + 24, x.size - 24) } else { (x.off, x.size) };
                    if c != compressed || l != el || (l > 0 && o != eo) {
                        fail!("C03 section_data on section {i} returned [{o},+{l}) instead of [{eo},+{el}) [{label}]");
                    }
                }
                Err(_) => {
                    if fits && !(compressed && x.size < 24) {
                        fail!("C03 section_data fails on section {i} although its range fits [{label}]");
                    }
                }
            }
        }
    }
    // section_headers_with_strtab
    let got = catch_unwind(AssertUnwindSafe(|| e.section_headers_with_strtab())).map_err(|_| Failure(format!("C01 section_headers_with_strtab panicked [{label}]")))?;
    if let Some(secs) = &rs {
        let ndx = u16a(f, 62).unwrap();
        let exp: Result<Option<(u64, u64)>, ()> = if ndx == 0 {
            Ok(None)
        } else {
            let idx = if ndx == 0xffff { secs.first().map(|s| s.link).ok_or(()) } else { Ok(ndx) };
            idx.and_then(|i| secs.get(i as usize).ok_or(())).and_then(|s| rrange(f, s.off, s.size)).map(Some)
        };
        match (got, exp) {
            (Ok((_, None)), Ok(None)) | (Err(_), Err(_)) => {}
            (Ok((_, Some(t))), Ok(Some((o, sz)))) => {
                if sz > 0 {
                    if let Ok(s) = t.get_raw(0) {
                        if off_of(f, s) != o {
                            fail!("C05 section-name string table starts at {} instead of {o} [{label}]", off_of(f, s));
                        }
                    }
                }
                if t.get_raw(sz as usize).is_ok() {
                    fail!("C05 section-name string table is longer than the designated {sz} bytes [{label}]");
                }
            }
            (g, x) => fail!("C05 section_headers_with_strtab: got {} / expected {:?} [{label}]", if g.is_ok() { "Ok" } else { "Err" }, x),
        }
    }
    // symbol tables
    for (name, ty) in [("symbol_table", SHT_SYMTAB), ("dynamic_symbol_table", SHT_DYNSYM)] {
        let got = catch_unwind(AssertUnwindSafe(|| if ty == SHT_SYMTAB { e.symbol_table() } else { e.dynamic_symbol_table() }))
            .map_err(|_| Failure(format!("C01 {name} panicked [{label}]")))?;
        let exp = ref_symtab(f, &rs, ty);
        match (got, exp) {
            (Ok(None), Ok(None)) | (Err(_), Err(_)) => {}
            (Ok(Some((tab, strs))), Ok(Some(((o, sz), (so, ssz))))) => {
                if tab.len() as u64 != sz / 24 {
                    fail!("C20 {name}: table has {} entries, the section designates {} [{label}]", tab.len(), sz / 24);
                }
                if sz >= 24 && tab.get(0).map(|s| s.st_name as u64).ok() != u32a(f, o as usize) {
                    fail!("C20 {name}: first symbol is not the record at sh_offset [{label}]");
                }
                if ssz > 0 {
                    if let Ok(s) = strs.get_raw(0) {
                        if off_of(f, s) != so {
                            fail!("C20 {name}: string table is not the section designated by sh_link [{label}]");
                        }
                    }
                }
            }
            (Ok(Some(_)), Err(_)) => fail!("C05 {name} succeeds although sh_entsize / a range / sh_link is invalid [{label}]"),
            (g, x) => fail!("C20 {name}: got {} / expected {:?} [{label}]", match &g { Ok(Some(_)) => "Ok(Some)", Ok(None) => "Ok(None)", Err(_) => "Err" }, x.map(|o| o.is_some())),
        }
    }
    // dynamic(): first SHT_DYNAMIC section (entsize 16), else - only without a section table - first PT_DYNAMIC segment
    let gd = catch_unwind(AssertUnwindSafe(|| e.dynamic())).map_err(|_| Failure(format!("C01 dynamic panicked [{label}]")))?;
    if let Some(secs) = &rs {
        let exp: Result<Option<(u64, u64)>, ()> = match secs.iter().find(|s| s.ty == SHT_DYNAMIC as u64) {
            None => Ok(None),
            Some(s) => {
                if s.entsize != 16 {
                    Err(())
                } else if s.flags & 0x800 != 0 {
                    return Ok(());
                } else {
                    rrange(f, s.off, s.size).map(Some)
                }
            }
        };
        match (gd, exp) {
            (Ok(None), Ok(None)) | (Err(_), Err(_)) => {}
            (Ok(Some(t)), Ok(Some((_o, sz)))) => {
                if t.len() as u64 != sz / 16 {
                    fail!("C20 dynamic(): table has {} entries, .dynamic designates {} [{label}]", t.len(), sz / 16);
                }
            }
            (Ok(Some(_)), Err(_)) => fail!("C05 dynamic() succeeds although .dynamic has a wrong sh_entsize or range [{label}]"),
            (g, x) => fail!("C20 dynamic(): got {} / expected {:?} [{label}]", if g.is_ok() { "Ok" } else { "Err" }, x),
        }
    }
    // find_common_data vs the targeted accessors (at most one section of each kind in these families)
    if let Some(secs) = &rs {
        let kinds = [SHT_SYMTAB, SHT_DYNSYM, SHT_DYNAMIC, SHT_HASH, SHT_GNU_HASH];
        let unique = kinds.iter().all(|k| secs.iter().filter(|s| s.ty == *k as u64).count() <= 1);
        let compressed = secs.iter().any(|s| s.flags & 0x800 != 0);
        if unique && !compressed {
            let cd = catch_unwind(AssertUnwindSafe(|| e.find_common_data())).map_err(|_| Failure(format!("C01 find_common_data panicked [{label}]")))?;
            if let Ok(cd) = cd {
                for (what, present, ty) in [("symtab", cd.symtab.is_some(), SHT_SYMTAB), ("dynsyms", cd.dynsyms.is_some(), SHT_DYNSYM), ("dynamic", cd.dynamic.is_some(), SHT_DYNAMIC),
                    ("sysv_hash", cd.sysv_hash.is_some(), SHT_HASH), ("gnu_hash", cd.gnu_hash.is_some(), SHT_GNU_HASH)] {
                    let exists = secs.iter().any(|s| s.ty == ty as u64);
                    let has_ptdyn = what == "dynamic" && e.segments().map(|p| p.iter().any(|p| p.p_type == PT_DYNAMIC)).unwrap_or(false);
                    if exists != present && !(has_ptdyn && present) {
                        fail!("C20 find_common_data: member {what} is {} although a section of that kind {} [{label}]", if present { "Some" } else { "None" }, if exists { "exists" } else { "does not exist" });
                    }
                }
                if let (Some(a), Ok(Some((b, _)))) = (&cd.symtab, e.symbol_table()) {
                    if a.len() != b.len() || a.get(0).ok() != b.get(0).ok() {
                        fail!("C20 find_common_data.symtab differs from symbol_table() [{label}]");
                    }
                }
                if let (Some(a), Ok(Some((b, _)))) = (&cd.dynsyms, e.dynamic_symbol_table()) {
                    if a.len() != b.len() || a.get(0).ok() != b.get(0).ok() {
                        fail!("C20 find_common_data.dynsyms differs from dynamic_symbol_table() [{label}]");
                    }
                }
            }
        }
    }
    // section_header_by_name: first section (table order) whose name string equals the query
    if let Some(secs) = &rs {
        let ndx = u16a(f, 62).unwrap();
        let idx = if ndx == 0xffff { secs.first().map(|s| s.link) } else { Some(ndx) };
        let strs: Option<&[u8]> = if ndx == 0 { None } else { idx.and_then(|i| secs.get(i as usize)).and_then(|s| rrange(f, s.off, s.size).ok()).map(|(o, z)| &f[o as usize..(o + z) as usize]) };
        for q in [".text", ".rela", ".text.hot", "", ".t", "x", ".rela.dyn", "lib"] {
            let got = match catch_unwind(AssertUnwindSafe(|| e.section_header_by_name(q))) {
                Ok(g) => g,
                Err(_) => fail!("C01 section_header_by_name panicked [{label}]"),
            };
            let Some(strs) = strs else { continue };
            let exp = secs.iter().position(|s| {
                let Some(t) = strs.get(s.name as usize..) else { return false };
                let Some(n) = t.iter().position(|b| *b == 0) else { return false };
                match std::str::from_utf8(&t[..n]) {
                    Ok(name) => name == q,
                    Err(_) => false,
                }
            });
            match (got, exp) {
                (Ok(None), None) => {}
                (Ok(Some(h)), Some(i)) => {
                    let x = &secs[i];
                    if h.sh_name as u64 != x.name || h.sh_offset != x.off || h.sh_type as u64 != x.ty || h.sh_size != x.size {
                        fail!("C20 section_header_by_name({q:?}) returned another section than the first one named {q:?} (index {i}) [{label}]");
                    }
                }
                (Ok(Some(_)), None) => fail!("C20 section_header_by_name({q:?}) returned a section although no section has exactly that name [{label}]"),
                (Ok(None), Some(i)) => fail!("C20 section_header_by_name({q:?}) = None although section {i} has that name [{label}]"),
                (Err(_), _) => {}
            }
        }
    }
    // symbol_version_table wiring, observed through queries: reference resolution by an independent walker
    if let Some(secs) = &rs {
        let one = |t: u32| secs.iter().filter(|s| s.ty == t as u64).count() <= 1;
        if one(SHT_GNU_VERSYM) && one(SHT_GNU_VERNEED) && one(SHT_GNU_VERDEF) {
            let got = catch_unwind(AssertUnwindSafe(|| e.symbol_version_table())).map_err(|_| Failure(format!("C01 symbol_version_table panicked [{label}]")))?;
            let vs = secs.iter().find(|s| s.ty == SHT_GNU_VERSYM as u64);
            match (got, vs) {
                (Ok(None), None) => {}
                (Ok(None), Some(_)) => fail!("C13 symbol_version_table returns None although a .gnu.version section exists [{label}]"),
                (Ok(Some(_)), None) => fail!("C13 symbol_version_table returns a table without a .gnu.version section [{label}]"),
                (Err(_), _) => {}
                (Ok(Some(t)), Some(vs)) => {
                    if vs.entsize != 2 {
                        fail!("C05 symbol_version_table succeeds although .gnu.version has sh_entsize {} [{label}]", vs.entsize);
                    }
                    let nsym = (vs.size / 2).min(6);
                    for i in 0..nsym as usize {
                        let raw = match u16a(f, vs.off as usize + 2 * i) {
                            Some(v) => v as u16,
                            None => break,
                        };
                        let want = raw & 0x7fff;
                        // requirement: first vernaux (list order) whose vna_other == want
                        let mut exp_req: Option<(Vec<u8>, Vec<u8>, u32, u16)> = None;
                        let mut ref_ok = true;
                        if let Some(vn) = secs.iter().find(|s| s.ty == SHT_GNU_VERNEED as u64) {
                            let strs = secs.get(vn.link as usize);
                            let data = f.get(vn.off as usize..(vn.off + vn.size) as usize);
                            if let (Some(strs), Some(data)) = (strs, data) {
                                let sdata = f.get(strs.off as usize..(strs.off.saturating_add(strs.size)) as usize).unwrap_or(&[]);
                                let cstr = |o: u64| -> Option<Vec<u8>> {
                                    let t = sdata.get(o as usize..)?;
                                    let n = t.iter().position(|b| *b == 0)?;
                                    Some(t[..n].to_vec())
                                };
                                let mut off = 0usize;
                                let mut cnt = vn.info;
                                'files: while cnt > 0 {
                                    let (Some(ver), Some(ac), Some(file), Some(aux), Some(next)) = (u16a(data, off), u16a(data, off + 2), u32a(data, off + 4), u32a(data, off + 8), u32a(data, off + 12)) else { break };
                                    if ver != 1 {
                                        break;
                                    }
                                    let mut ao = off + aux as usize;
                                    let mut acnt = ac;
                                    while acnt > 0 {
                                        let (Some(h), Some(fl), Some(other), Some(nm), Some(an)) = (u32a(data, ao), u16a(data, ao + 4), u16a(data, ao + 6), u32a(data, ao + 8), u32a(data, ao + 12)) else { break };
                                        if other as u16 == want {
                                            match (cstr(file), cstr(nm)) {
                                                (Some(a), Some(b)) => exp_req = Some((a, b, h as u32, fl as u16)),
                                                _ => ref_ok = false,
                                            }
                                            break 'files;
                                        }
                                        acnt -= 1;
                                        if an == 0 {
                                            break;
                                        }
                                        ao += an as usize;
                                    }
                                    cnt -= 1;
                                    if next == 0 {
                                        break;
                                    }
                                    off += next as usize;
                                }
                            } else {
                                ref_ok = false;
                            }
                        }
                        if !ref_ok {
                            continue;
                        }
                        match (t.get_requirement(i), &exp_req) {
                            (Ok(None), None) => {}
                            (Ok(Some(r)), Some((file, name, h, fl))) => {
                                if r.file.as_bytes() != &file[..] || r.name.as_bytes() != &name[..] || r.hash != *h || r.flags != *fl || r.hidden != (raw & 0x8000 != 0) {
                                    fail!("C13 get_requirement({i}) resolves to {}/{} instead of {}/{} [{label}]", r.file, r.name, String::from_utf8_lossy(file), String::from_utf8_lossy(name));
                                }
                            }
                            (Ok(None), Some((file, name, _, _))) => fail!("C13 get_requirement({i}) = None, expected {}/{} [{label}]", String::from_utf8_lossy(file), String::from_utf8_lossy(name)),
                            (Ok(Some(r)), None) => fail!("C13 get_requirement({i}) = {}/{} although no auxiliary record has index {want} [{label}]", r.file, r.name),
                            (Err(_), _) => {}
                        }
                        // definition: names resolved against shdr[verdef.sh_link]
                        if let Some(vd) = secs.iter().find(|s| s.ty == SHT_GNU_VERDEF as u64) {
                            let (Some(strs), Some(data)) = (secs.get(vd.link as usize), f.get(vd.off as usize..(vd.off.saturating_add(vd.size)) as usize)) else { continue };
                            let sdata = f.get(strs.off as usize..(strs.off.saturating_add(strs.size)) as usize).unwrap_or(&[]);
                            let cstr = |o: u64| -> Option<Vec<u8>> {
                                let t = sdata.get(o as usize..)?;
                                let n = t.iter().position(|b| *b == 0)?;
                                Some(t[..n].to_vec())
                            };
                            let mut off = 0usize;
                            let mut cnt = vd.info;
                            let mut exp_names: Option<Vec<Option<Vec<u8>>>> = None;
                            while cnt > 0 {
                                let (Some(ver), Some(ndx), Some(c), Some(aux), Some(next)) = (u16a(data, off), u16a(data, off + 4), u16a(data, off + 6), u32a(data, off + 12), u32a(data, off + 16)) else { break };
                                if ver != 1 {
                                    break;
                                }
                                if ndx as u16 == want {
                                    let mut names = Vec::new();
                                    let mut ao = off + aux as usize;
                                    let mut ac = c;
                                    while ac > 0 {
                                        let (Some(nm), Some(an)) = (u32a(data, ao), u32a(data, ao + 4)) else { break };
                                        names.push(cstr(nm));
                                        ac -= 1;
                                        if an == 0 {
                                            break;
                                        }
                                        ao += an as usize;
                                    }
                                    exp_names = Some(names);
                                    break;
                                }
                                cnt -= 1;
                                if next == 0 {
                                    break;
                                }
                                off += next as usize;
                            }
                            match (t.get_definition(i), exp_names) {
                                (Ok(None), None) => {}
                                (Ok(Some(d)), Some(names)) => {
                                    let got: Vec<Option<Vec<u8>>> = d.names.map(|n| n.ok().map(|s| s.as_bytes().to_vec())).collect();
                                    if got != names {
                                        fail!("C13 get_definition({i}) names {:?} instead of {:?} (strings must come from shdr[.gnu.version_d.sh_link]) [{label}]",
                                            got.iter().map(|n| n.as_ref().map(|b| String::from_utf8_lossy(b).to_string())).collect::<Vec<_>>(),
                                            names.iter().map(|n| n.as_ref().map(|b| String::from_utf8_lossy(b).to_string())).collect::<Vec<_>>());
                                    }
                                }
                                (Ok(None), Some(_)) => fail!("C13 get_definition({i}) = None although a definition has index {want} [{label}]"),
                                (Ok(Some(_)), None) => fail!("C13 get_definition({i}) returns a definition although none has index {want} [{label}]"),
                                (Err(_), _) => {}
                            }
                        }
                    }
                }
            }
        }
    }
    Ok(())
}

/// C18: every query's answer on `f`, as text with positions relative to the start of `f` (None when the file does not open).
fn answers(f: &[u8]) -> Option<Vec<(String, Result<String, String>)>> {
    let e = ElfBytes::<AnyEndian>::minimal_parse(f).ok()?;
    let mut out: Vec<(String, Result<String, String>)> = Vec::new();
    let rng = |s: &[u8]| if s.is_empty() { "empty".to_string() } else { format!("[{}+{}]", off_of(f, s), s.len()) };
    let shdrs: Vec<elf::section::SectionHeader> = e.section_headers().map(|t| t.iter().collect()).unwrap_or_default();
    let phdrs: Vec<elf::segment::ProgramHeader> = e.segments().map(|t| t.iter().collect()).unwrap_or_default();
    out.push(("open".into(), Ok(format!("{:?} shdrs={:?} phdrs={:?}", e.ehdr, shdrs, phdrs))));
    let strtab_desc = |st: &elf::string_table::StringTable| -> String {
        (0..12).map(|i| match st.get_raw(i) { Ok(s) => rng(s), Err(_) => "E".into() }).collect::<Vec<_>>().join(",")
    };
    out.push(("section_headers_with_strtab".into(), match e.section_headers_with_strtab() {
        Ok((sh, st)) => Ok(format!("{:?} {:?}", sh.map(|t| t.len()), st.as_ref().map(|s| strtab_desc(s)))),
        Err(x) => Err(format!("{x:?}")),
    }));
    for name in [".text", "", "ax", "lib1", ".text.hot", "lib"] {
        out.push((format!("section_header_by_name({name:?})"), e.section_header_by_name(name).map(|o| format!("{o:?}")).map_err(|x| format!("{x:?}"))));
    }
    out.push(("symbol_table".into(), e.symbol_table().map(|o| o.map(|(t, s)| format!("{:?} {}", t.iter().collect::<Vec<_>>(), strtab_desc(&s))).unwrap_or("None".into())).map_err(|x| format!("{x:?}"))));
    out.push(("dynamic_symbol_table".into(), e.dynamic_symbol_table().map(|o| o.map(|(t, s)| format!("{:?} {}", t.iter().collect::<Vec<_>>(), strtab_desc(&s))).unwrap_or("None".into())).map_err(|x| format!("{x:?}"))));
    out.push(("dynamic".into(), e.dynamic().map(|o| o.map(|t| format!("{:?}", t.iter().collect::<Vec<_>>())).unwrap_or("None".into())).map_err(|x| format!("{x:?}"))));
    out.push(("find_common_data".into(), e.find_common_data().map(|c| format!("symtab={:?} dynsyms={:?} dynamic={:?} sysv={} gnu={} strs={:?}/{:?}",
        c.symtab.as_ref().map(|t| t.iter().collect::<Vec<_>>()), c.dynsyms.as_ref().map(|t| t.iter().collect::<Vec<_>>()), c.dynamic.as_ref().map(|t| t.iter().collect::<Vec<_>>()),
        c.sysv_hash.is_some(), c.gnu_hash.is_some(), c.symtab_strs.as_ref().map(|s| strtab_desc(s)), c.dynsyms_strs.as_ref().map(|s| strtab_desc(s)))).map_err(|x| format!("{x:?}"))));
    out.push(("symbol_version_table".into(), match e.symbol_version_table() {
        Ok(None) => Ok("None".into()),
        Ok(Some(t)) => Ok((0..9).map(|i| format!("{:?}/{:?}", t.get_requirement(i).map(|o| o.map(|r| (r.file.to_string(), r.name.to_string(), r.hash, r.flags, r.hidden))).map_err(|x| format!("{x:?}")),
            t.get_definition(i).map(|o| o.map(|d| (d.hash, d.flags, d.hidden, d.names.map(|n| n.map(|s| s.to_string()).unwrap_or("E".into())).collect::<Vec<_>>()))).map_err(|x| format!("{x:?}")))).collect::<Vec<_>>().join(";")),
        Err(x) => Err(format!("{x:?}")),
    }));
    for (i, sh) in shdrs.iter().enumerate() {
        out.push((format!("section_data({i})"), e.section_data(sh).map(|(d, c)| format!("{} {:?}", rng(d), c)).map_err(|x| format!("{x:?}"))));
        out.push((format!("section_data_as_strtab({i})"), e.section_data_as_strtab(sh).map(|s| strtab_desc(&s)).map_err(|x| format!("{x:?}"))));
        out.push((format!("section_data_as_rels({i})"), e.section_data_as_rels(sh).map(|it| format!("{:?}", it.collect::<Vec<_>>())).map_err(|x| format!("{x:?}"))));
        out.push((format!("section_data_as_relas({i})"), e.section_data_as_relas(sh).map(|it| format!("{:?}", it.collect::<Vec<_>>())).map_err(|x| format!("{x:?}"))));
        out.push((format!("section_data_as_notes({i})"), e.section_data_as_notes(sh).map(|it| format!("{:?}", it.collect::<Vec<_>>())).map_err(|x| format!("{x:?}"))));
    }
    for (i, ph) in phdrs.iter().enumerate() {
        out.push((format!("segment_data({i})"), e.segment_data(ph).map(|d| rng(d)).map_err(|x| format!("{x:?}"))));
        out.push((format!("segment_data_as_notes({i})"), e.segment_data_as_notes(ph).map(|it| format!("{:?}", it.collect::<Vec<_>>())).map_err(|x| format!("{x:?}"))));
    }
    Some(out)
}

/// C18: on every proper prefix of `full` (and on `full` with bytes appended) each query is Err or exactly the answer on `full`.
fn check_prefixes(label: &str, full: &[u8]) -> Result<(), Failure> {
    let whole = match catch_unwind(AssertUnwindSafe(|| answers(full))) {
        Ok(Some(a)) => a,
        Ok(None) => return Ok(()),
        Err(_) => fail!("C01/C18 a query panicked on the complete file [{label}]"),
    };
    let compare = |what: &str, other: &[u8]| -> Result<(), Failure> {
        let a = match catch_unwind(AssertUnwindSafe(|| answers(other))) {
            Ok(Some(a)) => a,
            Ok(None) => return Ok(()),
            Err(_) => fail!("C01/C18 a query panicked on the {what} [{label}]"),
        };
        for (q, r) in &a {
            if let Ok(x) = r {
                match whole.iter().find(|(wq, _)| wq == q) {
                    Some((_, Ok(y))) if x == y => {}
                    Some((_, wr)) => {
                        // show both answers from shortly before the first difference
                        let y0 = match wr { Ok(y) => y.as_str(), Err(y) => y.as_str() };
                        let d = x.bytes().zip(y0.bytes()).position(|(a, b)| a != b).unwrap_or(x.len().min(y0.len()));
                        let from = d.saturating_sub(40);
                        let cut = |t: &str| t.get(from..t.len().min(from + 160)).unwrap_or("").to_string();
                        fail!("C18 {what}: {q} answers Ok(..{}) but the complete file answers {}(..{}) [{label}]", cut(x), if wr.is_ok() { "Ok" } else { "Err" }, if wr.is_ok() { cut(y0) } else { y0.to_string() })
                    }
                    None => fail!("C18 {what}: {q} has an answer that the complete file does not have (different tables) [{label}]"),
                }
            }
        }
        Ok(())
    };
    for n in 0..full.len() {
        compare(&format!("prefix of {n} of {} bytes", full.len()), &full[..n])?;
    }
    for (k, fill) in [(1usize, 0u8), (7, 0xff), (64, 0x5a)] {
        let mut ext = full.to_vec();
        ext.extend(std::iter::repeat(fill).take(k));
        // appended bytes change no answer: compare in both directions (the extended file is a complete file whose prefix is `full`)
        compare(&format!("file extended by {k} bytes"), &ext)?;
    }
    Ok(())
}

fn symtab_data(n: usize) -> Vec<u8> {
    (0..24 * n).map(|i| (i * 5 + 1) as u8).collect()
}
fn strtab_data(tag: u8) -> Vec<u8> {
    vec![0, b'a' + tag, b'x', 0, b'l', b'i', b'b', tag + b'0', 0]
}
fn hash_data() -> Vec<u8> {
    let mut d = Vec::new();
    for w in [1u32, 2, 1, 0, 0] {
        d.extend_from_slice(&w.to_le_bytes());
    }
    d
}
fn gnu_hash_data() -> Vec<u8> {
    let mut d = Vec::new();
    for w in [1u32, 1, 1, 6] {
        d.extend_from_slice(&w.to_le_bytes());
    }
    d.extend_from_slice(&0u64.to_le_bytes());
    d.extend_from_slice(&1u32.to_le_bytes());
    d.extend_from_slice(&1u32.to_le_bytes());
    d
}
/// verneed: 2 files (headers first), 1 aux each; names/file strings at offsets 1 and 4 of the linked string table
fn verneed_data() -> Vec<u8> {
    let mut d = vec![0u8; 64];
    let w16 = |d: &mut Vec<u8>, p: usize, v: u16| d[p..p + 2].copy_from_slice(&v.to_le_bytes());
    let w32 = |d: &mut Vec<u8>, p: usize, v: u32| d[p..p + 4].copy_from_slice(&v.to_le_bytes());
    w16(&mut d, 0, 1); w16(&mut d, 2, 1); w32(&mut d, 4, 4); w32(&mut d, 8, 32); w32(&mut d, 12, 16);
    w16(&mut d, 16, 1); w16(&mut d, 18, 1); w32(&mut d, 20, 1); w32(&mut d, 24, 32); w32(&mut d, 28, 0);
    w32(&mut d, 32, 0x1111); w16(&mut d, 36, 0); w16(&mut d, 38, 2); w32(&mut d, 40, 1); w32(&mut d, 44, 0);
    w32(&mut d, 48, 0x2222); w16(&mut d, 52, 1); w16(&mut d, 54, 3); w32(&mut d, 56, 4); w32(&mut d, 60, 0);
    d
}
/// two definitions, NOT sorted by index (index 4 with two names first, then index 1 with one name)
fn verdef_data() -> Vec<u8> {
    let mut d = vec![0u8; 64];
    let w16 = |d: &mut Vec<u8>, p: usize, v: u16| d[p..p + 2].copy_from_slice(&v.to_le_bytes());
    let w32 = |d: &mut Vec<u8>, p: usize, v: u32| d[p..p + 4].copy_from_slice(&v.to_le_bytes());
    w16(&mut d, 0, 1); w16(&mut d, 2, 0); w16(&mut d, 4, 4); w16(&mut d, 6, 2); w32(&mut d, 8, 0x3333); w32(&mut d, 12, 20); w32(&mut d, 16, 36);
    w32(&mut d, 20, 4); w32(&mut d, 24, 8); w32(&mut d, 28, 1); w32(&mut d, 32, 0);
    w16(&mut d, 36, 1); w16(&mut d, 38, 1); w16(&mut d, 40, 1); w16(&mut d, 42, 1); w32(&mut d, 44, 0x4444); w32(&mut d, 48, 20); w32(&mut d, 52, 0);
    w32(&mut d, 56, 1); w32(&mut d, 60, 0);
    d
}
fn versym_data() -> Vec<u8> {
    let mut d = Vec::new();
    for v in [0u16, 1, 2, 3, 4, 0x8003, 0x8004, 9] {
        d.extend_from_slice(&v.to_le_bytes());
    }
    d
}

fn permutations(items: &[usize]) -> Vec<Vec<usize>> {
    if items.len() <= 1 {
        return vec![items.to_vec()];
    }
    let mut out = Vec::new();
    for i in 0..items.len() {
        let mut rest = items.to_vec();
        let x = rest.remove(i);
        for mut p in permutations(&rest) {
            p.insert(0, x);
            out.push(p);
        }
    }
    out
}

static mut FAILS: Vec<String> = Vec::new();
fn note(r: Result<(), Failure>) {
    if let Err(f) = r {
        unsafe {
            let fails = &mut *std::ptr::addr_of_mut!(FAILS);
            // keep the first failure of each distinct "<property> <first words>" kind
            let key: String = f.0.split(' ').take(3).collect::<Vec<_>>().join(" ");
            if fails.len() < 60 && !fails.iter().any(|x| x.starts_with(&key)) {
                fails.push(f.0);
            }
        }
    }
}

fn run() -> Result<usize, Failure> {
    let mut n = 0usize;
    // Family 1: the five common kinds + two string tables in every order (5! orders of the kinds), links to each string table
    let kinds: Vec<Sec> = vec![
        Sec { entsize: 24, ..sec(SHT_SYMTAB, symtab_data(2)) },
        Sec { entsize: 24, ..sec(SHT_DYNSYM, symtab_data(3)) },
        Sec { entsize: 16, ..sec(SHT_DYNAMIC, vec![7u8; 32]) },
        sec(SHT_HASH, hash_data()),
        sec(SHT_GNU_HASH, gnu_hash_data()),
    ];
    for perm in permutations(&[0, 1, 2, 3, 4]) {
        for (l1, l2) in [(6u32, 7u32), (7, 6), (6, 6)] {
            let mut secs = vec![sec(0, vec![])];
            for &k in &perm {
                let mut s = kinds[k].clone();
                if s.ty == SHT_SYMTAB {
                    s.link = l1;
                }
                if s.ty == SHT_DYNSYM {
                    s.link = l2;
                }
                secs.push(s);
            }
            secs.push(sec(SHT_STRTAB, strtab_data(1)));
            secs.push(sec(SHT_STRTAB, strtab_data(2)));
            for ph in [false, true] {
                let phdrs = if ph { vec![(1u32, 0u64, 64u64), (PT_DYNAMIC, 64, 32)] } else { vec![] };
                let spec = Spec { secs: secs.clone(), phdrs, shstrndx: 6, xnum: false, shentsize: 64, trailing: 0 };
                note(check_file(&format!("common kinds order {perm:?} links ({l1},{l2}) phdrs={ph}"), &build(&spec)));
                n += 1;
            }
        }
    }
    // Family 2: subsets and corruptions of a 4-section file: entsize, link, ranges, extended numbering, shstrndx
    let base = vec![sec(0, vec![]), Sec { entsize: 24, link: 3, ..sec(SHT_SYMTAB, symtab_data(2)) }, Sec { entsize: 16, ..sec(SHT_DYNAMIC, vec![9u8; 48]) }, sec(SHT_STRTAB, strtab_data(3)), sec(SHT_STRTAB, strtab_data(4))];
    for es in [0u64, 16, 23, 24, 25, 48] {
        for link in [0u32, 1, 2, 3, 4, 5, 0xffff_ffff] {
            for des in [0u64, 8, 16, 17] {
                for (ov, sz) in [(None, None), (Some(1u64 << 40), None), (None, Some(1u64 << 33)), (Some(u64::MAX), Some(2))] {
                    let mut secs = base.clone();
                    secs[1].entsize = es;
                    secs[1].link = link;
                    secs[2].entsize = des;
                    secs[1].off_override = ov;
                    secs[3].size_override = sz;
                    for (xnum, ndx) in [(false, 3u16), (false, 0), (false, 9), (true, 4), (true, 200)] {
                        for ph in [false, true] {
                            let phdrs = if ph { vec![(PT_DYNAMIC, 64u64, 16u64), (1, 0, 8)] } else { vec![] };
                            let spec = Spec { secs: secs.clone(), phdrs, shstrndx: ndx, xnum, shentsize: 64, trailing: 3 };
                            note(check_file(&format!("symtab entsize={es} link={link} dyn entsize={des} off={ov:?} strsize={sz:?} xnum={xnum} shstrndx={ndx} phdrs={ph}"), &build(&spec)));
                            n += 1;
                        }
                    }
                }
            }
        }
    }
    for she in [0u16, 40, 63, 65] {
        let spec = Spec { secs: base.clone(), phdrs: vec![], shstrndx: 3, xnum: false, shentsize: she, trailing: 0 };
        note(check_file(&format!("e_shentsize={she}"), &build(&spec)));
        n += 1;
    }
    // PN_XNUM with sh_info != sh_link and e_shnum extended: counts taken from the right shdr[0] fields
    for nph in [1usize, 2, 3] {
        let spec = Spec { secs: base.clone(), phdrs: (0..nph).map(|i| (1u32, 0u64, 8 * i as u64)).collect(), shstrndx: 4, xnum: true, shentsize: 64, trailing: 0 };
        let mut f = build(&spec);
        note(check_file(&format!("PN_XNUM with {nph} program headers, shdr[0].sh_link=4"), &f));
        let l = f.len();
        f.truncate(l - 1);
        note(check_file(&format!("PN_XNUM with {nph} program headers, truncated by one byte"), &f));
        n += 2;
    }
    // extended section count so large that count*64 overflows (2^58 + k) or merely does not fit
    for cnt in [(1u64 << 58) + 2, 1u64 << 58, (1u64 << 57) + 1, u64::MAX, 1u64 << 40] {
        let spec = Spec { secs: base.clone(), phdrs: vec![], shstrndx: 3, xnum: true, shentsize: 64, trailing: 0 };
        let mut f = build(&spec);
        let shoff = u64a(&f, 40).unwrap() as usize;
        f[shoff + 32..shoff + 40].copy_from_slice(&cnt.to_le_bytes());
        note(check_file(&format!("e_shnum=0 with shdr[0].sh_size={cnt:#x}"), &f));
        n += 1;
    }
    // SHF_COMPRESSED sections shorter than / exactly as long as a compression header; section_data on every header
    for csz in [0u64, 1, 11, 12, 23, 24, 25, 40] {
        let mut secs = base.clone();
        secs.push(Sec { size_override: Some(csz), ..sec(1, vec![3u8; 40]) });
        let spec = Spec { secs, phdrs: vec![], shstrndx: 3, xnum: false, shentsize: 64, trailing: 0 };
        let mut f = build(&spec);
        let shoff = u64a(&f, 40).unwrap() as usize;
        let last = shoff + 64 * 5;
        f[last + 8..last + 16].copy_from_slice(&0x800u64.to_le_bytes());
        note(check_file(&format!("SHF_COMPRESSED section of {csz} bytes"), &f));
        n += 1;
    }
    // Family 3: symbol versioning: versym + verneed + verdef with their own string tables, in every order and link assignment
    let vk: Vec<Sec> = vec![
        Sec { entsize: 2, ..sec(SHT_GNU_VERSYM, versym_data()) },
        Sec { info: 2, ..sec(SHT_GNU_VERNEED, verneed_data()) },
        Sec { info: 2, ..sec(SHT_GNU_VERDEF, verdef_data()) },
    ];
    for perm in permutations(&[0, 1, 2]) {
        for (ln, ld) in [(4u32, 5u32), (5, 4), (4, 4), (5, 5), (9, 4), (4, 9)] {
            for drop in [None, Some(SHT_GNU_VERNEED), Some(SHT_GNU_VERDEF), Some(SHT_GNU_VERSYM)] {
                for ves in [2u64, 4] {
                    let mut secs = vec![sec(0, vec![])];
                    for &k in &perm {
                        let mut s = vk[k].clone();
                        if Some(s.ty) == drop {
                            s.ty = 1;
                        }
                        if s.ty == SHT_GNU_VERNEED {
                            s.link = ln;
                        }
                        if s.ty == SHT_GNU_VERDEF {
                            s.link = ld;
                        }
                        if s.ty == SHT_GNU_VERSYM {
                            s.entsize = ves;
                        }
                        secs.push(s);
                    }
                    secs.push(sec(SHT_STRTAB, strtab_data(5)));
                    secs.push(sec(SHT_STRTAB, strtab_data(6)));
                    let spec = Spec { secs, phdrs: vec![], shstrndx: 4, xnum: false, shentsize: 64, trailing: 0 };
                    note(check_file(&format!("symver order {perm:?} verneed.link={ln} verdef.link={ld} dropped={drop:?} versym entsize={ves}"), &build(&spec)));
                    n += 1;
                }
            }
        }
    }
    // Family 4: section names that are prefixes of each other, duplicated, empty and not UTF-8, in several orders
    let names: Vec<&[u8]> = vec![b".text.hot", b".text", b".rela.dyn", b"", b"\xff\xfe", b".text", b"lib"];
    for perm in permutations(&[0, 1, 2, 3, 4]) {
        let mut strtab = vec![0u8];
        let mut secs = vec![sec(0, vec![])];
        for &k in perm.iter().chain([5usize, 6].iter()) {
            let off = strtab.len() as u32;
            strtab.extend_from_slice(names[k]);
            strtab.push(0);
            secs.push(Sec { name: off, ..sec(1, vec![k as u8; 4]) });
        }
        let snd = secs.len() as u16;
        secs.push(sec(SHT_STRTAB, strtab));
        let spec = Spec { secs, phdrs: vec![], shstrndx: snd, xnum: false, shentsize: 64, trailing: 0 };
        note(check_file(&format!("section names in order {perm:?}"), &build(&spec)));
        n += 1;
    }
    // Family 5 (C18): tables-first images of the families above; every proper prefix and a few extensions
    {
        let mut specs: Vec<(String, Spec)> = Vec::new();
        let mut secs = vec![sec(0, vec![])];
        for (i, k) in kinds.iter().enumerate() {
            let mut s = k.clone();
            if s.ty == SHT_SYMTAB { s.link = 6; }
            if s.ty == SHT_DYNSYM { s.link = 7; }
            s.name = [1u32, 4, 1, 4, 1][i];
            secs.push(s);
        }
        secs.push(Sec { name: 1, ..sec(SHT_STRTAB, strtab_data(1)) });
        secs.push(Sec { name: 4, ..sec(SHT_STRTAB, strtab_data(2)) });
        specs.push(("common kinds".into(), Spec { secs: secs.clone(), phdrs: vec![(1u32, 0u64, 64u64), (PT_DYNAMIC, 64 + 48 + 72, 32), (4, 64, 20)], shstrndx: 6, xnum: false, shentsize: 64, trailing: 0 }));
        specs.push(("common kinds, extended numbering".into(), Spec { secs: secs.clone(), phdrs: vec![(PT_DYNAMIC, 64 + 48 + 72, 32)], shstrndx: 7, xnum: true, shentsize: 64, trailing: 0 }));
        let mut vs = vec![sec(0, vec![])];
        for k in &vk {
            let mut s = k.clone();
            if s.ty == SHT_GNU_VERNEED { s.link = 4; }
            if s.ty == SHT_GNU_VERDEF { s.link = 5; }
            vs.push(s);
        }
        vs.push(Sec { name: 1, ..sec(SHT_STRTAB, strtab_data(5)) });
        vs.push(Sec { name: 4, ..sec(SHT_STRTAB, strtab_data(6)) });
        vs.push(Sec { name: 1, ..sec(7, vec![4, 0, 0, 0, 4, 0, 0, 0, 3, 0, 0, 0, b'G', b'N', b'U', 0, 1, 2, 3, 4, 4, 0, 0, 0, 0, 0, 0, 0, 9, 0, 0, 0, b'X', b'Y', b'Z', 0]) });
        specs.push(("symbol versioning + notes".into(), Spec { secs: vs, phdrs: vec![], shstrndx: 5, xnum: false, shentsize: 64, trailing: 0 }));
        for (label, spec) in specs {
            let f = build_early(&spec);
            note(check_file(&format!("tables-first image: {label}"), &f));
            note(check_prefixes(&format!("tables-first image: {label}"), &f));
            n += f.len() + 3;
        }
    }
    // Family 6 (C18): extended numbering on BOTH tables with the program header table in front of section header 0
    // (e_phnum = 0xffff, e_shnum = 0; 65536 program headers, then shdr[0] carrying the real counts). A prefix that cuts
    // into shdr[0] cannot know either count: it must not open with the escape values taken literally.
    {
        let phnum: usize = 65536;
        let shoff = 52 + phnum * 32;
        let mut f = vec![0u8; shoff + 40];
        f[0..4].copy_from_slice(b"\x7fELF");
        f[4] = 1; f[5] = 1; f[6] = 1;
        f[16] = 2; f[18] = 3; f[20] = 1;
        f[28..32].copy_from_slice(&52u32.to_le_bytes());
        f[32..36].copy_from_slice(&(shoff as u32).to_le_bytes());
        f[40..42].copy_from_slice(&52u16.to_le_bytes());
        f[42..44].copy_from_slice(&32u16.to_le_bytes());
        f[44..46].copy_from_slice(&0xffffu16.to_le_bytes());
        f[46..48].copy_from_slice(&40u16.to_le_bytes());
        for i in 0..phnum {
            f[52 + 32 * i..52 + 32 * i + 4].copy_from_slice(&((i as u32 % 7) + 1).to_le_bytes());
        }
        f[shoff + 20..shoff + 24].copy_from_slice(&1u32.to_le_bytes());
        f[shoff + 28..shoff + 32].copy_from_slice(&(phnum as u32).to_le_bytes());
        let light = |b: &[u8]| -> Option<String> {
            let e = ElfBytes::<AnyEndian>::minimal_parse(b).ok()?;
            Some(format!("segments={:?} sections={:?} last segment={:?}", e.segments().map(|t| t.len()), e.section_headers().map(|t| t.len()),
                e.segments().and_then(|t| t.get(t.len().saturating_sub(1)).ok())))
        };
        let label = "ELF32 image: 65536 program headers (e_phnum=0xffff) followed by section header 0 (e_shnum=0)";
        match catch_unwind(AssertUnwindSafe(|| {
            let whole = light(&f);
            let mut cuts: Vec<usize> = (shoff.saturating_sub(2)..f.len()).collect();
            cuts.extend([0usize, 16, 51, 52, 53, 52 + 32 * 65535, 52 + 32 * 65535 + 1]);
            for n_ in cuts {
                if let Some(a) = light(&f[..n_]) {
                    if Some(&a) != whole.as_ref() {
                        return Err(Failure(format!("C18 prefix of {n_} of {} bytes: open answers Ok({a}) but the complete file answers {:?} [{label}]", f.len(), whole)));
                    }
                }
            }
            Ok(())
        })) {
            Ok(r) => note(r),
            Err(_) => note(Err(Failure(format!("C01/C18 open panicked on a prefix [{label}]")))),
        }
        n += 50;
    }
    Ok(n)
}

fn main() {
    std::panic::set_hook(Box::new(|_| {}));
    let n = match run() {
        Ok(n) => n,
        Err(f) => {
            println!("FAIL {}", f.0);
            std::process::exit(1);
        }
    };
    let fails = unsafe { &*std::ptr::addr_of!(FAILS) };
    if fails.is_empty() {
        println!("slice families (common sections, corruptions, extended numbering, symbol versioning): {n} scenarios agree with the reference reader");
    } else {
        for f in fails {
            println!("FAIL {f}");
        }
        std::process::exit(1);
    }
}
