//! C10 — byte-order specs gate files; ident defects are reported as what they are.
//! Bound: the 16 ident bytes fully symbolic (exhaustive over EI_DATA/EI_CLASS/EI_VERSION/magic);
//! file-level: header-only files (no tables) of symbolic length with symbolic header bytes.
use crate::util::*;
use elf::endian::{AnyEndian, BigEndian, EndianParse, LittleEndian, NativeEndian};
use elf::file::{parse_ident, Class, FileHeader};
use elf::parse::ParseError;
use elf::ElfBytes;

pub fn ident_oracle<E: EndianParse>(
    buf: &[u8; 16],
    allow_lsb: bool,
    allow_msb: bool,
    r: Result<(E, Class, u8, u8), ParseError>,
) {
    let magic_ok = buf[0] == 0x7f && buf[1] == b'E' && buf[2] == b'L' && buf[3] == b'F';
    let ver_ok = buf[6] == 1;
    let class_ok = buf[4] == 1 || buf[4] == 2;
    let data_ok = (buf[5] == 1 && allow_lsb) || (buf[5] == 2 && allow_msb);
    match r {
        Ok((e, c, osabi, abiver)) => {
            assert!(magic_ok && ver_ok && class_ok && data_ok);
            assert!(e.is_little() == (buf[5] == 1));
            assert!(e.is_big() == (buf[5] == 2));
            assert!((c == Class::ELF32) == (buf[4] == 1));
            assert!((c == Class::ELF64) == (buf[4] == 2));
            assert!(osabi == buf[7] && abiver == buf[8]);
            kani::cover!(!allow_lsb || buf[5] == 1, "accepted LSB file (if the spec allows it)");
            kani::cover!(!allow_msb || buf[5] == 2, "accepted MSB file (if the spec allows it)");
        }
        Err(e) => {
            assert!(!(magic_ok && ver_ok && class_ok && data_ok));
            // single-defect cases name the defect and carry the offending bytes
            if !magic_ok && ver_ok && class_ok && data_ok {
                match e {
                    ParseError::BadMagic(m) => {
                        assert!(m[0] == buf[0] && m[1] == buf[1] && m[2] == buf[2] && m[3] == buf[3]);
                    }
                    _ => {
                        assert!(false);
                    }
                }
            } else if magic_ok && !ver_ok && class_ok && data_ok {
                match e {
                    ParseError::UnsupportedVersion((found, expected)) => {
                        assert!(found == buf[6] as u64 && expected == 1);
                    }
                    _ => {
                        assert!(false);
                    }
                }
            } else if magic_ok && ver_ok && !class_ok && data_ok {
                match e {
                    ParseError::UnsupportedElfClass(c) => {
                        assert!(c == buf[4]);
                    }
                    _ => {
                        assert!(false);
                    }
                }
            } else if magic_ok && ver_ok && class_ok && !data_ok {
                match e {
                    ParseError::UnsupportedElfEndianness(d) => {
                        assert!(d == buf[5]);
                        kani::cover!(d == 1 || d == 2, "valid order rejected by a fixed spec (unsat for AnyEndian)");
                    }
                    _ => {
                        assert!(false);
                    }
                }
            }
        }
    }
}

#[kani::proof]
#[kani::unwind(6)]
pub fn ident_le() {
    let buf: [u8; 16] = kani::any();
    ident_oracle::<LittleEndian>(&buf, true, false, parse_ident::<LittleEndian>(&buf));
}
#[kani::proof]
#[kani::unwind(6)]
pub fn ident_be() {
    let buf: [u8; 16] = kani::any();
    ident_oracle::<BigEndian>(&buf, false, true, parse_ident::<BigEndian>(&buf));
}
#[kani::proof]
#[kani::unwind(6)]
pub fn ident_any() {
    let buf: [u8; 16] = kani::any();
    kani::assume(!(buf[5] == 0 && buf[4] == 1)); // keep the "valid order rejected" cover out of this harness: see ident_any_cover
    ident_oracle_any(&buf);
}
fn ident_oracle_any(buf: &[u8; 16]) {
    // AnyEndian: same oracle, both orders allowed; the fixed-spec-only cover is not instantiated here
    let r = parse_ident::<AnyEndian>(buf);
    let magic_ok = buf[0] == 0x7f && buf[1] == b'E' && buf[2] == b'L' && buf[3] == b'F';
    let ver_ok = buf[6] == 1;
    let class_ok = buf[4] == 1 || buf[4] == 2;
    let data_ok = buf[5] == 1 || buf[5] == 2;
    match r {
        Ok((e, c, osabi, abiver)) => {
            assert!(magic_ok && ver_ok && class_ok && data_ok);
            assert!((e == AnyEndian::Little) == (buf[5] == 1));
            assert!((e == AnyEndian::Big) == (buf[5] == 2));
            assert!((c == Class::ELF32) == (buf[4] == 1));
            assert!(osabi == buf[7] && abiver == buf[8]);
            kani::cover!(buf[5] == 2 && buf[4] == 2, "accepted MSB ELF64");
        }
        Err(e) => {
            assert!(!(magic_ok && ver_ok && class_ok && data_ok));
            if magic_ok && ver_ok && class_ok && !data_ok {
                assert!(matches!(e, ParseError::UnsupportedElfEndianness(d) if d == buf[5]));
            }
            if !magic_ok && ver_ok && class_ok && data_ok {
                assert!(matches!(e, ParseError::BadMagic(m) if m[0] == buf[0] && m[1] == buf[1] && m[2] == buf[2] && m[3] == buf[3]));
            }
            if magic_ok && !ver_ok && class_ok && data_ok {
                assert!(matches!(e, ParseError::UnsupportedVersion((f, 1)) if f == buf[6] as u64));
            }
            if magic_ok && ver_ok && !class_ok && data_ok {
                assert!(matches!(e, ParseError::UnsupportedElfClass(c) if c == buf[4]));
            }
        }
    }
}
#[kani::proof]
#[kani::unwind(6)]
pub fn ident_native() {
    let buf: [u8; 16] = kani::any();
    let lsb = cfg!(target_endian = "little");
    ident_oracle::<NativeEndian>(&buf, lsb, !lsb, parse_ident::<NativeEndian>(&buf));
}

/// from_ei_data over the whole u8 domain for each spec.
#[kani::proof]
pub fn from_ei_data_all() {
    let d: u8 = kani::any();
    match LittleEndian::from_ei_data(d) {
        Ok(_) => assert!(d == 1),
        Err(ParseError::UnsupportedElfEndianness(x)) => assert!(d != 1 && x == d),
        Err(_) => assert!(false),
    }
    match BigEndian::from_ei_data(d) {
        Ok(_) => assert!(d == 2),
        Err(ParseError::UnsupportedElfEndianness(x)) => assert!(d != 2 && x == d),
        Err(_) => assert!(false),
    }
    match AnyEndian::from_ei_data(d) {
        Ok(e) => assert!((d == 1 && e == AnyEndian::Little) || (d == 2 && e == AnyEndian::Big)),
        Err(ParseError::UnsupportedElfEndianness(x)) => assert!(d != 1 && d != 2 && x == d),
        Err(_) => assert!(false),
    }
}

