//! C11 — GNU hash: hash function == djb2 reference; lookup sound on any table; complete on well-formed ones.
use crate::hashref::*;
use crate::util::*;
use elf::endian::{AnyEndian, EndianParse};
use elf::file::Class;
use elf::hash::{gnu_hash, GnuHashTable};
use elf::parse::ParsingTable;
use elf::string_table::StringTable;
use elf::symbol::{Symbol, SymbolTable};

/// gnu_hash == djb2 (h*33+c, seed 5381) for ALL names of length <= 8.
#[kani::proof]
#[kani::unwind(10)]
pub fn hash_fn_b8() {
    let (buf, len) = any_buf::<8>();
    let name = &buf[..len];
    assert!(gnu_hash(name) == ref_gnu_hash(name));
    kani::cover!(len == 0 && gnu_hash(name) == 5381, "empty name hashes to the seed");
}

/// Soundness on ARBITRARY table bytes.
pub fn gnu_sound<const T: usize, const S: usize, const R: usize, const Q: usize>(class: Class, le: bool) {
    let (tb, tl) = any_buf::<T>();
    let (sb, sl) = any_buf::<S>();
    let (rb, rl) = any_buf::<R>();
    let (qb, ql) = any_buf::<Q>();
    let e = if le { AnyEndian::Little } else { AnyEndian::Big };
    let symtab: SymbolTable<'_, AnyEndian> = ParsingTable::new(e, class, &sb[..sl]);
    let strtab = StringTable::new(&rb[..rl]);
    let name = &qb[..ql];
    let t = match GnuHashTable::new(e, class, &tb[..tl]) {
        Ok(t) => t,
        Err(_) => return,
    };
    match t.find(name, &symtab, &strtab) {
        Ok(Some((i, s))) => {
            assert!(symtab.get(i).ok() == Some(s.clone()));
            match strtab.get_raw(s.st_name as usize) {
                Ok(n) => {
                    assert!(n.len() == name.len());
                    let k: usize = kani::any();
                    if k < n.len() {
                        assert!(n[k] == name[k]);
                    }
                }
                Err(_) => {
                    assert!(false);
                }
            }
            kani::cover!(i >= 1, "found a symbol");
        }
        Ok(None) => {
            kani::cover!(t.hdr.nbloom == 0, "nbloom == 0 table");
            kani::cover!(t.hdr.nshift >= 32, "lookup on a table with shift >= 32 returned None");
        }
        Err(_) => {
            kani::cover!(t.hdr.nshift >= 32, "shift >= 32 reported as error");
        }
    }
}


/// Completeness on builder-produced tables.
/// Concrete per harness: class, nbucket NB, nbloom NL, number of hashed symbols NS, symoffset SO.
/// Symbolic: names (0..2 bytes, full alphabet, assumed sorted by bucket as the format requires),
/// bloom shift 0..31, byte order, which present symbol is queried, the absent name.
pub fn gnu_complete<const NB: usize, const NL: usize, const NS: usize, const SO: usize>(class: Class, absent_query: bool) {
    let le: bool = kani::any();
    let e = if le { AnyEndian::Little } else { AnyEndian::Big };
    let shift: u32 = kani::any();
    kani::assume(shift < 32);
    let w: u32 = if class == Class::ELF32 { 32 } else { 64 };
    let wbytes: usize = (w / 8) as usize;
    let mut names = [Slot { c0: 0, c1: 0 }; NS];
    let mut i = 0;
    while i < NS {
        names[i] = Slot::any();
        i += 1;
    }
    // the format requires hashed symbols to be sorted by bucket
    i = 1;
    while i < NS {
        kani::assume((names[i - 1].gnu() as usize) % NB <= (names[i].gnu() as usize) % NB);
        i += 1;
    }
    let mut strs_full = [0u8; 10];
    let strs = &mut strs_full[..1 + 3 * NS];
    i = 0;
    while i < NS {
        strs[1 + 3 * i] = names[i].c0;
        strs[2 + 3 * i] = names[i].c1;
        i += 1;
    }
    let es = if class == Class::ELF32 { 16 } else { 24 };
    let mut syms = [0u8; 96];
    assert!(es * (SO + NS) <= 96);
    i = 0;
    while i < NS {
        put_u32(&mut syms[..], es * (SO + i), (1 + 3 * i) as u32, le);
        i += 1;
    }
    // section: nbucket, symoffset, bloom_size, bloom_shift, bloom[NL] words, buckets[NB], chain[NS]
    let mut tab_full = [0u8; 16 + 16 + 12 + 12];
    let tl = 16 + wbytes * NL + 4 * NB + 4 * NS;
    let tab = &mut tab_full[..tl];
    put_u32(tab, 0, NB as u32, le);
    put_u32(tab, 4, SO as u32, le);
    put_u32(tab, 8, NL as u32, le);
    put_u32(tab, 12, shift, le);
    let mut l = 0;
    while l < NL {
        let mut word: u64 = 0;
        i = 0;
        while i < NS {
            let h = names[i].gnu();
            if ((h / w) as usize) % NL == l {
                word |= 1u64 << (h % w);
                word |= 1u64 << ((h >> shift) % w);
            }
            i += 1;
        }
        if class == Class::ELF32 {
            put_u32(tab, 16 + 4 * l, word as u32, le);
        } else {
            put_u64(tab, 16 + 8 * l, word, le);
        }
        l += 1;
    }
    let bo = 16 + wbytes * NL;
    let mut b = 0;
    while b < NB {
        let mut head = 0u32;
        let mut j = NS;
        while j >= 1 {
            if (names[j - 1].gnu() as usize) % NB == b {
                head = (SO + j - 1) as u32;
            }
            j -= 1;
        }
        put_u32(tab, bo + 4 * b, head, le);
        b += 1;
    }
    let co = bo + 4 * NB;
    i = 0;
    while i < NS {
        let h = names[i].gnu();
        let last = i + 1 == NS || (names[i + 1].gnu() as usize) % NB != (h as usize) % NB;
        let v = (h & !1) | (if last { 1 } else { 0 });
        put_u32(tab, co + 4 * i, v, le);
        i += 1;
    }
    let symtab: SymbolTable<'_, AnyEndian> = ParsingTable::new(e, class, &syms[..es * (SO + NS)]);
    let strtab = StringTable::new(strs);
    let t = GnuHashTable::new(e, class, tab);
    assert!(t.is_ok());
    let t = t.unwrap();
    if !absent_query {
    let k: usize = kani::any();
    kani::assume(k < NS);
    let q = [names[k].c0, names[k].c1];
    let qn = &q[..names[k].len()];
    let mut first = k;
    let mut j = k;
    while j > 0 {
        if names[j - 1].same(&names[k]) {
            first = j - 1;
        }
        j -= 1;
    }
    match t.find(qn, &symtab, &strtab) {
        Ok(Some((idx, s))) => {
            assert!(idx == SO + first);
            assert!(s.st_name as usize == 1 + 3 * first);
            kani::cover!(idx == SO + NS - 1 && NS > 1, "last symbol found through its chain");
        }
        _ => {
            assert!(false);
        }
    }
    return;
    }
    let a = Slot::any();
    let mut absent = true;
    i = 0;
    while i < NS {
        if names[i].same(&a) {
            absent = false;
        }
        i += 1;
    }
    if absent {
        let aq = [a.c0, a.c1];
        let r = t.find(&aq[..a.len()], &symtab, &strtab);
        assert!(matches!(r, Ok(None)));
        kani::cover!((a.gnu() as usize) % NB == (names[0].gnu() as usize) % NB && (a.gnu() % w) == (names[0].gnu() % w),
            "absent name in the same bucket and bloom bit as a present one");
    }
}


/// Lean completeness check for the quick tier: ELF32 little-endian, one bucket, one bloom word, TWO hashed symbols with
/// fixed-length two-byte names over the full non-NUL alphabet (so djb2 collisions such as "az"/"bY" and names whose two
/// bloom bits coincide are inside the space), bloom shift symbolic 0..31, symoffset 1. The present symbol k is found at
/// the first index bearing its name.
#[kani::proof]
#[kani::unwind(6)]
pub fn complete_lean_two_byte_names() {
    let shift: u32 = kani::any();
    kani::assume(shift < 32);
    let n0: [u8; 2] = kani::any();
    let n1: [u8; 2] = kani::any();
    kani::assume(n0[0] != 0 && n0[1] != 0 && n1[0] != 0 && n1[1] != 0);
    let h0 = ref_gnu_hash(&n0);
    let h1 = ref_gnu_hash(&n1);
    let strs: [u8; 7] = [0, n0[0], n0[1], 0, n1[0], n1[1], 0];
    let mut syms = [0u8; 48];
    put_u32(&mut syms, 16, 1, true);
    put_u32(&mut syms, 32, 4, true);
    // nbucket=1, symoffset=1, bloom_size=1, shift | bloom word | bucket[0]=1 | chain[0], chain[1]
    let mut tab = [0u8; 32];
    put_u32(&mut tab, 0, 1, true);
    put_u32(&mut tab, 4, 1, true);
    put_u32(&mut tab, 8, 1, true);
    put_u32(&mut tab, 12, shift, true);
    let word: u32 = (1u32 << (h0 % 32)) | (1u32 << ((h0 >> shift) % 32)) | (1u32 << (h1 % 32)) | (1u32 << ((h1 >> shift) % 32));
    put_u32(&mut tab, 16, word, true);
    put_u32(&mut tab, 20, 1, true);
    put_u32(&mut tab, 24, h0 & !1, true);
    put_u32(&mut tab, 28, h1 | 1, true);
    let e = AnyEndian::Little;
    let symtab: SymbolTable<'_, AnyEndian> = ParsingTable::new(e, Class::ELF32, &syms);
    let strtab = StringTable::new(&strs);
    let t = GnuHashTable::new(e, Class::ELF32, &tab).unwrap();
    let second: bool = kani::any();
    let q = if second { n1 } else { n0 };
    let same = n0[0] == n1[0] && n0[1] == n1[1];
    let expect = if second && !same { 2 } else { 1 };
    match t.find(&q, &symtab, &strtab) {
        Ok(Some((idx, _))) => {
            assert!(idx == expect);
            kani::cover!(second && !same && h0 == h1, "second of two names with colliding djb2 hashes found");
            kani::cover!(shift == 0 && second, "bloom shift 0");
        }
        _ => {
            assert!(false);
        }
    }
}

/// ELF64 big-endian twin with TWO 64-bit bloom words: the word index is (h / 64) % 2 and the bit positions are taken modulo 64,
/// so a lookup that selects the word or the bits with the 32-bit class's width misses present names.
#[kani::proof]
#[kani::unwind(6)]
pub fn complete_lean_elf64_two_bloom_words() {
    let shift: u32 = kani::any();
    kani::assume(shift < 32);
    let n0: [u8; 2] = kani::any();
    let n1: [u8; 2] = kani::any();
    kani::assume(n0[0] != 0 && n0[1] != 0 && n1[0] != 0 && n1[1] != 0);
    let h0 = ref_gnu_hash(&n0);
    let h1 = ref_gnu_hash(&n1);
    let strs: [u8; 7] = [0, n0[0], n0[1], 0, n1[0], n1[1], 0];
    let mut syms = [0u8; 72];
    put_u32(&mut syms, 24, 1, false);
    put_u32(&mut syms, 48, 4, false);
    // nbucket=1, symoffset=1, bloom_size=2, shift | 2 bloom words | bucket[0]=1 | chain[0], chain[1]
    let mut tab = [0u8; 48];
    put_u32(&mut tab, 0, 1, false);
    put_u32(&mut tab, 4, 1, false);
    put_u32(&mut tab, 8, 2, false);
    put_u32(&mut tab, 12, shift, false);
    let m0: u64 = (1u64 << (h0 % 64)) | (1u64 << ((h0 >> shift) % 64));
    let m1: u64 = (1u64 << (h1 % 64)) | (1u64 << ((h1 >> shift) % 64));
    let i0 = (h0 / 64) % 2;
    let i1 = (h1 / 64) % 2;
    let w0: u64 = (if i0 == 0 { m0 } else { 0 }) | (if i1 == 0 { m1 } else { 0 });
    let w1: u64 = (if i0 == 1 { m0 } else { 0 }) | (if i1 == 1 { m1 } else { 0 });
    put_u64(&mut tab, 16, w0, false);
    put_u64(&mut tab, 24, w1, false);
    put_u32(&mut tab, 32, 1, false);
    put_u32(&mut tab, 36, h0 & !1, false);
    put_u32(&mut tab, 40, h1 | 1, false);
    let e = AnyEndian::Big;
    let symtab: SymbolTable<'_, AnyEndian> = ParsingTable::new(e, Class::ELF64, &syms);
    let strtab = StringTable::new(&strs);
    let t = GnuHashTable::new(e, Class::ELF64, &tab[..44]).unwrap();
    let second: bool = kani::any();
    let q = if second { n1 } else { n0 };
    let same = n0[0] == n1[0] && n0[1] == n1[1];
    let expect = if second && !same { 2 } else { 1 };
    match t.find(&q, &symtab, &strtab) {
        Ok(Some((idx, _))) => {
            assert!(idx == expect);
            kani::cover!(i0 != i1 && second, "the two names select different bloom words");
            kani::cover!((h0 / 32) % 2 != (h0 / 64) % 2 && !second, "word index differs between the 32- and 64-bit formulas");
        }
        _ => {
            assert!(false);
        }
    }
}

/// Lean absent-name check: same table; a two-byte name different from both present names is not found, including names
/// that collide with a present one in hash, bucket and bloom bits.
#[kani::proof]
#[kani::unwind(6)]
pub fn absent_lean_two_byte_names() {
    let shift: u32 = kani::any();
    kani::assume(shift < 32);
    let n0: [u8; 2] = kani::any();
    let n1: [u8; 2] = kani::any();
    let q: [u8; 2] = kani::any();
    kani::assume(n0[0] != 0 && n0[1] != 0 && n1[0] != 0 && n1[1] != 0 && q[0] != 0 && q[1] != 0);
    kani::assume(!(q[0] == n0[0] && q[1] == n0[1]) && !(q[0] == n1[0] && q[1] == n1[1]));
    let h0 = ref_gnu_hash(&n0);
    let h1 = ref_gnu_hash(&n1);
    let strs: [u8; 7] = [0, n0[0], n0[1], 0, n1[0], n1[1], 0];
    let mut syms = [0u8; 48];
    put_u32(&mut syms, 16, 1, true);
    put_u32(&mut syms, 32, 4, true);
    let mut tab = [0u8; 32];
    put_u32(&mut tab, 0, 1, true);
    put_u32(&mut tab, 4, 1, true);
    put_u32(&mut tab, 8, 1, true);
    put_u32(&mut tab, 12, shift, true);
    let word: u32 = (1u32 << (h0 % 32)) | (1u32 << ((h0 >> shift) % 32)) | (1u32 << (h1 % 32)) | (1u32 << ((h1 >> shift) % 32));
    put_u32(&mut tab, 16, word, true);
    put_u32(&mut tab, 20, 1, true);
    put_u32(&mut tab, 24, h0 & !1, true);
    put_u32(&mut tab, 28, h1 | 1, true);
    let e = AnyEndian::Little;
    let symtab: SymbolTable<'_, AnyEndian> = ParsingTable::new(e, Class::ELF32, &syms);
    let strtab = StringTable::new(&strs);
    let t = GnuHashTable::new(e, Class::ELF32, &tab).unwrap();
    let r = t.find(&q, &symtab, &strtab);
    assert!(matches!(r, Ok(None)));
    kani::cover!(ref_gnu_hash(&q) == h0, "absent name whose djb2 hash collides with a present one");
}

/// Lean soundness harness for the quick tier: fixed-size arbitrary table (32 bytes: every header word arbitrary), three arbitrary
/// ELF32 symbols, arbitrary 4-byte string table + NUL, query of 1..2 bytes: a returned symbol is the entry at the returned index
/// and its name equals the query.
#[kani::proof]
#[kani::unwind(7)]
pub fn sound_lean_elf32() {
    let tb: [u8; 32] = kani::any();
    let sb: [u8; 48] = kani::any();
    let rb: [u8; 5] = [kani::any(), kani::any(), kani::any(), kani::any(), 0];
    let q: [u8; 2] = kani::any();
    let ql: usize = kani::any();
    kani::assume(ql >= 1 && ql <= 2);
    let e = AnyEndian::Little;
    let symtab: SymbolTable<'_, AnyEndian> = ParsingTable::new(e, Class::ELF32, &sb);
    let strtab = StringTable::new(&rb);
    let name = &q[..ql];
    if let Ok(t) = GnuHashTable::new(e, Class::ELF32, &tb) {
        if let Ok(Some((i, s))) = t.find(name, &symtab, &strtab) {
            assert!(symtab.get(i).ok() == Some(s.clone()));
            match strtab.get_raw(s.st_name as usize) {
                Ok(n) => {
                    assert!(n.len() == ql);
                    assert!(n[0] == q[0]);
                    if ql == 2 {
                        assert!(n[1] == q[1]);
                    }
                }
                Err(_) => {
                    assert!(false);
                }
            }
            kani::cover!(i == 2, "symbol 2 returned");
        }
    }
}
