//! C09 — lazy tables are coherent: len, get, iteration and emptiness agree.
//! Bound: table bytes symbolic with symbolic length 0..=K*entsize+entsize-1 (ragged tail included), K=2;
//! index any usize; class fixed per harness, byte order symbolic.
use crate::util::*;
use elf::dynamic::Dyn;
use elf::endian::AnyEndian;
use elf::file::Class;
use elf::gnu_symver::VersionIndex;
use elf::parse::{ParseAt, ParsingIterator, ParsingTable};
use elf::relocation::{Rel, Rela};
use elf::section::SectionHeader;
use elf::segment::ProgramHeader;
use elf::symbol::Symbol;

pub fn table_coherence<P: ParseAt + PartialEq, const N: usize>(class: Class, es: usize, k: usize) {
    let (buf, len) = any_buf::<N>();
    let data = &buf[..len];
    let e = any_endian();
    let t: ParsingTable<'_, AnyEndian, P> = ParsingTable::new(e, class, data);
    let n = t.len();
    assert!(P::size_for(class) == es);
    assert!(n == len / es);
    assert!(t.is_empty() == (n == 0));
    // get(i) succeeds exactly for i < len(), for ANY usize i
    let i: usize = kani::any();
    let gi = t.get(i);
    assert!(gi.is_ok() == (i < n));
    // get(i) is the ABI record at byte i*entsize
    if i < n {
        let mut off = i * es;
        let direct = P::parse_at(e, class, &mut off, data);
        assert!(direct.is_ok());
        assert!(direct.ok() == t.get(i).ok());
        assert!(off == (i + 1) * es);
    }
    // repeated / re-ordered access returns the same value
    let j: usize = kani::any();
    let _ = t.get(j);
    let gi2 = t.get(i);
    assert!(gi.ok() == gi2.ok());
    // iteration yields exactly len() items, item j equals get(j); iter() and into_iter() agree
    let mut it = t.iter();
    let t2: ParsingTable<'_, AnyEndian, P> = ParsingTable::new(e, class, data);
    let mut it2 = t2.into_iter();
    let mut count = 0usize;
    while count <= k {
        let a = it.next();
        let b = it2.next();
        assert!(a == b);
        match a {
            Some(item) => {
                assert!(count < n);
                assert!(t.get(count).ok() == Some(item));
                count += 1;
            }
            None => break,
        }
    }
    assert!(count == n);
    kani::cover!(n == k && len % es != 0, "full table with ragged tail");
    kani::cover!(n == 0 && len > 0, "only a partial entry");
    kani::cover!(i == n && n > 0, "boundary index len()");
}

pub fn iter_coherence<P: ParseAt + PartialEq, const N: usize>(class: Class, es: usize, k: usize) {
    let (buf, len) = any_buf::<N>();
    let data = &buf[..len];
    let e = any_endian();
    let mut it: ParsingIterator<'_, AnyEndian, P> = ParsingIterator::new(e, class, data);
    let whole = len / es;
    let mut count = 0usize;
    while count <= k {
        match it.next() {
            Some(item) => {
                assert!(count < whole);
                let mut off = count * es;
                let direct = P::parse_at(e, class, &mut off, data);
                assert!(direct.ok() == Some(item));
                count += 1;
            }
            None => break,
        }
    }
    assert!(count == whole);
    // and then stops
    assert!(it.next().is_none());
    kani::cover!(whole == k && len % es != 0, "k entries and a ragged tail");
}

macro_rules! table_harness {
    ($name:ident, $ty:ty, $class:expr, $es:expr) => {
        #[kani::proof]
        #[kani::unwind(5)]
        pub fn $name() {
            table_coherence::<$ty, { 3 * $es - 1 }>($class, $es, 2);
        }
    };
}
macro_rules! iter_harness {
    ($name:ident, $ty:ty, $class:expr, $es:expr) => {
        #[kani::proof]
        #[kani::unwind(5)]
        pub fn $name() {
            iter_coherence::<$ty, { 3 * $es - 1 }>($class, $es, 2);
        }
    };
}

table_harness!(u32_tab, u32, Class::ELF32, 4);
table_harness!(verndx, VersionIndex, Class::ELF64, 2);
table_harness!(dyn32, Dyn, Class::ELF32, 8);
iter_harness!(rel32, Rel, Class::ELF32, 8);
iter_harness!(rela32, Rela, Class::ELF32, 12);

/// One 64-byte ELF64 section header + ragged tail, lean variant for the quick tier (the full coherence harness for this entry
/// type is in the thorough tier): len() counts whole entries, get(i) succeeds exactly for i < len() (any usize i), iteration yields
/// exactly len() items.
#[kani::proof]
#[kani::unwind(4)]
pub fn shdr64_k1() {
    let (buf, len) = any_buf::<127>();
    let data = &buf[..len];
    let e = any_endian();
    let t: ParsingTable<'_, AnyEndian, SectionHeader> = ParsingTable::new(e, Class::ELF64, data);
    let n = t.len();
    assert!(n == len / 64);
    let i: usize = kani::any();
    assert!(t.get(i).is_ok() == (i < n));
    let mut it = t.iter();
    let mut count = 0usize;
    while count <= 1 {
        match it.next() {
            Some(_) => count += 1,
            None => break,
        }
    }
    assert!(count == n);
    kani::cover!(n == 1 && len % 64 != 0, "one entry and a ragged tail");
}

/// Positional use of the table iterator: after `s` calls of next(), `nth(m)` is the entry get(s+m) (None beyond the end), the
/// following next() is get(s+m+1), `skip(m)` starts at get(m), and count()/last()/size-independent draining agree with len().
/// (Iterator::nth, skip, count and last are provided methods today; an override must keep "the i-th item equals get(i)".)
/// Bound: u32 entries (ELF32), 0..=3 whole entries + ragged tail (length 0..=15), s <= 2, m <= 3.
#[kani::proof]
#[kani::unwind(7)]
pub fn iter_positional_u32() {
    let (buf, len) = any_buf::<15>();
    let data = &buf[..len];
    let e = any_endian();
    let t: ParsingTable<'_, AnyEndian, u32> = ParsingTable::new(e, Class::ELF32, data);
    let n = t.len();
    let s: usize = kani::any();
    let m: usize = kani::any();
    kani::assume(s <= 2 && m <= 3);
    let mut it = t.iter();
    let mut taken = 0usize;
    while taken < s {
        if it.next().is_none() {
            break;
        }
        taken += 1;
    }
    if taken == s {
        let got = it.nth(m);
        assert!(got == t.get(s + m).ok());
        if got.is_some() {
            assert!(it.next() == t.get(s + m + 1).ok());
        }
    }
    let mut sk = t.iter().skip(m);
    assert!(sk.next() == t.get(m).ok());
    assert!(t.iter().count() == n);
    assert!(t.iter().last() == if n == 0 { None } else { t.get(n - 1).ok() });
    kani::cover!(taken == s && s == 1 && m == 1 && n == 3, "nth(1) after one next() on a full table");
    kani::cover!(taken == s && s + m >= n && n > 0, "nth past the end");
}
