//! C05 thorough: extended numbering cases and ELF32.
use crate::c05::*;
use elf::file::Class;

#[kani::proof]
#[kani::unwind(9)]
pub fn h1_elf32_plain() {
    h1(Class::ELF32, Case::Plain);
}
#[kani::proof]
#[kani::unwind(9)]
pub fn h1_elf64_shnum_x() {
    h1(Class::ELF64, Case::ShnumX);
}
#[kani::proof]
#[kani::unwind(9)]
pub fn h1_elf32_shnum_x() {
    h1(Class::ELF32, Case::ShnumX);
}
#[kani::proof]
#[kani::unwind(9)]
pub fn h1_elf64_phnum_x() {
    h1(Class::ELF64, Case::PhnumX);
}
#[kani::proof]
#[kani::unwind(9)]
pub fn h1_elf32_phnum_x() {
    h1(Class::ELF32, Case::PhnumX);
}
