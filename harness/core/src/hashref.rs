//! Reference hash functions and reference hash-section builders, written from the format descriptions
//! (gABI "Hash Table" section; GNU hash as documented by the binutils/glibc implementations).
use crate::util::*;

/// GNU hash: djb2, h = h*33 + c, seed 5381.
pub fn ref_gnu_hash(name: &[u8]) -> u32 {
    let mut h: u32 = 5381;
    let mut i = 0;
    while i < name.len() {
        h = (h << 5).wrapping_add(h).wrapping_add(name[i] as u32);
        i += 1;
    }
    h
}

/// gABI elf_hash reference.
pub fn ref_sysv_hash(name: &[u8]) -> u32 {
    let mut h: u32 = 0;
    let mut i = 0;
    while i < name.len() {
        h = (h << 4).wrapping_add(name[i] as u32);
        let g = h & 0xf000_0000;
        if g != 0 {
            h ^= g >> 24;
        }
        h &= !g;
        i += 1;
    }
    h
}

pub fn put_u32(buf: &mut [u8], pos: usize, v: u32, le: bool) {
    let b = if le { v.to_le_bytes() } else { v.to_be_bytes() };
    buf[pos] = b[0];
    buf[pos + 1] = b[1];
    buf[pos + 2] = b[2];
    buf[pos + 3] = b[3];
}
pub fn put_u16(buf: &mut [u8], pos: usize, v: u16, le: bool) {
    let b = if le { v.to_le_bytes() } else { v.to_be_bytes() };
    buf[pos] = b[0];
    buf[pos + 1] = b[1];
}
pub fn put_u64(buf: &mut [u8], pos: usize, v: u64, le: bool) {
    let b = if le { v.to_le_bytes() } else { v.to_be_bytes() };
    buf[pos] = b[0];
    buf[pos + 1] = b[1];
    buf[pos + 2] = b[2];
    buf[pos + 3] = b[3];
    buf[pos + 4] = b[4];
    buf[pos + 5] = b[5];
    buf[pos + 6] = b[6];
    buf[pos + 7] = b[7];
}

/// A name slot of 3 bytes: up to two non-NUL characters followed by NUL(s).
#[derive(Clone, Copy)]
pub struct Slot {
    pub c0: u8,
    pub c1: u8,
}
impl Slot {
    pub fn any() -> Slot {
        let c0: u8 = kani::any();
        let c1: u8 = kani::any();
        kani::assume(c0 != 0 || c1 == 0);
        Slot { c0, c1 }
    }
    pub fn len(&self) -> usize {
        if self.c0 == 0 {
            0
        } else if self.c1 == 0 {
            1
        } else {
            2
        }
    }
    pub fn same(&self, o: &Slot) -> bool {
        self.c0 == o.c0 && self.c1 == o.c1
    }
    pub fn gnu(&self) -> u32 {
        let mut h: u32 = 5381;
        if self.c0 != 0 {
            h = h.wrapping_mul(33).wrapping_add(self.c0 as u32);
            if self.c1 != 0 {
                h = h.wrapping_mul(33).wrapping_add(self.c1 as u32);
            }
        }
        h
    }
    pub fn sysv(&self) -> u32 {
        // names of <= 2 bytes never reach the top nibble: h = c0*16 + c1
        let mut h: u32 = 0;
        if self.c0 != 0 {
            h = self.c0 as u32;
            if self.c1 != 0 {
                h = (h << 4).wrapping_add(self.c1 as u32);
            }
        }
        h
    }
}
