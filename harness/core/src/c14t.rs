//! C14 thorough: larger note areas, both byte orders, both classes.
use crate::c14::*;
use elf::file::Class;

#[kani::proof]
#[kani::unwind(7)]
pub fn walk_be_b40_elf32() {
    note_walk::<40>(Class::ELF32, 3, Some(false));
}
#[kani::proof]
#[kani::unwind(7)]
pub fn walk_le_b40_elf64() {
    note_walk::<40>(Class::ELF64, 3, Some(true));
}
#[kani::proof]
#[kani::unwind(6)]
pub fn walk_any_b32_elf32() {
    note_walk::<32>(Class::ELF32, 2, None);
}
