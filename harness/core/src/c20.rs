//! C20 — alternative access paths to the same data agree.
//! (a) typed views (R1: constant file, fully symbolic header argument): refused with UnexpectedSection/SegmentType((found, expected))
//!     iff the type differs, otherwise a view over exactly section_data's bytes whose first entries are the ABI records there.
//! (b) section_header_by_name: decided by engine B (lemma Lbyname, abstract strings) in the quick tier; the Kani harness with a
//!     symbolic query on a generated constant file is in c20t.rs (thorough: the iterator offset defeats constant folding).
use crate::c03::{any_phdr, any_shdr};
use crate::files::*;
use crate::util::*;
use elf::endian::{AnyEndian, EndianParse};
use elf::file::Class;
use elf::note::{Note, NoteIterator};
use elf::parse::{ParseAt, ParseError};
use elf::relocation::{Rel, Rela};
use elf::ElfBytes;

macro_rules! typed_view {
    ($name:ident, $file:expr, $class:expr, $method:ident, $sht:expr, $ty:ty) => {
        #[kani::proof]
        #[kani::unwind(6)]
        pub fn $name() {
            let file: &'static [u8] = &$file;
            let f = ElfBytes::<AnyEndian>::minimal_parse(file).unwrap();
            let e = f.ehdr.endianness;
            let sh = any_shdr();
            let raw = f.section_data(&sh);
            match f.$method(&sh) {
                Err(ParseError::UnexpectedSectionType((found, expected))) => {
                    assert!(sh.sh_type != $sht);
                    assert!(found == sh.sh_type && expected == $sht);
                }
                Err(_) => {
                    assert!(sh.sh_type == $sht && raw.is_err());
                }
                Ok(mut it) => {
                    assert!(sh.sh_type == $sht);
                    let (buf, _) = match raw {
                        Ok(r) => r,
                        Err(_) => {
                            assert!(false);
                            return;
                        }
                    };
                    // entries of the view == the records decodable from the raw bytes, in order
                    let mut off = 0usize;
                    let d0 = <$ty as ParseAt>::parse_at(e, $class, &mut off, buf).ok();
                    let i0 = it.next();
                    assert!(i0 == d0);
                    if d0.is_some() {
                        let d1 = <$ty as ParseAt>::parse_at(e, $class, &mut off, buf).ok();
                        let i1 = it.next();
                        assert!(i1 == d1);
                        kani::cover!(d1.is_some(), "two entries compared");
                    }
                }
            }
        }
    };
}
typed_view!(rels_64le, FILE64LE, Class::ELF64, section_data_as_rels, 9, Rel);
typed_view!(relas_32be, FILE32BE, Class::ELF32, section_data_as_relas, 4, Rela);

#[kani::proof]
#[kani::unwind(6)]
pub fn strtab_view_refusal_64le() {
    let file: &'static [u8] = &FILE64LE;
    let f = ElfBytes::<AnyEndian>::minimal_parse(file).unwrap();
    let sh = any_shdr();
    let raw = f.section_data(&sh);
    match f.section_data_as_strtab(&sh) {
        Err(ParseError::UnexpectedSectionType((found, expected))) => {
            assert!(sh.sh_type != 3 && found == sh.sh_type && expected == 3);
        }
        Err(_) => {
            assert!(sh.sh_type == 3 && raw.is_err());
        }
        Ok(_) => {
            assert!(sh.sh_type == 3 && raw.is_ok());
        }
    }
}

/// notes through a section and through a segment: refusal by type; the iterator is NoteIterator::new over the raw bytes
/// with the header's alignment (first item compared).
#[kani::proof]
#[kani::unwind(6)]
pub fn note_view_section_32be() {
    let file: &'static [u8] = &FILE32BE;
    let f = ElfBytes::<AnyEndian>::minimal_parse(file).unwrap();
    let e = f.ehdr.endianness;
    let sh = any_shdr();
    let raw = f.section_data(&sh);
    match f.section_data_as_notes(&sh) {
        Err(ParseError::UnexpectedSectionType((found, expected))) => {
            assert!(sh.sh_type != 7 && found == sh.sh_type && expected == 7);
        }
        Err(_) => {
            assert!(sh.sh_type == 7 && raw.is_err());
        }
        Ok(mut it) => {
            assert!(sh.sh_type == 7);
            let (buf, _) = raw.unwrap();
            let mut reference = NoteIterator::new(e, Class::ELF32, sh.sh_addralign as usize, buf);
            assert!(it.next() == reference.next());
        }
    }
}
#[kani::proof]
#[kani::unwind(6)]
pub fn note_view_segment_64le() {
    let file: &'static [u8] = &FILE64LE;
    let f = ElfBytes::<AnyEndian>::minimal_parse(file).unwrap();
    let e = f.ehdr.endianness;
    let ph = any_phdr();
    let rawp = f.segment_data(&ph);
    match f.segment_data_as_notes(&ph) {
        Err(ParseError::UnexpectedSegmentType((found, expected))) => {
            assert!(ph.p_type != 4 && found == ph.p_type && expected == 4);
        }
        Err(_) => {
            assert!(ph.p_type == 4 && rawp.is_err());
        }
        Ok(mut it) => {
            assert!(ph.p_type == 4);
            let buf = rawp.unwrap();
            let mut reference = NoteIterator::new(e, Class::ELF64, ph.p_align as usize, buf);
            assert!(it.next() == reference.next());
            kani::cover!(ph.p_align == 8 && buf.len() >= 16, "segment notes with alignment 8");
        }
    }
}

