//! C03 — returned data is the exact header-designated byte range of the input.
//! Regime R1: the file is a constant 128-byte array (valid header, no tables, patterned body) and the
//! SectionHeader / ProgramHeader argument is FULLY symbolic (all u32/u64 field values), so every
//! overlapping / zero-length / EOF-touching / out-of-file / overflowing range is covered.
use crate::files::*;
use crate::util::*;
use elf::compression::CompressionHeader;
use elf::endian::{AnyEndian, EndianParse};
use elf::file::Class;
use elf::parse::{ParseAt, ParseError};
use elf::section::SectionHeader;
use elf::segment::ProgramHeader;
use elf::ElfBytes;

pub fn any_shdr() -> SectionHeader {
    SectionHeader {
        sh_name: kani::any(),
        sh_type: kani::any(),
        sh_flags: kani::any(),
        sh_addr: kani::any(),
        sh_offset: kani::any(),
        sh_size: kani::any(),
        sh_link: kani::any(),
        sh_info: kani::any(),
        sh_addralign: kani::any(),
        sh_entsize: kani::any(),
    }
}
pub fn any_phdr() -> ProgramHeader {
    ProgramHeader {
        p_type: kani::any(),
        p_offset: kani::any(),
        p_vaddr: kani::any(),
        p_paddr: kani::any(),
        p_filesz: kani::any(),
        p_memsz: kani::any(),
        p_flags: kani::any(),
        p_align: kani::any(),
    }
}

pub fn section_data_iff(file: &'static [u8], class: Class, e: AnyEndian) {
    let f = ElfBytes::<AnyEndian>::minimal_parse(file).unwrap();
    let base = file.as_ptr() as usize;
    let len = file.len() as u64;
    let sh = any_shdr();
    let r = f.section_data(&sh);
    if sh.sh_type == 8 {
        // SHT_NOBITS: empty, no header
        match r {
            Ok((s, None)) => assert!(s.is_empty()),
            _ => assert!(false),
        }
        return;
    }
    let fits = sh.sh_offset <= len && sh.sh_size <= len - sh.sh_offset;
    let chsize: u64 = if class == Class::ELF32 { 12 } else { 24 };
    if sh.sh_flags & 0x800 == 0 {
        match r {
            Ok((s, None)) => {
                assert!(fits);
                assert!(s.as_ptr() as usize == base + sh.sh_offset as usize);
                assert!(s.len() as u64 == sh.sh_size);
                kani::cover!(sh.sh_size > 0 && sh.sh_offset.wrapping_add(sh.sh_size) == len, "range ending exactly at EOF");
                kani::cover!(sh.sh_size == 0 && sh.sh_offset == len, "empty range at EOF");
            }
            Ok((_, Some(_))) => assert!(false),
            Err(_) => {
                assert!(!fits);
                kani::cover!(sh.sh_offset < len && sh.sh_offset.wrapping_add(sh.sh_size) == len + 1, "range one past EOF");
                kani::cover!(sh.sh_offset == u64::MAX, "offset 2^64-1");
            }
        }
    } else {
        match r {
            Ok((s, Some(ch))) => {
                assert!(fits && sh.sh_size >= chsize);
                assert!(s.as_ptr() as usize == base + (sh.sh_offset + chsize) as usize);
                assert!(s.len() as u64 == sh.sh_size - chsize);
                let mut off = sh.sh_offset as usize;
                let direct = CompressionHeader::parse_at(e, class, &mut off, file);
                assert!(direct.ok() == Some(ch));
                kani::cover!(sh.sh_size == chsize, "compressed section holding only its header");
            }
            Ok((_, None)) => assert!(false),
            Err(_) => {
                assert!(!(fits && sh.sh_size >= chsize));
            }
        }
    }
}

#[kani::proof]
#[kani::unwind(6)]
pub fn section_data_64le() {
    section_data_iff(&FILE64LE, Class::ELF64, AnyEndian::Little);
}
#[kani::proof]
#[kani::unwind(6)]
pub fn section_data_32be() {
    section_data_iff(&FILE32BE, Class::ELF32, AnyEndian::Big);
}

pub fn segment_data_iff(file: &'static [u8]) {
    let f = ElfBytes::<AnyEndian>::minimal_parse(file).unwrap();
    let base = file.as_ptr() as usize;
    let len = file.len() as u64;
    let ph = any_phdr();
    let fits = ph.p_offset <= len && ph.p_filesz <= len - ph.p_offset;
    match f.segment_data(&ph) {
        Ok(s) => {
            assert!(fits);
            assert!(s.as_ptr() as usize == base + ph.p_offset as usize);
            assert!(s.len() as u64 == ph.p_filesz);
            kani::cover!(ph.p_memsz > len && ph.p_filesz == 16, "memsz larger than the file, filesz small");
            kani::cover!(ph.p_memsz == 0 && ph.p_filesz == len, "memsz zero, whole file");
        }
        Err(_) => {
            assert!(!fits);
            kani::cover!(ph.p_memsz == 0, "error although memsz is zero");
        }
    }
}
#[kani::proof]
#[kani::unwind(6)]
pub fn segment_data_64le() {
    segment_data_iff(&FILE64LE);
}
#[kani::proof]
#[kani::unwind(6)]
pub fn segment_data_32be() {
    segment_data_iff(&FILE32BE);
}

/// Note name / descriptor are exactly the designated bytes for ANY alignment (first record; sequences are C14).
#[kani::proof]
#[kani::unwind(6)]
pub fn first_note_ranges_any_align() {
    let (buf, len) = any_buf::<32>();
    let data = &buf[..len];
    let align: usize = kani::any();
    let le: bool = kani::any();
    let e = if le { AnyEndian::Little } else { AnyEndian::Big };
    let base = data.as_ptr() as usize;
    let mut it = elf::note::NoteIterator::new(e, Class::ELF32, align, data);
    let exp = crate::c14::ref_note(data, 0, align, le);
    match (it.next(), exp) {
        (Some(elf::note::Note::Unknown(a)), Some(x)) => {
            assert!(a.name.as_ptr() as usize == base + x.ns && a.name.len() == x.ne - x.ns);
            assert!(a.desc.as_ptr() as usize == base + x.ds && a.desc.len() == x.de - x.ds);
            kani::cover!(align == 12 && x.ds == 24, "alignment 12: descriptor at 24");
        }
        (Some(elf::note::Note::GnuBuildId(b)), Some(x)) => {
            assert!(b.0.as_ptr() as usize == base + x.ds && b.0.len() == x.de - x.ds);
        }
        (Some(_), None) => {
            assert!(false);
        }
        _ => {}
    }
}
