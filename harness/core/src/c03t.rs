//! C03 thorough: typed views hand out the same designated range (observed through base pointers).
use crate::c03::*;
use crate::files::*;
use crate::util::*;
use elf::endian::{AnyEndian, EndianParse};
use elf::file::Class;
use elf::note::Note;
use elf::ElfBytes;

/// strtab view: get_raw(k) points at base + sh_offset + k.
#[kani::proof]
#[kani::unwind(130)]
pub fn strtab_view_64le() {
    let file: &'static [u8] = &FILE64LE;
    let f = ElfBytes::<AnyEndian>::minimal_parse(file).unwrap();
    let base = file.as_ptr() as usize;
    let len = file.len() as u64;
    let mut sh = any_shdr();
    sh.sh_type = 3;
    kani::assume(sh.sh_flags & 0x800 == 0);
    let fits = sh.sh_offset <= len && sh.sh_size <= len - sh.sh_offset;
    match f.section_data_as_strtab(&sh) {
        Ok(t) => {
            assert!(fits);
            let k: usize = kani::any();
            if let Ok(s) = t.get_raw(k) {
                assert!((k as u64) < sh.sh_size);
                assert!(s.as_ptr() as usize == base + sh.sh_offset as usize + k);
                assert!(k as u64 + (s.len() as u64) < sh.sh_size);
            }
        }
        Err(_) => assert!(!fits),
    }
}

/// note views (section and segment): the first note's name pointer is base + offset + 12.
#[kani::proof]
#[kani::unwind(6)]
pub fn note_views_32be() {
    let file: &'static [u8] = &FILE32BE;
    let f = ElfBytes::<AnyEndian>::minimal_parse(file).unwrap();
    let base = file.as_ptr() as usize;
    let len = file.len() as u64;
    let mut sh = any_shdr();
    sh.sh_type = 7;
    kani::assume(sh.sh_flags & 0x800 == 0);
    let fits = sh.sh_offset <= len && sh.sh_size <= len - sh.sh_offset;
    match f.section_data_as_notes(&sh) {
        Ok(mut it) => {
            assert!(fits);
            if let Some(Note::Unknown(a)) = it.next() {
                assert!(a.name.as_ptr() as usize == base + sh.sh_offset as usize + 12);
                assert!(12 + a.name.len() as u64 <= sh.sh_size);
            }
        }
        Err(_) => assert!(!fits),
    }
    let mut ph = any_phdr();
    ph.p_type = 4;
    let pfits = ph.p_offset <= len && ph.p_filesz <= len - ph.p_offset;
    match f.segment_data_as_notes(&ph) {
        Ok(mut it) => {
            assert!(pfits);
            if let Some(Note::Unknown(a)) = it.next() {
                assert!(a.name.as_ptr() as usize == base + ph.p_offset as usize + 12);
                assert!(12 + a.name.len() as u64 <= ph.p_filesz);
            }
        }
        Err(_) => assert!(!pfits),
    }
}
