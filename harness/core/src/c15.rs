//! C15 — StringTable::get_raw / get: exactly the NUL-terminated string at the offset.
//! Bound: table capacity B bytes (symbolic length 0..=B, all contents symbolic); offset any usize.
use crate::util::*;
use elf::parse::ParseError;
use elf::string_table::StringTable;

macro_rules! strtab_harness {
    ($name:ident, $b:expr, $unwind:expr) => {
        #[kani::proof]
        #[kani::unwind($unwind)]
        pub fn $name() {
            let (buf, len) = any_buf::<$b>();
            let data = &buf[..len];
            let t = StringTable::new(data);
            let off: usize = kani::any();
            match t.get_raw(off) {
                Ok(s) => {
                    let n = s.len();
                    assert!(off < len);
                    assert!(n < len - off);
                    // the run is NUL-free (symbolic witness k), is exactly the table bytes, and a NUL follows it
                    let k: usize = kani::any();
                    if k < n {
                        assert!(s[k] != 0);
                        assert!(s[k] == data[off + k]);
                    }
                    assert!(data[off + n] == 0);
                    // borrows from the caller's buffer at exactly that position
                    assert!(s.as_ptr() as usize == data.as_ptr() as usize + off);
                    kani::cover!(n == 0, "empty string");
                    kani::cover!(n >= 2 && off + n + 1 == len, "last string of the table");
                }
                Err(e) => {
                    // either the offset is not inside the table, or no NUL in [off, len)
                    if off < len {
                        let k: usize = kani::any();
                        kani::assume(off <= k && k < len);
                        assert!(data[k] != 0);
                    }
                    match e {
                        ParseError::BadOffset(o) => {
                            assert!(o == off as u64 && (off >= len));
                        }
                        ParseError::StringTableMissingNul(o) => {
                            assert!(o == off as u64 && off <= len);
                        }
                        _ => {
                            assert!(false);
                        }
                    }
                    if off > len {
                        assert!(matches!(e, ParseError::BadOffset(_)));
                    }
                    if off < len {
                        assert!(matches!(e, ParseError::StringTableMissingNul(_)));
                    }
                    kani::cover!(off < len, "missing NUL");
                    kani::cover!(off > len, "bad offset");
                }
            }
        }
    };
}
strtab_harness!(get_raw_b8, 8, 10);

/// get(off) == from_utf8(get_raw(off)): same Ok-ness as (get_raw ok && valid utf8), same bytes.
macro_rules! strtab_get_harness {
    ($name:ident, $b:expr, $unwind:expr) => {
        #[kani::proof]
        #[kani::unwind($unwind)]
        pub fn $name() {
            let (buf, len) = any_buf::<$b>();
            let data = &buf[..len];
            let t = StringTable::new(data);
            let off: usize = kani::any();
            let raw = t.get_raw(off);
            let s = t.get(off);
            match (raw, s) {
                (Ok(r), Ok(s)) => {
                    assert!(core::str::from_utf8(r).is_ok());
                    assert!(s.as_ptr() == r.as_ptr() && s.len() == r.len());
                    kani::cover!(r.len() >= 2 && r[0] >= 0x80, "multi-byte utf8 string");
                }
                (Ok(r), Err(e)) => {
                    assert!(core::str::from_utf8(r).is_err());
                    assert!(matches!(e, ParseError::Utf8Error(_)));
                    kani::cover!(true, "invalid utf8");
                }
                (Err(_), Ok(_)) => {
                    assert!(false);
                }
                (Err(_), Err(_)) => {}
            }
        }
    };
}
strtab_get_harness!(get_b4, 4, 6);
