//! C04 — endian-aware integer reads: exact value, exact advance, error leaves offset untouched.
//! Bound: buffer capacity 12 bytes with symbolic length 0..=12; offset is any usize.
use crate::util::*;
use elf::endian::{AnyEndian, BigEndian, EndianParse, LittleEndian, NativeEndian};
use elf::parse::ParseError;

const B: usize = 12;

macro_rules! read_harness {
    ($name:ident, $spec:expr, $little:expr, $method:ident, $ty:ty, $w:expr) => {
        #[kani::proof]
        #[kani::unwind(10)]
        pub fn $name() {
            let (buf, len) = any_buf::<B>();
            let data = &buf[..len];
            let off0: usize = kani::any();
            let mut off = off0;
            let spec = $spec;
            let r = spec.$method(&mut off, data);
            // specification: fits iff off0 + w does not overflow and <= len
            let fits = off0 <= len && len - off0 >= $w;
            match r {
                Ok(v) => {
                    assert!(fits);
                    assert!(Some(off) == off0.checked_add($w));
                    let expect = ref_uint(data, off0, $w, $little) as $ty;
                    assert!(v == expect);
                    kani::cover!(off0 > 0 && off0.wrapping_add($w) == len, "ok read touching end of buffer");
                }
                Err(e) => {
                    assert!(!fits);
                    assert!(off == off0);
                    // error kinds: overflow or slice read error with the attempted range
                    match e {
                        ParseError::IntegerOverflow => { assert!(off0.checked_add($w).is_none()); }
                        ParseError::SliceReadError((s, t)) => {
                            assert!(s == off0 && Some(t) == off0.checked_add($w));
                        }
                        _ => { assert!(false); }
                    }
                    kani::cover!(off0 > usize::MAX - 8, "err by overflow");
                    kani::cover!($w == 1 || off0 < len, "err with offset inside buffer");
                }
            }
        }
    };
}

macro_rules! all_widths {
    ($m:ident, $spec:expr, $little:expr) => {
        pub mod $m {
            use super::*;
            read_harness!(u8_at, $spec, $little, parse_u8_at, u8, 1);
            read_harness!(u16_at, $spec, $little, parse_u16_at, u16, 2);
            read_harness!(u32_at, $spec, $little, parse_u32_at, u32, 4);
            read_harness!(u64_at, $spec, $little, parse_u64_at, u64, 8);
            read_harness!(i32_at, $spec, $little, parse_i32_at, i32, 4);
            read_harness!(i64_at, $spec, $little, parse_i64_at, i64, 8);
        }
    };
}

all_widths!(le, LittleEndian, true);
all_widths!(be, BigEndian, false);
all_widths!(any_l, AnyEndian::Little, true);
all_widths!(any_b, AnyEndian::Big, false);

/// The run-time spec behaves identically to the matching compile-time one (value, error-ness, offset),
/// for a symbolic choice of order; NativeEndian matches the build target.
macro_rules! agree_harness {
    ($name:ident, $method:ident) => {
        #[kani::proof]
        #[kani::unwind(10)]
        pub fn $name() {
            let (buf, len) = any_buf::<B>();
            let data = &buf[..len];
            let off0: usize = kani::any();
            let little: bool = kani::any();
            let (mut o1, mut o2) = (off0, off0);
            let r1 = if little {
                AnyEndian::Little.$method(&mut o1, data)
            } else {
                AnyEndian::Big.$method(&mut o1, data)
            };
            let r2 = if little {
                LittleEndian.$method(&mut o2, data)
            } else {
                BigEndian.$method(&mut o2, data)
            };
            assert!(o1 == o2);
            match (r1, r2) {
                (Ok(a), Ok(b)) => {
                    assert!(a == b);
                    kani::cover!(true, "both ok");
                }
                (Err(_), Err(_)) => {
                    kani::cover!(true, "both err");
                }
                _ => { assert!(false); }
            }
            // native spec
            let (mut o3, mut o4) = (off0, off0);
            let r3 = NativeEndian.$method(&mut o3, data);
            let r4 = if cfg!(target_endian = "little") {
                LittleEndian.$method(&mut o4, data)
            } else {
                BigEndian.$method(&mut o4, data)
            };
            assert!(o3 == o4);
            assert!(NativeEndian.is_little() == cfg!(target_endian = "little"));
            match (r3, r4) {
                (Ok(a), Ok(b)) => { assert!(a == b); }
                (Err(_), Err(_)) => {}
                _ => { assert!(false); }
            }
        }
    };
}

pub mod agree {
    use super::*;
    agree_harness!(u8_at, parse_u8_at);
    agree_harness!(u16_at, parse_u16_at);
    agree_harness!(u32_at, parse_u32_at);
    agree_harness!(u64_at, parse_u64_at);
    agree_harness!(i32_at, parse_i32_at);
    agree_harness!(i64_at, parse_i64_at);
}

/// is_little / is_big / from_ei_data for the whole u8 domain (shared with C10).
#[kani::proof]
pub fn spec_flags() {
    assert!(LittleEndian.is_little() && !LittleEndian.is_big());
    assert!(!BigEndian.is_little() && BigEndian.is_big());
    assert!(AnyEndian::Little.is_little() && !AnyEndian::Little.is_big());
    assert!(!AnyEndian::Big.is_little() && AnyEndian::Big.is_big());
}
