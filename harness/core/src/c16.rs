//! C16 — every lookup / iteration terminates within work bounded by the input size.
//! Termination is decided by Kani's unwinding assertions (never disabled): for every input within the
//! bound each loop exits within the stated number of iterations. Explicit counters assert the property's
//! "at most one item per input byte" and "never more records than the declared count".
use crate::hashref::*;
use crate::util::*;
use elf::endian::{AnyEndian, EndianParse};
use elf::file::Class;
use elf::gnu_symver::{VerDefAuxIterator, VerDefIterator, VerNeedAuxIterator, VerNeedIterator};
use elf::hash::{GnuHashTable, SysVHashTable};
use elf::parse::ParsingTable;
use elf::string_table::StringTable;
use elf::symbol::SymbolTable;

macro_rules! ver_iter_bound {
    ($name:ident, $iter:ident, $cnt:ty, $b:expr, $min:expr, $unwind:expr) => {
        #[kani::proof]
        #[kani::unwind($unwind)]
        pub fn $name() {
            let (buf, len) = any_buf::<$b>();
            let data = &buf[..len];
            let e = any_endian();
            let count: $cnt = kani::any();
            let start: usize = kani::any();
            let it = $iter::new(e, Class::ELF64, count, start, data);
            let mut yielded: u64 = 0;
            for _item in it {
                yielded += 1;
                assert!(yielded <= count as u64);
                // a record needs $min bytes and every step advances by >= 1 byte: at most one item per byte
                assert!(yielded as usize + $min - 1 <= len);
            }
            kani::cover!(yielded >= 2, "two or more overlapping records walked");
            kani::cover!(yielded == 1 && count as u64 > 1000, "absurd count, one record");
        }
    };
}
// quick: 24-byte areas
ver_iter_bound!(verneed_b22, VerNeedIterator, u64, 22, 16, 10);
ver_iter_bound!(vernaux_b22, VerNeedAuxIterator, u16, 22, 16, 10);
ver_iter_bound!(verdef_b24, VerDefIterator, u64, 24, 20, 8);
ver_iter_bound!(verdaux_b16, VerDefAuxIterator, u16, 16, 8, 12);

/// SysV chain walk on ARBITRARY chains (cycles of every length, self loops): terminates within nchain steps.
/// Fixed-size table: header (nbucket, nchain arbitrary) + up to 5 words of buckets/chains; 3 arbitrary symbols.
#[kani::proof]
#[kani::unwind(8)]
pub fn sysv_cyclic_chains() {
    let tb: [u8; 28] = kani::any();
    // three symbols (indexes 0..2) so that chains can cycle through two different symbols (1 -> 2 -> 1), not only self-loop
    let sb: [u8; 48] = kani::any();
    let symtab: SymbolTable<'_, AnyEndian> = ParsingTable::new(AnyEndian::Little, Class::ELF32, &sb);
    let rb: [u8; 2] = [kani::any(), 0];
    let strtab = StringTable::new(&rb);
    let q: [u8; 1] = [kani::any()];
    if let Ok(t) = SysVHashTable::new(AnyEndian::Little, Class::ELF32, &tb) {
        let r = t.find(&q, &symtab, &strtab);
        kani::cover!(matches!(r, Ok(None)), "walk ended with None");
    }
}

/// GNU chain walk with no stop bit anywhere: terminates at the end of the chain area (fixed-size 36-byte table).
#[kani::proof]
#[kani::unwind(8)]
pub fn gnu_no_stop_bit() {
    let tb: [u8; 36] = kani::any();
    let sb: [u8; 32] = kani::any();
    let symtab: SymbolTable<'_, AnyEndian> = ParsingTable::new(AnyEndian::Little, Class::ELF32, &sb);
    let rb: [u8; 2] = [kani::any(), 0];
    let strtab = StringTable::new(&rb);
    let q: [u8; 1] = [kani::any()];
    if let Ok(t) = GnuHashTable::new(AnyEndian::Little, Class::ELF32, &tb) {
        let r = t.find(&q, &symtab, &strtab);
        kani::cover!(matches!(r, Ok(None)) && t.hdr.nbloom == 1 && t.hdr.nbucket == 1, "walk ended with None");
    }
}

/// One step from an ARBITRARY iterator state: a single next() of a version-record iterator does work bounded by the input size
/// (today it parses one record and follows one link: no loop at all), whatever count, start offset and bytes it is given. The
/// unwinding assertion of this harness is the obligation; its bound is the byte length + 2, so a loop inside one step that advances
/// by at least one byte per iteration passes, while a loop governed by the declared count or by a non-advancing link does not.
/// Together with "at most one item per byte" above (the number of steps) this bounds the total work of an iteration.
/// Declared counts are 0..=2 or >= 2^40 here (mid-range counts: the whole-iteration harnesses above): a counterexample then spins
/// for at least 2^40 iterations natively, which is what the native replay can observe (it has no iteration counter, only a clock).
macro_rules! ver_one_step {
    ($name:ident, $iter:ident, $cnt:ty, $b:expr, $huge:expr) => {
        #[kani::proof]
        #[kani::unwind(26)]
        pub fn $name() {
            let (buf, len) = any_buf::<$b>();
            let data = &buf[..len];
            let e = any_endian();
            let count: $cnt = kani::any();
            kani::assume(!$huge || count as u64 <= 2 || count as u64 >= (1u64 << 40));
            let start: usize = kani::any();
            let mut it = $iter::new(e, Class::ELF64, count, start, data);
            let first = it.next();
            kani::cover!(first.is_some(), "the step yields a record");
            kani::cover!(first.is_none(), "the step ends the iteration");
        }
    };
}
ver_one_step!(verneed_one_step, VerNeedIterator, u64, 24, true);
ver_one_step!(vernaux_one_step, VerNeedAuxIterator, u16, 24, false);
ver_one_step!(verdef_one_step, VerDefIterator, u64, 24, true);
ver_one_step!(verdaux_one_step, VerDefAuxIterator, u16, 24, false);
