//! Shared helpers for harnesses.
use elf::endian::{AnyEndian, BigEndian, EndianParse, LittleEndian};
use elf::file::Class;

/// A symbolic byte buffer of capacity N with a symbolic length 0..=N.
pub fn any_buf<const N: usize>() -> ([u8; N], usize) {
    let buf: [u8; N] = kani::any();
    let len: usize = kani::any();
    kani::assume(len <= N);
    (buf, len)
}

pub fn any_class() -> Class {
    if kani::any() {
        Class::ELF32
    } else {
        Class::ELF64
    }
}

pub fn any_endian() -> AnyEndian {
    if kani::any() {
        AnyEndian::Little
    } else {
        AnyEndian::Big
    }
}

/// Reference little/big-endian integer extraction from explicit byte positions
/// (written from the definition: value = sum b[i] * 256^i for LE, reversed for BE).
pub fn ref_uint(bytes: &[u8], pos: usize, width: usize, little: bool) -> u64 {
    let mut v: u64 = 0;
    let mut i = 0;
    while i < width {
        let b = if little { bytes[pos + width - 1 - i] } else { bytes[pos + i] };
        v = (v << 8) | (b as u64);
        i += 1;
    }
    v
}
