//! C12 — SysV hash: hash function == gABI reference; lookup sound on any table; complete on well-formed ones.
use crate::hashref::*;
use crate::util::*;
use elf::endian::{AnyEndian, EndianParse};
use elf::file::Class;
use elf::hash::{sysv_hash, SysVHashTable};
use elf::parse::ParsingTable;
use elf::string_table::StringTable;
use elf::symbol::{Symbol, SymbolTable};

/// sysv_hash == gABI elf_hash for ALL names of length <= 8.
#[kani::proof]
#[kani::unwind(10)]
pub fn hash_fn_b8() {
    let (buf, len) = any_buf::<8>();
    let name = &buf[..len];
    assert!(sysv_hash(name) == ref_sysv_hash(name));
    kani::cover!(len == 8 && ref_sysv_hash(name) > 0x0fff_ffff - 16, "high-nibble fold exercised");
}

/// Soundness on ARBITRARY table bytes: a returned symbol is the symbol-table entry at the returned index
/// and its name equals the query.
pub fn sysv_sound<const T: usize, const S: usize, const R: usize, const Q: usize>(class: Class, le: bool) {
    let (tb, tl) = any_buf::<T>();
    let (sb, sl) = any_buf::<S>();
    let (rb, rl) = any_buf::<R>();
    let (qb, ql) = any_buf::<Q>();
    let e = if le { AnyEndian::Little } else { AnyEndian::Big };
    let symtab: SymbolTable<'_, AnyEndian> = ParsingTable::new(e, class, &sb[..sl]);
    let strtab = StringTable::new(&rb[..rl]);
    let name = &qb[..ql];
    let t = match SysVHashTable::new(e, class, &tb[..tl]) {
        Ok(t) => t,
        Err(_) => return,
    };
    match t.find(name, &symtab, &strtab) {
        Ok(Some((i, s))) => {
            assert!(symtab.get(i).ok() == Some(s.clone()));
            match strtab.get_raw(s.st_name as usize) {
                Ok(n) => {
                    assert!(n.len() == name.len());
                    let k: usize = kani::any();
                    if k < n.len() {
                        assert!(n[k] == name[k]);
                    }
                }
                Err(_) => {
                    assert!(false);
                }
            }
            kani::cover!(i == 2, "found symbol 2 through a chain");
        }
        Ok(None) => {
            kani::cover!(tl >= 16, "none on a table with buckets");
        }
        Err(_) => {
            kani::cover!(true, "lookup error on corrupt table");
        }
    }
}


/// Completeness on builder-produced tables (n symbols incl. the null symbol at index 0).
/// Concrete: class, nbucket, n. Symbolic: all names (0..2 bytes over the full byte alphabet), the symbols'
/// other fields, the present-symbol choice, the absent name, byte order.
pub fn sysv_complete<const NB: usize, const NS: usize>(class: Class, absent_query: bool) {
    // NS = number of hashed symbols (indexes 1..=NS); index 0 is the undefined symbol.
    let le: bool = kani::any();
    let e = if le { AnyEndian::Little } else { AnyEndian::Big };
    let mut names = [Slot { c0: 0, c1: 0 }; NS];
    let mut i = 0;
    while i < NS {
        names[i] = Slot::any();
        i += 1;
    }
    // string table: byte 0 is NUL, slot j at 1 + 3*j
    let mut strs_full = [0u8; 10];
    let strs = &mut strs_full[..1 + 3 * NS];
    i = 0;
    while i < NS {
        strs[1 + 3 * i] = names[i].c0;
        strs[2 + 3 * i] = names[i].c1;
        i += 1;
    }
    // symbol table (ELF32: 16 bytes, st_name first; ELF64: 24 bytes, st_name first)
    let es = if class == Class::ELF32 { 16 } else { 24 };
    let mut syms = [0u8; 96];
    assert!(es * (NS + 1) <= 96);
    i = 0;
    while i < NS {
        put_u32(&mut syms[..], es * (i + 1), (1 + 3 * i) as u32, le);
        let other: u8 = kani::any();
        syms[es * (i + 1) + 5] = other;
        i += 1;
    }
    // hash section: nbucket, nchain, bucket[NB], chain[NS+1]
    let mut tab_full = [0u8; 36];
    let tab = &mut tab_full[..8 + 4 * NB + 4 * (NS + 1)];
    put_u32(tab, 0, NB as u32, le);
    put_u32(tab, 4, (NS + 1) as u32, le);
    let mut b = 0;
    while b < NB {
        // head = first symbol hashing into bucket b
        let mut head = 0u32;
        let mut j = NS;
        while j >= 1 {
            if (names[j - 1].sysv() as usize) % NB == b {
                head = j as u32;
            }
            j -= 1;
        }
        put_u32(tab, 8 + 4 * b, head, le);
        b += 1;
    }
    i = 1;
    while i <= NS {
        // chain[i] = next symbol after i in the same bucket, 0 if none
        let mut next = 0u32;
        let mut j = NS;
        while j > i {
            if (names[j - 1].sysv() as usize) % NB == (names[i - 1].sysv() as usize) % NB {
                next = j as u32;
            }
            j -= 1;
        }
        put_u32(tab, 8 + 4 * NB + 4 * i, next, le);
        i += 1;
    }
    let symtab: SymbolTable<'_, AnyEndian> = ParsingTable::new(e, class, &syms[..es * (NS + 1)]);
    let strtab = StringTable::new(strs);
    let t = SysVHashTable::new(e, class, tab);
    assert!(t.is_ok());
    let t = t.unwrap();
    // a present name is found at the first index bearing it
    if !absent_query {
    let k: usize = kani::any();
    kani::assume(k < NS);
    let q = [names[k].c0, names[k].c1];
    let qn = &q[..names[k].len()];
    let mut first = k;
    let mut j = k;
    while j > 0 {
        if names[j - 1].same(&names[k]) {
            first = j - 1;
        }
        j -= 1;
    }
    match t.find(qn, &symtab, &strtab) {
        Ok(Some((idx, s))) => {
            assert!(idx == first + 1);
            assert!(s.st_name as usize == 1 + 3 * first);
            kani::cover!(idx == NS && NS > 1, "last symbol found through its chain");
        }
        _ => {
            assert!(false);
        }
    }
    // an absent name (any 0..2 byte string different from all present names) is not found
    return;
    }
    let a = Slot::any();
    let mut absent = true;
    i = 0;
    while i < NS {
        if names[i].same(&a) {
            absent = false;
        }
        i += 1;
    }
    if absent {
        let aq = [a.c0, a.c1];
        let r = t.find(&aq[..a.len()], &symtab, &strtab);
        assert!(matches!(r, Ok(None)));
        kani::cover!(NS > 0 && a.sysv() == names[0].sysv(), "absent name colliding in hash with a present one");
    }
}


/// Lean completeness / absent-name checks for the quick tier: ELF32 LE, nbucket = 2, three symbols (index 0 undefined),
/// two hashed symbols with fixed-length two-byte names over the full non-NUL alphabet.
fn lean_table(n0: [u8; 2], n1: [u8; 2]) -> ([u8; 28], [u8; 48], [u8; 7]) {
    let h0 = ref_sysv_hash(&n0);
    let h1 = ref_sysv_hash(&n1);
    let strs: [u8; 7] = [0, n0[0], n0[1], 0, n1[0], n1[1], 0];
    let mut syms = [0u8; 48];
    put_u32(&mut syms, 16, 1, true);
    put_u32(&mut syms, 32, 4, true);
    // nbucket=2, nchain=3 | bucket[0], bucket[1] | chain[0..3]
    let mut tab = [0u8; 28];
    put_u32(&mut tab, 0, 2, true);
    put_u32(&mut tab, 4, 3, true);
    let b0 = h0 % 2;
    let b1 = h1 % 2;
    let head0: u32 = if b0 == 0 { 1 } else if b1 == 0 { 2 } else { 0 };
    let head1: u32 = if b0 == 1 { 1 } else if b1 == 1 { 2 } else { 0 };
    put_u32(&mut tab, 8, head0, true);
    put_u32(&mut tab, 12, head1, true);
    put_u32(&mut tab, 16, 0, true);
    put_u32(&mut tab, 20, if b0 == b1 { 2 } else { 0 }, true);
    put_u32(&mut tab, 24, 0, true);
    (tab, syms, strs)
}

#[kani::proof]
#[kani::unwind(6)]
pub fn complete_lean_two_byte_names() {
    let n0: [u8; 2] = kani::any();
    let n1: [u8; 2] = kani::any();
    kani::assume(n0[0] != 0 && n0[1] != 0 && n1[0] != 0 && n1[1] != 0);
    let (tab, syms, strs) = lean_table(n0, n1);
    let e = AnyEndian::Little;
    let symtab: SymbolTable<'_, AnyEndian> = ParsingTable::new(e, Class::ELF32, &syms);
    let strtab = StringTable::new(&strs);
    let t = SysVHashTable::new(e, Class::ELF32, &tab).unwrap();
    let second: bool = kani::any();
    let q = if second { n1 } else { n0 };
    let same = n0[0] == n1[0] && n0[1] == n1[1];
    let expect = if second && !same { 2 } else { 1 };
    match t.find(&q, &symtab, &strtab) {
        Ok(Some((idx, _))) => {
            assert!(idx == expect);
            kani::cover!(second && !same && ref_sysv_hash(&n0) % 2 == ref_sysv_hash(&n1) % 2, "second name found through the chain of a shared bucket");
        }
        _ => {
            assert!(false);
        }
    }
}

#[kani::proof]
#[kani::unwind(6)]
pub fn absent_lean_two_byte_names() {
    let n0: [u8; 2] = kani::any();
    let n1: [u8; 2] = kani::any();
    let q: [u8; 2] = kani::any();
    let ql: usize = kani::any();
    kani::assume(ql >= 1 && ql <= 2);
    kani::assume(n0[0] != 0 && n0[1] != 0 && n1[0] != 0 && n1[1] != 0 && q[0] != 0 && q[1] != 0);
    // the query (1 or 2 bytes) differs from both present names; a 1-byte query may be a proper prefix of a present name
    kani::assume(ql == 1 || (!(q[0] == n0[0] && q[1] == n0[1]) && !(q[0] == n1[0] && q[1] == n1[1])));
    let (tab, syms, strs) = lean_table(n0, n1);
    let e = AnyEndian::Little;
    let symtab: SymbolTable<'_, AnyEndian> = ParsingTable::new(e, Class::ELF32, &syms);
    let strtab = StringTable::new(&strs);
    let t = SysVHashTable::new(e, Class::ELF32, &tab).unwrap();
    let r = t.find(&q[..ql], &symtab, &strtab);
    assert!(matches!(r, Ok(None)));
    kani::cover!(ql == 1 && q[0] == n0[0], "absent name that is a proper prefix of a present one");
}

/// One bucket, two hashed symbols: the chain (2 links) is longer than the bucket count, and both orders of the chain are covered.
/// A walk that is bounded by anything smaller than the chain array (e.g. by the number of buckets) misses the deeper symbol.
#[kani::proof]
#[kani::unwind(6)]
pub fn complete_lean_one_bucket() {
    let n0: [u8; 2] = kani::any();
    let n1: [u8; 2] = kani::any();
    kani::assume(n0[0] != 0 && n0[1] != 0 && n1[0] != 0 && n1[1] != 0);
    kani::assume(!(n0[0] == n1[0] && n0[1] == n1[1]));
    let strs: [u8; 7] = [0, n0[0], n0[1], 0, n1[0], n1[1], 0];
    let mut syms = [0u8; 48];
    put_u32(&mut syms, 16, 1, true);
    put_u32(&mut syms, 32, 4, true);
    let rev: bool = kani::any();
    // nbucket=1, nchain=3 | bucket[0] | chain[0..3]
    let mut tab = [0u8; 24];
    put_u32(&mut tab, 0, 1, true);
    put_u32(&mut tab, 4, 3, true);
    put_u32(&mut tab, 8, if rev { 2 } else { 1 }, true);
    put_u32(&mut tab, 12, 0, true);
    put_u32(&mut tab, 16, if rev { 0 } else { 2 }, true);
    put_u32(&mut tab, 20, if rev { 1 } else { 0 }, true);
    let e = AnyEndian::Little;
    let symtab: SymbolTable<'_, AnyEndian> = ParsingTable::new(e, Class::ELF32, &syms);
    let strtab = StringTable::new(&strs);
    let t = SysVHashTable::new(e, Class::ELF32, &tab).unwrap();
    let second: bool = kani::any();
    let q = if second { n1 } else { n0 };
    let expect = if second { 2 } else { 1 };
    match t.find(&q, &symtab, &strtab) {
        Ok(Some((idx, _))) => {
            assert!(idx == expect);
            kani::cover!(second != rev, "symbol at the end of a chain longer than the bucket count");
        }
        _ => {
            assert!(false);
        }
    }
}

/// Lean soundness harness for the quick tier: fixed-size arbitrary table (28 bytes: every header word arbitrary), three arbitrary
/// ELF32 symbols, arbitrary 4-byte string table + NUL, query of 1..2 bytes: a returned symbol is the entry at the returned index
/// and its name equals the query.
#[kani::proof]
#[kani::unwind(7)]
pub fn sound_lean_elf32() {
    let tb: [u8; 28] = kani::any();
    let sb: [u8; 48] = kani::any();
    let rb: [u8; 5] = [kani::any(), kani::any(), kani::any(), kani::any(), 0];
    let q: [u8; 2] = kani::any();
    let ql: usize = kani::any();
    kani::assume(ql >= 1 && ql <= 2);
    let e = AnyEndian::Little;
    let symtab: SymbolTable<'_, AnyEndian> = ParsingTable::new(e, Class::ELF32, &sb);
    let strtab = StringTable::new(&rb);
    let name = &q[..ql];
    if let Ok(t) = SysVHashTable::new(e, Class::ELF32, &tb) {
        if let Ok(Some((i, s))) = t.find(name, &symtab, &strtab) {
            assert!(symtab.get(i).ok() == Some(s.clone()));
            match strtab.get_raw(s.st_name as usize) {
                Ok(n) => {
                    assert!(n.len() == ql);
                    assert!(n[0] == q[0]);
                    if ql == 2 {
                        assert!(n[1] == q[1]);
                    }
                }
                Err(_) => {
                    assert!(false);
                }
            }
            kani::cover!(i == 2, "symbol 2 returned");
        }
    }
}
