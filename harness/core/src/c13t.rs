//! C13 thorough: more layouts, two-by-two models.
use crate::c13::*;
use elf::file::Class;

#[kani::proof]
#[kani::unwind(8)]
pub fn verneed_1x2_g3_g0() {
    verneed_1x2::<3, 0>(Class::ELF32, false);
}
#[kani::proof]
#[kani::unwind(8)]
pub fn verneed_1x2_g0_g0() {
    verneed_1x2::<0, 0>(Class::ELF32, true);
}
#[kani::proof]
#[kani::unwind(8)]
pub fn verdef_1x2_g0_g3() {
    verdef_1x2::<0, 3>(Class::ELF64, true);
}
#[kani::proof]
#[kani::unwind(8)]
pub fn verdef_1x2_g0_g0() {
    verdef_1x2::<0, 0>(Class::ELF64, false);
}
