//! C09 thorough tier: the remaining entry types and classes.
use crate::c09::*;
use elf::dynamic::Dyn;
use elf::file::Class;
use elf::gnu_symver::VersionIndex;
use elf::relocation::{Rel, Rela};
use elf::section::SectionHeader;
use elf::segment::ProgramHeader;
use elf::symbol::Symbol;

macro_rules! table_harness {
    ($name:ident, $ty:ty, $class:expr, $es:expr, $k:expr) => {
        #[kani::proof]
        #[kani::unwind(6)]
        pub fn $name() {
            table_coherence::<$ty, { ($k + 1) * $es - 1 }>($class, $es, $k);
        }
    };
}
macro_rules! iter_harness {
    ($name:ident, $ty:ty, $class:expr, $es:expr, $k:expr) => {
        #[kani::proof]
        #[kani::unwind(6)]
        pub fn $name() {
            iter_coherence::<$ty, { ($k + 1) * $es - 1 }>($class, $es, $k);
        }
    };
}
table_harness!(sym32, Symbol, Class::ELF32, 16, 2);
table_harness!(sym64, Symbol, Class::ELF64, 24, 2);
table_harness!(shdr32, SectionHeader, Class::ELF32, 40, 2);
table_harness!(shdr64, SectionHeader, Class::ELF64, 64, 2);
table_harness!(phdr32, ProgramHeader, Class::ELF32, 32, 2);
table_harness!(phdr64, ProgramHeader, Class::ELF64, 56, 2);
table_harness!(dyn64, Dyn, Class::ELF64, 16, 2);
table_harness!(u64_tab, u64, Class::ELF64, 8, 3);
table_harness!(u32_tab_k3, u32, Class::ELF64, 4, 3);
table_harness!(verndx_k3, VersionIndex, Class::ELF32, 2, 3);
table_harness!(sym32_k3, Symbol, Class::ELF32, 16, 3);
iter_harness!(rel64, Rel, Class::ELF64, 16, 2);
iter_harness!(rela64, Rela, Class::ELF64, 24, 2);
iter_harness!(rel32_k3, Rel, Class::ELF32, 8, 3);
