//! C14 — note iteration yields exactly the notes laid out in the section / segment.
//! Reference walker written from the gABI note format (12-byte header of three 32-bit words for both
//! classes; name, padding to align, descriptor, padding to align).
//! Bound: note area capacity B bytes (symbolic length, all contents symbolic), alignment ANY usize,
//! at most B/12 notes.
use crate::util::*;
use elf::endian::{AnyEndian, EndianParse};
use elf::file::Class;
use elf::note::{Note, NoteAny, NoteIterator};

#[derive(Clone, Copy)]
pub struct RefNote {
    pub n_type: u64,
    pub ns: usize,
    pub ne: usize,
    pub ds: usize,
    pub de: usize,
    pub next: usize,
}

fn pad(x: usize, a: usize) -> Option<usize> {
    // a != 0
    let r = x % a;
    if r == 0 {
        Some(x)
    } else {
        x.checked_add(a - r)
    }
}

/// The record starting at `pos`, or None when it does not fit in data[..len] (iteration ends there).
pub fn ref_note(data: &[u8], pos: usize, align: usize, le: bool) -> Option<RefNote> {
    let len = data.len();
    if align == 0 {
        return None;
    }
    if pos > len || len - pos < 12 {
        return None;
    }
    let namesz = ref_uint(data, pos, 4, le) as usize;
    let descsz = ref_uint(data, pos + 4, 4, le) as usize;
    let n_type = ref_uint(data, pos + 8, 4, le);
    let ns = pos + 12;
    let ne = ns.checked_add(namesz)?;
    if ne > len {
        return None;
    }
    let ds = pad(ne, align)?;
    let de = ds.checked_add(descsz)?;
    if ds > len || de > len {
        return None;
    }
    let next = pad(de, align)?;
    Some(RefNote { n_type, ns, ne, ds, de, next })
}

fn is_gnu(data: &[u8], x: &RefNote) -> bool {
    x.ne - x.ns == 4 && data[x.ns] == b'G' && data[x.ns + 1] == b'N' && data[x.ns + 2] == b'U' && data[x.ns + 3] == 0
}

pub fn note_walk<const B: usize>(class: Class, max_notes: usize, le_only: Option<bool>) {
    let (buf, len) = any_buf::<B>();
    let data = &buf[..len];
    let e = match le_only {
        Some(true) => AnyEndian::Little,
        Some(false) => AnyEndian::Big,
        None => any_endian(),
    };
    let le = e == AnyEndian::Little;
    let align: usize = kani::any();
    let base = data.as_ptr() as usize;
    let mut it = NoteIterator::new(e, class, align, data);
    let mut pos = 0usize;
    let mut count = 0usize;
    while count <= max_notes {
        let got = it.next();
        let exp = ref_note(data, pos, align, le);
        match (got, exp) {
            (None, None) => break,
            (Some(n), Some(x)) => {
                let gnu = is_gnu(data, &x);
                match n {
                    Note::Unknown(a) => {
                        assert!(!(gnu && (x.n_type == 1 || x.n_type == 3)));
                        assert!(a.n_type == x.n_type);
                        assert!(a.name.as_ptr() as usize == base + x.ns && a.name.len() == x.ne - x.ns);
                        assert!(a.desc.as_ptr() as usize == base + x.ds && a.desc.len() == x.de - x.ds);
                    }
                    Note::GnuBuildId(b) => {
                        assert!(gnu && x.n_type == 3);
                        assert!(b.0.as_ptr() as usize == base + x.ds && b.0.len() == x.de - x.ds);
                    }
                    Note::GnuAbiTag(t) => {
                        assert!(gnu && x.n_type == 1 && x.de - x.ds >= 16);
                        assert!(t.os as u64 == ref_uint(data, x.ds, 4, le));
                        assert!(t.major as u64 == ref_uint(data, x.ds + 4, 4, le));
                        assert!(t.minor as u64 == ref_uint(data, x.ds + 8, 4, le));
                        assert!(t.subminor as u64 == ref_uint(data, x.ds + 12, 4, le));
                    }
                }
                kani::cover!(count == 1 && align == 4 && pos == 16, "second note at 16 after a padded first note, align 4");
                kani::cover!(count == 1 && align == 3, "second note with alignment 3");
                pos = x.next;
                count += 1;
            }
            (None, Some(x)) => {
                // only a GNU ABI-tag record whose descriptor is shorter than the ABI's 16 bytes may end iteration early
                assert!(is_gnu(data, &x) && x.n_type == 1 && x.de - x.ds < 16);
                break;
            }
            (Some(_), None) => {
                assert!(false);
            }
        }
    }
    assert!(count <= max_notes);
    if align == 0 {
        assert!(count == 0);
    }
    kani::cover!(count == max_notes, "maximal number of notes");
}

#[kani::proof]
#[kani::unwind(6)]
pub fn walk_le_b28() {
    note_walk::<28>(Class::ELF64, 2, Some(true));
}

/// NoteAny::name_str == name bytes as UTF-8 without trailing NULs (names <= 4 bytes).
#[kani::proof]
#[kani::unwind(7)]
pub fn name_str_b4() {
    let (buf, len) = any_buf::<4>();
    let name = &buf[..len];
    let a = NoteAny { n_type: kani::any(), name, desc: &[] };
    let mut n = len;
    while n > 0 && name[n - 1] == 0 {
        n -= 1;
    }
    match a.name_str() {
        Ok(s) => {
            assert!(core::str::from_utf8(name).is_ok());
            assert!(s.as_ptr() == name.as_ptr() && s.len() == n);
            kani::cover!(n + 2 == len, "two trailing NULs trimmed");
        }
        Err(_) => {
            assert!(core::str::from_utf8(name).is_err());
        }
    }
}
