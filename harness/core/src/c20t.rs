//! C20 thorough: by-name lookup with a symbolic query on a generated constant file.
use crate::gen_files::*;
use crate::util::*;
use elf::endian::AnyEndian;
use elf::ElfBytes;

/// (b) by-name lookup: query of 0..=3 symbolic ASCII bytes against generated files whose section names are prefixes /
/// suffixes of each other, duplicated, empty and non-UTF-8. Expected: the first section (table order) whose name string
/// equals the query; None otherwise.
pub fn by_name(file: &'static [u8], names: &[&[u8]], valid_utf8: &[bool]) {
    let f = ElfBytes::<AnyEndian>::minimal_parse(file).unwrap();
    let q: [u8; 3] = kani::any();
    let n: usize = kani::any();
    kani::assume(n <= 3);
    kani::assume(q[0] < 0x80 && q[1] < 0x80 && q[2] < 0x80);
    kani::assume(q[0] != 0 && q[1] != 0 && q[2] != 0);
    // ASCII bytes are valid UTF-8 by construction
    let query = unsafe { core::str::from_utf8_unchecked(&q[..n]) };
    let mut expected: Option<usize> = None;
    let mut i = names.len();
    while i > 0 {
        i -= 1;
        if valid_utf8[i] && names[i].len() == n {
            let mut same = true;
            let mut k = 0;
            while k < n {
                if names[i][k] != q[k] {
                    same = false;
                }
                k += 1;
            }
            if same {
                expected = Some(i);
            }
        }
    }
    let table = f.section_headers().unwrap();
    match f.section_header_by_name(query) {
        Ok(Some(sh)) => match expected {
            Some(i) => {
                assert!(table.get(i).ok() == Some(sh));
                kani::cover!(i >= 2, "found a later section");
            }
            None => {
                assert!(false);
            }
        },
        Ok(None) => {
            assert!(expected.is_none());
            kani::cover!(n == 2, "two-byte query not found");
        }
        Err(_) => {
            assert!(false);
        }
    }
}

#[kani::proof]
#[kani::unwind(18)]
pub fn by_name_file_a() {
    by_name(&NAMES_A_FILE, &NAMES_A, &NAMES_A_UTF8);
}
