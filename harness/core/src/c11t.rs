//! C11 thorough.
use crate::c11::*;
use crate::hashref::*;
use crate::util::*;
use elf::file::Class;
use elf::hash::gnu_hash;

#[kani::proof]
#[kani::unwind(18)]
pub fn hash_fn_b16() {
    let (buf, len) = any_buf::<16>();
    let name = &buf[..len];
    assert!(gnu_hash(name) == ref_gnu_hash(name));
}
#[kani::proof]
#[kani::unwind(7)]
pub fn sound_elf64_be() {
    gnu_sound::<40, 72, 6, 2>(Class::ELF64, false);
}
#[kani::proof]
#[kani::unwind(7)]
pub fn sound_elf32_le() {
    gnu_sound::<36, 48, 6, 2>(Class::ELF32, true);
}
#[kani::proof]
#[kani::unwind(8)]
pub fn complete_elf64_nb1_nl1_n2_present() {
    gnu_complete::<1, 1, 2, 1>(Class::ELF64, false);
}
#[kani::proof]
#[kani::unwind(8)]
pub fn complete_elf64_nb1_nl1_n2_absent() {
    gnu_complete::<1, 1, 2, 1>(Class::ELF64, true);
}
#[kani::proof]
#[kani::unwind(8)]
pub fn complete_elf32_nb2_nl1_n3_present() {
    gnu_complete::<2, 1, 3, 1>(Class::ELF32, false);
}
#[kani::proof]
#[kani::unwind(8)]
pub fn complete_elf32_nb2_nl1_n3_absent() {
    gnu_complete::<2, 1, 3, 1>(Class::ELF32, true);
}
#[kani::proof]
#[kani::unwind(8)]
pub fn complete_elf64_nb2_nl2_n2_present() {
    gnu_complete::<2, 2, 2, 2>(Class::ELF64, false);
}
#[kani::proof]
#[kani::unwind(8)]
pub fn complete_elf64_nb2_nl2_n2_absent() {
    gnu_complete::<2, 2, 2, 2>(Class::ELF64, true);
}
#[kani::proof]
#[kani::unwind(8)]
pub fn complete_elf32_nb3_nl2_n3_present() {
    gnu_complete::<3, 2, 3, 2>(Class::ELF32, false);
}
#[kani::proof]
#[kani::unwind(8)]
pub fn complete_elf32_nb3_nl2_n3_absent() {
    gnu_complete::<3, 2, 3, 2>(Class::ELF32, true);
}

#[kani::proof]
#[kani::unwind(8)]
pub fn complete_elf32_nb1_nl1_n2_present() {
    gnu_complete::<1, 1, 2, 1>(Class::ELF32, false);
}
#[kani::proof]
#[kani::unwind(8)]
pub fn complete_elf32_nb1_nl1_n2_absent() {
    gnu_complete::<1, 1, 2, 1>(Class::ELF32, true);
}
