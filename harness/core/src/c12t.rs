//! C12 thorough.
use crate::c12::*;
use crate::hashref::*;
use crate::util::*;
use elf::file::Class;
use elf::hash::sysv_hash;

#[kani::proof]
#[kani::unwind(18)]
pub fn hash_fn_b16() {
    let (buf, len) = any_buf::<16>();
    let name = &buf[..len];
    assert!(sysv_hash(name) == ref_sysv_hash(name));
}
#[kani::proof]
#[kani::unwind(7)]
pub fn sound_elf64_be() {
    sysv_sound::<32, 72, 6, 2>(Class::ELF64, false);
}
#[kani::proof]
#[kani::unwind(7)]
pub fn sound_elf32_le() {
    sysv_sound::<36, 48, 6, 2>(Class::ELF32, true);
}
#[kani::proof]
#[kani::unwind(8)]
pub fn complete_elf32_nb2_n3_present() {
    sysv_complete::<2, 3>(Class::ELF32, false);
}
#[kani::proof]
#[kani::unwind(8)]
pub fn complete_elf32_nb2_n3_absent() {
    sysv_complete::<2, 3>(Class::ELF32, true);
}
#[kani::proof]
#[kani::unwind(8)]
pub fn complete_elf64_nb3_n3_present() {
    sysv_complete::<3, 3>(Class::ELF64, false);
}
#[kani::proof]
#[kani::unwind(8)]
pub fn complete_elf64_nb3_n3_absent() {
    sysv_complete::<3, 3>(Class::ELF64, true);
}
#[kani::proof]
#[kani::unwind(8)]
pub fn complete_elf64_nb1_n3_present() {
    sysv_complete::<1, 3>(Class::ELF64, false);
}
#[kani::proof]
#[kani::unwind(8)]
pub fn complete_elf64_nb1_n3_absent() {
    sysv_complete::<1, 3>(Class::ELF64, true);
}

#[kani::proof]
#[kani::unwind(8)]
pub fn complete_elf32_nb1_n2_present() {
    sysv_complete::<1, 2>(Class::ELF32, false);
}
#[kani::proof]
#[kani::unwind(8)]
pub fn complete_elf32_nb1_n2_absent() {
    sysv_complete::<1, 2>(Class::ELF32, true);
}
