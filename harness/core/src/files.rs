//! Constant ELF files for regime R1 (entirely `const` arrays so that CBMC constant-folds the open):
//! a valid header without tables followed by a patterned body.
pub const N: usize = 128;

pub const fn header_only(class: u8, data: u8, n: usize) -> [u8; N] {
    let mut f = [0u8; N];
    let mut i = 0;
    while i < N {
        f[i] = (i as u8).wrapping_mul(7).wrapping_add(3);
        i += 1;
    }
    f[0] = 0x7f;
    f[1] = b'E';
    f[2] = b'L';
    f[3] = b'F';
    f[4] = class;
    f[5] = data;
    f[6] = 1;
    f[7] = 0;
    f[8] = 0;
    let hs = if class == 1 { 52 } else { 64 };
    let mut i = 9;
    while i < hs {
        f[i] = 0;
        i += 1;
    }
    // e_type = 2, e_machine = 62, e_version = 1 (byte order aware)
    if data == 1 {
        f[16] = 2;
        f[18] = 62;
        f[20] = 1;
    } else {
        f[17] = 2;
        f[19] = 62;
        f[23] = 1;
    }
    let _ = n;
    f
}

pub const FILE64LE: [u8; N] = header_only(2, 1, N);
pub const FILE32BE: [u8; N] = header_only(1, 2, N);
pub const FILE32LE: [u8; N] = header_only(1, 1, N);
pub const FILE64BE: [u8; N] = header_only(2, 2, N);

/// Prefixes of FILE64LE as separate constants (for the truncation differential with enumerated cut points).
pub const fn prefix<const P: usize>(f: &[u8; N]) -> [u8; P] {
    let mut o = [0u8; P];
    let mut i = 0;
    while i < P {
        o[i] = f[i];
        i += 1;
    }
    o
}
pub const P64_64: [u8; 64] = prefix::<64>(&FILE64LE);
pub const P64_65: [u8; 65] = prefix::<65>(&FILE64LE);
pub const P64_100: [u8; 100] = prefix::<100>(&FILE64LE);
pub const P64_127: [u8; 127] = prefix::<127>(&FILE64LE);
pub const P32_52: [u8; 52] = prefix::<52>(&FILE32BE);
pub const P32_90: [u8; 90] = prefix::<90>(&FILE32BE);
