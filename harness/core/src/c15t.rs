//! C15 thorough tier: larger tables.
use crate::util::*;
use elf::parse::ParseError;
use elf::string_table::StringTable;
use crate::c15::*;

macro_rules! strtab_harness_t {
    ($name:ident, $b:expr, $unwind:expr) => {
        #[kani::proof]
        #[kani::unwind($unwind)]
        pub fn $name() {
            let (buf, len) = any_buf::<$b>();
            let data = &buf[..len];
            let t = StringTable::new(data);
            let off: usize = kani::any();
            match t.get_raw(off) {
                Ok(s) => {
                    let n = s.len();
                    assert!(off < len && n < len - off);
                    let k: usize = kani::any();
                    if k < n {
                        assert!(s[k] != 0 && s[k] == data[off + k]);
                    }
                    assert!(data[off + n] == 0);
                    assert!(s.as_ptr() as usize == data.as_ptr() as usize + off);
                    kani::cover!(n == $b - 1, "string filling the table");
                }
                Err(e) => {
                    if off < len {
                        let k: usize = kani::any();
                        kani::assume(off <= k && k < len);
                        assert!(data[k] != 0);
                        assert!(matches!(e, ParseError::StringTableMissingNul(_)));
                    }
                    if off > len {
                        assert!(matches!(e, ParseError::BadOffset(_)));
                    }
                }
            }
        }
    };
}
strtab_harness_t!(get_raw_b16, 16, 18);

#[kani::proof]
#[kani::unwind(10)]
pub fn get_b8() {
    let (buf, len) = any_buf::<8>();
    let data = &buf[..len];
    let t = StringTable::new(data);
    let off: usize = kani::any();
    match (t.get_raw(off), t.get(off)) {
        (Ok(r), Ok(s)) => {
            assert!(core::str::from_utf8(r).is_ok());
            assert!(s.as_ptr() == r.as_ptr() && s.len() == r.len());
        }
        (Ok(r), Err(e)) => {
            assert!(core::str::from_utf8(r).is_err());
            assert!(matches!(e, ParseError::Utf8Error(_)));
        }
        (Err(_), Ok(_)) => {
            assert!(false);
        }
        (Err(_), Err(_)) => {}
    }
}
