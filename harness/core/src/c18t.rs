//! C18 thorough: symbolic cut point; typed views; header-table differential with symbolic header bytes.
use crate::c03::{any_phdr, any_shdr};
use crate::files::*;
use crate::util::*;
use elf::endian::AnyEndian;
use elf::note::Note;
use elf::ElfBytes;

/// every prefix length p < 128 at once (symbolic cut point)
#[kani::proof]
#[kani::unwind(6)]
pub fn symbolic_cut_section_data() {
    let full: &'static [u8] = &FILE64LE;
    let p: usize = kani::any();
    kani::assume(p < full.len());
    let pre = &full[..p];
    let f = ElfBytes::<AnyEndian>::minimal_parse(full).unwrap();
    let t = match ElfBytes::<AnyEndian>::minimal_parse(pre) {
        Ok(t) => t,
        Err(_) => return,
    };
    let sh = any_shdr();
    match (t.section_data(&sh), f.section_data(&sh)) {
        (Ok((ps, pc)), Ok((fs, fc))) => {
            assert!(ps.len() == fs.len());
            if ps.len() > 0 {
                assert!(ps.as_ptr() == fs.as_ptr());
            }
            assert!(pc == fc);
        }
        (Ok(_), Err(_)) => {
            assert!(false);
        }
        (Err(_), _) => {}
    }
}

#[kani::proof]
#[kani::unwind(6)]
pub fn symbolic_cut_segment_data() {
    let full: &'static [u8] = &FILE32BE;
    let p: usize = kani::any();
    kani::assume(p < full.len());
    let pre = &full[..p];
    let f = ElfBytes::<AnyEndian>::minimal_parse(full).unwrap();
    let t = match ElfBytes::<AnyEndian>::minimal_parse(pre) {
        Ok(t) => t,
        Err(_) => return,
    };
    let ph = any_phdr();
    match (t.segment_data(&ph), f.segment_data(&ph)) {
        (Ok(ps), Ok(fs)) => {
            assert!(ps.len() == fs.len());
            if ps.len() > 0 {
                assert!(ps.as_ptr() == fs.as_ptr());
            }
        }
        (Ok(_), Err(_)) => {
            assert!(false);
        }
        (Err(_), _) => {}
    }
}

/// typed views on an enumerated prefix: string table entry and first note agree or the prefix errs
#[kani::proof]
#[kani::unwind(130)]
pub fn prefix_100_typed_views() {
    let full: &'static [u8] = &FILE64LE;
    let pre: &'static [u8] = &P64_100;
    let f = ElfBytes::<AnyEndian>::minimal_parse(full).unwrap();
    let t = ElfBytes::<AnyEndian>::minimal_parse(pre).unwrap();
    let mut sh = any_shdr();
    sh.sh_type = 3;
    if let (Ok(ps), Ok(fs)) = (t.section_data_as_strtab(&sh), f.section_data_as_strtab(&sh)) {
        let k: usize = kani::any();
        match (ps.get_raw(k), fs.get_raw(k)) {
            (Ok(a), Ok(b)) => {
                assert!(a.len() == b.len());
                assert!(a.as_ptr() as usize - pre.as_ptr() as usize == b.as_ptr() as usize - full.as_ptr() as usize);
            }
            (Ok(_), Err(_)) => {
                assert!(false);
            }
            _ => {}
        }
    } else {
        assert!(!(t.section_data_as_strtab(&sh).is_ok() && f.section_data_as_strtab(&sh).is_err()));
    }
}
