//! C18 — a truncated file yields errors or unchanged answers, never different answers (and appending bytes changes nothing).
//! Quick tier: the complete file and an enumerated set of its proper prefixes are constant arrays (R1), every accessor is
//! called on both with the SAME fully symbolic header argument; the prefix answer must be Err or identical (same offset
//! into the file, same length, same compression header).
use crate::c03::{any_phdr, any_shdr};
use crate::files::*;
use crate::util::*;
use elf::endian::AnyEndian;
use elf::ElfBytes;

pub fn prefix_differential(full: &'static [u8], pre: &'static [u8]) {
    let f = ElfBytes::<AnyEndian>::minimal_parse(full).unwrap();
    let p = match ElfBytes::<AnyEndian>::minimal_parse(pre) {
        Ok(p) => p,
        Err(_) => return, // an error on the truncated file is always allowed
    };
    let fb = full.as_ptr() as usize;
    let pb = pre.as_ptr() as usize;
    let sh = any_shdr();
    match (p.section_data(&sh), f.section_data(&sh)) {
        (Ok((ps, pc)), Ok((fs, fc))) => {
            assert!(ps.len() == fs.len());
            if ps.len() > 0 {
                assert!(ps.as_ptr() as usize - pb == fs.as_ptr() as usize - fb);
            }
            assert!(pc == fc);
            kani::cover!(ps.len() > 0 && (ps.as_ptr() as usize - pb) + ps.len() == pre.len(), "range ending exactly at the cut");
        }
        (Ok(_), Err(_)) => {
            assert!(false);
        }
        (Err(_), _) => {
            kani::cover!(f.section_data(&sh).is_ok(), "prefix errs where the full file answers");
        }
    }
    let ph = any_phdr();
    match (p.segment_data(&ph), f.segment_data(&ph)) {
        (Ok(ps), Ok(fs)) => {
            assert!(ps.len() == fs.len());
            if ps.len() > 0 {
                assert!(ps.as_ptr() as usize - pb == fs.as_ptr() as usize - fb);
            }
        }
        (Ok(_), Err(_)) => {
            assert!(false);
        }
        (Err(_), _) => {}
    }
}

#[kani::proof]
#[kani::unwind(6)]
pub fn prefix_64_of_128() {
    prefix_differential(&FILE64LE, &P64_64);
}
#[kani::proof]
#[kani::unwind(6)]
pub fn prefix_65_of_128() {
    prefix_differential(&FILE64LE, &P64_65);
}
#[kani::proof]
#[kani::unwind(6)]
pub fn prefix_100_of_128() {
    prefix_differential(&FILE64LE, &P64_100);
}
#[kani::proof]
#[kani::unwind(6)]
pub fn prefix_127_of_128() {
    prefix_differential(&FILE64LE, &P64_127);
}
#[kani::proof]
#[kani::unwind(6)]
pub fn prefix_90_of_128_elf32be() {
    prefix_differential(&FILE32BE, &P32_90);
}
