//! C16 thorough: larger areas.
use crate::util::*;
use elf::endian::{AnyEndian, EndianParse};
use elf::file::Class;
use elf::gnu_symver::{VerDefAuxIterator, VerDefIterator, VerNeedAuxIterator, VerNeedIterator};

macro_rules! ver_iter_bound_t {
    ($name:ident, $iter:ident, $cnt:ty, $b:expr, $min:expr, $unwind:expr) => {
        #[kani::proof]
        #[kani::unwind($unwind)]
        pub fn $name() {
            let (buf, len) = any_buf::<$b>();
            let data = &buf[..len];
            let e = any_endian();
            let count: $cnt = kani::any();
            let start: usize = kani::any();
            let it = $iter::new(e, Class::ELF32, count, start, data);
            let mut yielded: u64 = 0;
            for _item in it {
                yielded += 1;
                assert!(yielded <= count as u64);
                assert!(yielded as usize + $min - 1 <= len);
            }
        }
    };
}
ver_iter_bound_t!(verneed_b40, VerNeedIterator, u64, 40, 16, 28);
ver_iter_bound_t!(vernaux_b40, VerNeedAuxIterator, u16, 40, 16, 28);
ver_iter_bound_t!(verdef_b40, VerDefIterator, u64, 40, 20, 24);
ver_iter_bound_t!(verdaux_b32, VerDefAuxIterator, u16, 32, 8, 28);
