//! C10 thorough: remaining spec x class combinations at file level, and a bad EI_CLASS at file level.
use crate::util::*;
use elf::endian::{AnyEndian, BigEndian, EndianParse, LittleEndian};
use elf::file::{parse_ident, Class, FileHeader};
use elf::parse::ParseError;
use elf::ElfBytes;

/// File level: a header-only file (e_shoff = e_phoff = 0, so no tables) with symbolic ident and
/// symbolic remaining header fields, opened with spec E. Ok iff ident acceptable for E and the header is
/// complete; AnyEndian then gives a header identical to the matching fixed spec's.
macro_rules! file_gate {
    ($name:ident, $e:ty, $lsb:expr, $msb:expr, $class_byte:expr, $hsize:expr, $shoff_pos:expr, $phoff_pos:expr, $w:expr) => {
        #[kani::proof]
        #[kani::unwind(9)]
        pub fn $name() {
            let mut buf: [u8; $hsize + 2] = kani::any();
            buf[4] = $class_byte;
            let mut i = 0;
            while i < $w {
                buf[$shoff_pos + i] = 0;
                buf[$phoff_pos + i] = 0;
                i += 1;
            }
            let len: usize = kani::any();
            kani::assume(len <= $hsize + 2);
            let data = &buf[..len];
            let magic_ok = buf[0] == 0x7f && buf[1] == b'E' && buf[2] == b'L' && buf[3] == b'F';
            let ver_ok = buf[6] == 1;
            let data_ok = (buf[5] == 1 && $lsb) || (buf[5] == 2 && $msb);
            let complete = len >= $hsize;
            let r = ElfBytes::<$e>::minimal_parse(data);
            let r_any = ElfBytes::<AnyEndian>::minimal_parse(data);
            match r {
                Ok(f) => {
                    assert!(magic_ok && ver_ok && data_ok && complete);
                    assert!(f.ehdr.endianness.is_little() == (buf[5] == 1));
                    assert!(f.section_headers().is_none() && f.segments().is_none());
                    // the any-endian spec accepts it too and yields the identical header
                    match r_any {
                        Ok(g) => {
                            assert!(g.ehdr.endianness.is_little() == f.ehdr.endianness.is_little());
                            assert!(g.ehdr.class == f.ehdr.class && g.ehdr.version == f.ehdr.version);
                            assert!(g.ehdr.osabi == f.ehdr.osabi && g.ehdr.abiversion == f.ehdr.abiversion);
                            assert!(g.ehdr.e_type == f.ehdr.e_type && g.ehdr.e_machine == f.ehdr.e_machine);
                            assert!(g.ehdr.e_entry == f.ehdr.e_entry && g.ehdr.e_flags == f.ehdr.e_flags);
                            assert!(g.ehdr.e_phoff == f.ehdr.e_phoff && g.ehdr.e_shoff == f.ehdr.e_shoff);
                            assert!(g.ehdr.e_ehsize == f.ehdr.e_ehsize && g.ehdr.e_phentsize == f.ehdr.e_phentsize);
                            assert!(g.ehdr.e_phnum == f.ehdr.e_phnum && g.ehdr.e_shentsize == f.ehdr.e_shentsize);
                            assert!(g.ehdr.e_shnum == f.ehdr.e_shnum && g.ehdr.e_shstrndx == f.ehdr.e_shstrndx);
                        }
                        Err(_) => {
                            assert!(false);
                        }
                    }
                    kani::cover!(true, "file accepted by the fixed spec");
                }
                Err(e) => {
                    assert!(!(magic_ok && ver_ok && data_ok && complete));
                    if magic_ok && ver_ok && !data_ok && len >= 16 {
                        assert!(matches!(e, ParseError::UnsupportedElfEndianness(d) if d == buf[5]));
                        // any-endian accepts exactly when the order byte is valid and the header complete
                        assert!(r_any.is_ok() == ((buf[5] == 1 || buf[5] == 2) && complete));
                        kani::cover!(buf[5] == 1 || buf[5] == 2, "other byte order rejected by the fixed spec");
                    }
                    if !magic_ok && ver_ok && data_ok && len >= 16 {
                        assert!(matches!(e, ParseError::BadMagic(_)));
                    }
                    if magic_ok && !ver_ok && data_ok && len >= 16 {
                        assert!(matches!(e, ParseError::UnsupportedVersion(_)));
                    }
                }
            }
        }
    };
}
file_gate!(file_le32_vs_any, LittleEndian, true, false, 1, 52, 32, 28, 4);
file_gate!(file_be64_vs_any, BigEndian, false, true, 2, 64, 40, 32, 8);

macro_rules! file_gate_t {
    ($name:ident, $e:ty, $lsb:expr, $msb:expr, $class_byte:expr, $hsize:expr, $shoff_pos:expr, $phoff_pos:expr, $w:expr) => {
        #[kani::proof]
        #[kani::unwind(9)]
        pub fn $name() {
            let mut buf: [u8; $hsize + 2] = kani::any();
            buf[4] = $class_byte;
            let mut i = 0;
            while i < $w {
                buf[$shoff_pos + i] = 0;
                buf[$phoff_pos + i] = 0;
                i += 1;
            }
            let len: usize = kani::any();
            kani::assume(len <= $hsize + 2);
            let data = &buf[..len];
            let magic_ok = buf[0] == 0x7f && buf[1] == b'E' && buf[2] == b'L' && buf[3] == b'F';
            let ver_ok = buf[6] == 1;
            let data_ok = (buf[5] == 1 && $lsb) || (buf[5] == 2 && $msb);
            let complete = len >= $hsize;
            match ElfBytes::<$e>::minimal_parse(data) {
                Ok(f) => {
                    assert!(magic_ok && ver_ok && data_ok && complete);
                    assert!(f.ehdr.endianness.is_little() == (buf[5] == 1));
                    kani::cover!(true, "accepted");
                }
                Err(e) => {
                    assert!(!(magic_ok && ver_ok && data_ok && complete));
                    if magic_ok && ver_ok && !data_ok && len >= 16 {
                        assert!(matches!(e, ParseError::UnsupportedElfEndianness(d) if d == buf[5]));
                    }
                }
            }
        }
    };
}
file_gate_t!(file_le64, LittleEndian, true, false, 2, 64, 40, 32, 8);
file_gate_t!(file_be32, BigEndian, false, true, 1, 52, 32, 28, 4);
file_gate_t!(file_any32, AnyEndian, true, true, 1, 52, 32, 28, 4);
file_gate_t!(file_any64, AnyEndian, true, true, 2, 64, 40, 32, 8);

/// bad EI_CLASS at file level: only defect => UnsupportedElfClass(byte)
#[kani::proof]
#[kani::unwind(9)]
pub fn file_bad_class() {
    let mut buf: [u8; 64] = kani::any();
    buf[0] = 0x7f;
    buf[1] = b'E';
    buf[2] = b'L';
    buf[3] = b'F';
    buf[6] = 1;
    kani::assume(buf[5] == 1 || buf[5] == 2);
    kani::assume(buf[4] != 1 && buf[4] != 2);
    match ElfBytes::<AnyEndian>::minimal_parse(&buf) {
        Ok(_) => {
            assert!(false);
        }
        Err(e) => {
            assert!(matches!(e, ParseError::UnsupportedElfClass(c) if c == buf[4]));
        }
    }
}
