//! C02 — every on-disk structure decodes exactly per the gABI layout for its class / byte order.
//! The layout tables below are written from the gABI / GNU documentation (field, offset, width),
//! independently of the crate's parsers.
//! Bound: one record of the structure's ABI size inside a buffer of size+4 bytes with symbolic length,
//! parsed at ANY usize offset; byte order symbolic; one harness per (structure, class).
//! Also decides the C01 totality clause for the stand-alone struct parsers (Kani's panic/overflow checks).
use crate::util::*;
use elf::compression::CompressionHeader;
use elf::dynamic::Dyn;
use elf::endian::{AnyEndian, EndianParse};
use elf::file::{Class, FileHeader};
use elf::gnu_symver::{VerDef, VerDefAux, VerNeed, VerNeedAux, VersionIndex};
use elf::hash::{GnuHashHeader, SysVHashHeader};
use elf::note::NoteGnuAbiTag;
use elf::parse::{ParseAt, ParseError};
use elf::relocation::{Rel, Rela};
use elf::section::SectionHeader;
use elf::segment::ProgramHeader;
use elf::symbol::Symbol;

/// sign-extend a `w`-byte value held in a u64
fn sext(v: u64, w: usize) -> i64 {
    if w == 4 {
        (v as u32 as i32) as i64
    } else {
        v as i64
    }
}

macro_rules! decode_harness {
    ($name:ident, $ty:ty, $class:expr, $size:expr, $valid:expr, |$v:ident, $f:ident| $check:block) => {
        #[kani::proof]
        #[kani::unwind(9)]
        pub fn $name() {
            const N: usize = $size + 4;
            let (buf, len) = any_buf::<N>();
            let data = &buf[..len];
            let off0: usize = kani::any();
            let e = any_endian();
            let le = match e {
                AnyEndian::Little => true,
                AnyEndian::Big => false,
            };
            assert!(<$ty as ParseAt>::size_for($class) == $size);
            let mut off = off0;
            let r = <$ty as ParseAt>::parse_at(e, $class, &mut off, data);
            let fits = off0 <= len && len - off0 >= $size;
            let $f = |pos: usize, w: usize| -> u64 { ref_uint(data, off0 + pos, w, le) };
            #[allow(unused_variables)]
            let valid: bool = if fits { ($valid)(&$f) } else { false };
            match r {
                Ok($v) => {
                    assert!(fits && valid);
                    assert!(off == off0 + $size);
                    $check;
                    kani::cover!(off0 == 3 && !le, "decoded at offset 3, big endian");
                    kani::cover!(off0 + $size == len && le, "decoded record touching end, little endian");
                }
                Err(_) => {
                    assert!(!(fits && valid));
                    kani::cover!(off0 < len, "error with offset inside buffer");
                    kani::cover!(off0 > usize::MAX - 4, "error with huge offset");
                }
            }
        }
    };
}

fn always(_f: &dyn Fn(usize, usize) -> u64) -> bool {
    true
}

decode_harness!(shdr32, SectionHeader, Class::ELF32, 40, always, |v, f| {
    assert!(v.sh_name as u64 == f(0, 4));
    assert!(v.sh_type as u64 == f(4, 4));
    assert!(v.sh_flags == f(8, 4));
    assert!(v.sh_addr == f(12, 4));
    assert!(v.sh_offset == f(16, 4));
    assert!(v.sh_size == f(20, 4));
    assert!(v.sh_link as u64 == f(24, 4));
    assert!(v.sh_info as u64 == f(28, 4));
    assert!(v.sh_addralign == f(32, 4));
    assert!(v.sh_entsize == f(36, 4));
});
decode_harness!(shdr64, SectionHeader, Class::ELF64, 64, always, |v, f| {
    assert!(v.sh_name as u64 == f(0, 4));
    assert!(v.sh_type as u64 == f(4, 4));
    assert!(v.sh_flags == f(8, 8));
    assert!(v.sh_addr == f(16, 8));
    assert!(v.sh_offset == f(24, 8));
    assert!(v.sh_size == f(32, 8));
    assert!(v.sh_link as u64 == f(40, 4));
    assert!(v.sh_info as u64 == f(44, 4));
    assert!(v.sh_addralign == f(48, 8));
    assert!(v.sh_entsize == f(56, 8));
});
decode_harness!(phdr32, ProgramHeader, Class::ELF32, 32, always, |v, f| {
    assert!(v.p_type as u64 == f(0, 4));
    assert!(v.p_offset == f(4, 4));
    assert!(v.p_vaddr == f(8, 4));
    assert!(v.p_paddr == f(12, 4));
    assert!(v.p_filesz == f(16, 4));
    assert!(v.p_memsz == f(20, 4));
    assert!(v.p_flags as u64 == f(24, 4));
    assert!(v.p_align == f(28, 4));
});
decode_harness!(phdr64, ProgramHeader, Class::ELF64, 56, always, |v, f| {
    assert!(v.p_type as u64 == f(0, 4));
    assert!(v.p_flags as u64 == f(4, 4));
    assert!(v.p_offset == f(8, 8));
    assert!(v.p_vaddr == f(16, 8));
    assert!(v.p_paddr == f(24, 8));
    assert!(v.p_filesz == f(32, 8));
    assert!(v.p_memsz == f(40, 8));
    assert!(v.p_align == f(48, 8));
});
decode_harness!(sym32, Symbol, Class::ELF32, 16, always, |v, f| {
    assert!(v.st_name as u64 == f(0, 4));
    assert!(v.st_value == f(4, 4));
    assert!(v.st_size == f(8, 4));
    assert!(v.st_info as u64 == f(12, 1));
    assert!(v.st_other as u64 == f(13, 1));
    assert!(v.st_shndx as u64 == f(14, 2));
    // ABI macros
    assert!(v.st_bind() as u64 == f(12, 1) >> 4);
    assert!(v.st_symtype() as u64 == f(12, 1) & 0xf);
    assert!(v.st_vis() as u64 == f(13, 1) & 0x3);
    assert!(v.is_undefined() == (f(14, 2) == 0));
});
decode_harness!(sym64, Symbol, Class::ELF64, 24, always, |v, f| {
    assert!(v.st_name as u64 == f(0, 4));
    assert!(v.st_info as u64 == f(4, 1));
    assert!(v.st_other as u64 == f(5, 1));
    assert!(v.st_shndx as u64 == f(6, 2));
    assert!(v.st_value == f(8, 8));
    assert!(v.st_size == f(16, 8));
    assert!(v.st_bind() as u64 == f(4, 1) >> 4);
    assert!(v.st_symtype() as u64 == f(4, 1) & 0xf);
    assert!(v.st_vis() as u64 == f(5, 1) & 0x3);
    assert!(v.is_undefined() == (f(6, 2) == 0));
});
decode_harness!(rel32, Rel, Class::ELF32, 8, always, |v, f| {
    assert!(v.r_offset == f(0, 4));
    assert!(v.r_sym as u64 == f(4, 4) >> 8);
    assert!(v.r_type as u64 == f(4, 4) & 0xff);
});
decode_harness!(rel64, Rel, Class::ELF64, 16, always, |v, f| {
    assert!(v.r_offset == f(0, 8));
    assert!(v.r_sym as u64 == f(8, 8) >> 32);
    assert!(v.r_type as u64 == f(8, 8) & 0xffff_ffff);
});
decode_harness!(rela32, Rela, Class::ELF32, 12, always, |v, f| {
    assert!(v.r_offset == f(0, 4));
    assert!(v.r_sym as u64 == f(4, 4) >> 8);
    assert!(v.r_type as u64 == f(4, 4) & 0xff);
    assert!(v.r_addend == sext(f(8, 4), 4));
});
decode_harness!(rela64, Rela, Class::ELF64, 24, always, |v, f| {
    assert!(v.r_offset == f(0, 8));
    assert!(v.r_sym as u64 == f(8, 8) >> 32);
    assert!(v.r_type as u64 == f(8, 8) & 0xffff_ffff);
    assert!(v.r_addend == sext(f(16, 8), 8));
});
decode_harness!(dyn32, Dyn, Class::ELF32, 8, always, |v, f| {
    assert!(v.d_tag == sext(f(0, 4), 4));
    assert!(v.d_val() == f(4, 4));
    assert!(v.d_ptr() == f(4, 4));
});
decode_harness!(dyn64, Dyn, Class::ELF64, 16, always, |v, f| {
    assert!(v.d_tag == sext(f(0, 8), 8));
    assert!(v.d_val() == f(8, 8));
    assert!(v.d_ptr() == f(8, 8));
});
decode_harness!(chdr32, CompressionHeader, Class::ELF32, 12, always, |v, f| {
    assert!(v.ch_type as u64 == f(0, 4));
    assert!(v.ch_size == f(4, 4));
    assert!(v.ch_addralign == f(8, 4));
});
decode_harness!(chdr64, CompressionHeader, Class::ELF64, 24, always, |v, f| {
    assert!(v.ch_type as u64 == f(0, 4));
    assert!(v.ch_size == f(8, 8));
    assert!(v.ch_addralign == f(16, 8));
});

macro_rules! both_classes {
    ($n32:ident, $n64:ident, $ty:ty, $size:expr, $valid:expr, |$v:ident, $f:ident| $check:block) => {
        decode_harness!($n32, $ty, Class::ELF32, $size, $valid, |$v, $f| $check);
        decode_harness!($n64, $ty, Class::ELF64, $size, $valid, |$v, $f| $check);
    };
}

both_classes!(sysvhdr32, sysvhdr64, SysVHashHeader, 8, always, |v, f| {
    assert!(v.nbucket as u64 == f(0, 4));
    assert!(v.nchain as u64 == f(4, 4));
});
both_classes!(gnuhdr32, gnuhdr64, GnuHashHeader, 16, always, |v, f| {
    assert!(v.nbucket as u64 == f(0, 4));
    assert!(v.table_start_idx as u64 == f(4, 4));
    assert!(v.nbloom as u64 == f(8, 4));
    assert!(v.nshift as u64 == f(12, 4));
});
both_classes!(verndx32, verndx64, VersionIndex, 2, always, |v, f| {
    assert!(v.0 as u64 == f(0, 2));
    assert!(v.index() as u64 == f(0, 2) & 0x7fff);
    assert!(v.is_hidden() == (f(0, 2) & 0x8000 != 0));
    assert!(v.is_local() == (f(0, 2) & 0x7fff == 0));
    assert!(v.is_global() == (f(0, 2) & 0x7fff == 1));
});
fn version_is_1(f: &dyn Fn(usize, usize) -> u64) -> bool {
    f(0, 2) == 1
}
both_classes!(verdef32, verdef64, VerDef, 20, version_is_1, |v, f| {
    assert!(v.vd_flags as u64 == f(2, 2));
    assert!(v.vd_ndx as u64 == f(4, 2));
    assert!(v.vd_cnt as u64 == f(6, 2));
    assert!(v.vd_hash as u64 == f(8, 4));
    // vd_aux @12, vd_next @16 are private: checked through iterator behaviour in C13
});
both_classes!(verdaux32, verdaux64, VerDefAux, 8, always, |v, f| {
    assert!(v.vda_name as u64 == f(0, 4));
});
both_classes!(verneed32, verneed64, VerNeed, 16, version_is_1, |v, f| {
    assert!(v.vn_cnt as u64 == f(2, 2));
    assert!(v.vn_file as u64 == f(4, 4));
});
both_classes!(vernaux32, vernaux64, VerNeedAux, 16, always, |v, f| {
    assert!(v.vna_hash as u64 == f(0, 4));
    assert!(v.vna_flags as u64 == f(4, 2));
    assert!(v.vna_other as u64 == f(6, 2));
    assert!(v.vna_name as u64 == f(8, 4));
});
both_classes!(abitag32, abitag64, NoteGnuAbiTag, 16, always, |v, f| {
    assert!(v.os as u64 == f(0, 4));
    assert!(v.major as u64 == f(4, 4));
    assert!(v.minor as u64 == f(8, 4));
    assert!(v.subminor as u64 == f(12, 4));
});
both_classes!(u32_32, u32_64, u32, 4, always, |v, f| {
    assert!(v as u64 == f(0, 4));
});
both_classes!(u64_32, u64_64, u64, 8, always, |v, f| {
    assert!(v == f(0, 8));
});

/// FileHeader::parse_tail: the bytes after e_ident, for a symbolic ident tuple; data of any length 0..=52.
macro_rules! ehdr_harness {
    ($name:ident, $class:expr, $size:expr, |$v:ident, $f:ident| $check:block) => {
        #[kani::proof]
        #[kani::unwind(9)]
        pub fn $name() {
            const N: usize = $size + 4;
            let (buf, len) = any_buf::<N>();
            let data = &buf[..len];
            let e = any_endian();
            let le = match e {
                AnyEndian::Little => true,
                AnyEndian::Big => false,
            };
            let osabi: u8 = kani::any();
            let abiver: u8 = kani::any();
            let r = FileHeader::parse_tail((e, $class, osabi, abiver), data);
            let $f = |pos: usize, w: usize| -> u64 { ref_uint(data, pos, w, le) };
            match r {
                Ok($v) => {
                    assert!(len >= $size);
                    assert!($v.class == $class && $v.endianness == e);
                    assert!($v.osabi == osabi && $v.abiversion == abiver);
                    $check;
                    kani::cover!(len == $size, "exact-size tail");
                }
                Err(_) => {
                    assert!(len < $size);
                    kani::cover!(len + 1 == $size, "one byte short");
                }
            }
        }
    };
}
ehdr_harness!(ehdr32, Class::ELF32, 36, |v, f| {
    assert!(v.e_type as u64 == f(0, 2));
    assert!(v.e_machine as u64 == f(2, 2));
    assert!(v.version as u64 == f(4, 4));
    assert!(v.e_entry == f(8, 4));
    assert!(v.e_phoff == f(12, 4));
    assert!(v.e_shoff == f(16, 4));
    assert!(v.e_flags as u64 == f(20, 4));
    assert!(v.e_ehsize as u64 == f(24, 2));
    assert!(v.e_phentsize as u64 == f(26, 2));
    assert!(v.e_phnum as u64 == f(28, 2));
    assert!(v.e_shentsize as u64 == f(30, 2));
    assert!(v.e_shnum as u64 == f(32, 2));
    assert!(v.e_shstrndx as u64 == f(34, 2));
});
ehdr_harness!(ehdr64, Class::ELF64, 48, |v, f| {
    assert!(v.e_type as u64 == f(0, 2));
    assert!(v.e_machine as u64 == f(2, 2));
    assert!(v.version as u64 == f(4, 4));
    assert!(v.e_entry == f(8, 8));
    assert!(v.e_phoff == f(16, 8));
    assert!(v.e_shoff == f(24, 8));
    assert!(v.e_flags as u64 == f(32, 4));
    assert!(v.e_ehsize as u64 == f(36, 2));
    assert!(v.e_phentsize as u64 == f(38, 2));
    assert!(v.e_phnum as u64 == f(40, 2));
    assert!(v.e_shentsize as u64 == f(42, 2));
    assert!(v.e_shnum as u64 == f(44, 2));
    assert!(v.e_shstrndx as u64 == f(46, 2));
});

/// validate_entsize for every entsize value: Ok(entsize) iff entsize == size_for(class).
macro_rules! entsize_harness {
    ($name:ident, $ty:ty) => {
        #[kani::proof]
        pub fn $name() {
            let class = any_class();
            let es: usize = kani::any();
            match <$ty as ParseAt>::validate_entsize(class, es) {
                Ok(v) => {
                    assert!(v == es && es == <$ty as ParseAt>::size_for(class));
                }
                Err(ParseError::BadEntsize((found, expected))) => {
                    assert!(es != <$ty as ParseAt>::size_for(class));
                    assert!(found == es as u64 && expected == <$ty as ParseAt>::size_for(class) as u64);
                }
                Err(_) => {
                    assert!(false);
                }
            }
        }
    };
}
entsize_harness!(entsize_shdr, SectionHeader);
entsize_harness!(entsize_phdr, ProgramHeader);
entsize_harness!(entsize_sym, Symbol);
entsize_harness!(entsize_dyn, Dyn);
entsize_harness!(entsize_verndx, VersionIndex);
entsize_harness!(entsize_rel, Rel);
entsize_harness!(entsize_rela, Rela);
