//! C01 — totality: stand-alone parsers on arbitrary bytes / lengths / arguments never panic or overflow.
//! (Kani checks every reachable panic, index, slice, arithmetic overflow, shift, division and unwinding bound;
//! the harnesses only have to reach the entry points with unconstrained arguments.)
//! Further totality obligations are discharged by the harnesses of C02 (all parse_at), C04 (integer reads),
//! C09 (tables), C15 (string table), C14 (notes), C11/C12 (hash tables), C13/C16 (version iterators),
//! C03/C05/C20 (ElfBytes) — they run under the same checks and are listed in C01's registry entry.
use crate::util::*;
use elf::endian::{AnyEndian, BigEndian, EndianParse, LittleEndian};
use elf::file::{parse_ident, Class, FileHeader};
use elf::parse::ParseError;

/// parse_ident on a slice of ANY length 0..=20 (the public stand-alone parser named by the property).
macro_rules! ident_total {
    ($name:ident, $e:ty) => {
        #[kani::proof]
        #[kani::unwind(6)]
        pub fn $name() {
            let (buf, len) = any_buf::<20>();
            let data = &buf[..len];
            let r = parse_ident::<$e>(data);
            if len < 16 {
                // fewer than EI_NIDENT bytes can never be a valid ident
                assert!(r.is_err());
            }
            kani::cover!(len == 5, "five-byte ident buffer");
            kani::cover!(len == 20 && r.is_ok(), "long buffer accepted");
        }
    };
}
ident_total!(ident_any_len_any, AnyEndian);
ident_total!(ident_any_len_le, LittleEndian);
ident_total!(ident_any_len_be, BigEndian);

/// One NoteIterator step on arbitrary bytes with ANY usize alignment (0, 3, 2^63, usize::MAX, ...): no panic / overflow.
#[kani::proof]
#[kani::unwind(6)]
pub fn note_first_any_align() {
    let (buf, len) = any_buf::<24>();
    let align: usize = kani::any();
    let e = any_endian();
    let mut it = elf::note::NoteIterator::new(e, any_class(), align, &buf[..len]);
    let first = it.next();
    kani::cover!(first.is_none() && len >= 13 && align > usize::MAX - 8, "a note record with an alignment near usize::MAX was rejected without overflow");
    kani::cover!(first.is_some() && align == 3, "a note parsed with alignment 3");
}

/// GnuHashTable::new + find on arbitrary table bytes, both classes (so nbloom, nshift 0..2^32-1, symoffset are arbitrary):
/// totality only (soundness/completeness are C11).
macro_rules! gnu_total {
    ($name:ident, $class:expr, $t:expr, $s:expr) => {
        #[kani::proof]
        #[kani::unwind(7)]
        pub fn $name() {
            let tb: [u8; $t] = kani::any();
            let sb: [u8; $s] = kani::any();
            let e = AnyEndian::Little;
            let symtab: elf::symbol::SymbolTable<'_, AnyEndian> = elf::parse::ParsingTable::new(e, $class, &sb);
            let rb: [u8; 3] = [kani::any(), kani::any(), 0];
            let strtab = elf::string_table::StringTable::new(&rb);
            let q: [u8; 1] = [kani::any()];
            if let Ok(t) = elf::hash::GnuHashTable::new(e, $class, &tb) {
                let r = t.find(&q, &symtab, &strtab);
                kani::cover!(r.is_err() && t.hdr.nshift >= 32, "shift >= 32 reported as an error");
                kani::cover!(matches!(r, Ok(None)) && t.hdr.nbloom == 0, "nbloom == 0 handled");
            }
        }
    };
}
gnu_total!(gnu_find_total_elf64, Class::ELF64, 36, 24);
gnu_total!(gnu_find_total_elf32, Class::ELF32, 28, 16);

/// SysVHashTable::new + find on arbitrary table bytes: totality.
#[kani::proof]
#[kani::unwind(7)]
pub fn sysv_find_total() {
    let tb: [u8; 24] = kani::any();
    let sb: [u8; 32] = kani::any();
    let e = AnyEndian::Little;
    let symtab: elf::symbol::SymbolTable<'_, AnyEndian> = elf::parse::ParsingTable::new(e, Class::ELF32, &sb);
    let rb: [u8; 3] = [kani::any(), kani::any(), 0];
    let strtab = elf::string_table::StringTable::new(&rb);
    let q: [u8; 1] = [kani::any()];
    if let Ok(t) = elf::hash::SysVHashTable::new(e, Class::ELF32, &tb) {
        let _ = t.find(&q, &symtab, &strtab);
    }
}

/// ParsingTable::get with ANY index on a power-of-two and a non-power-of-two entry size: Ok only inside the table.
#[kani::proof]
#[kani::unwind(4)]
pub fn table_get_any_index() {
    let b: [u8; 16] = kani::any();
    let e = any_endian();
    let i: usize = kani::any();
    let t: elf::parse::ParsingTable<'_, AnyEndian, u64> = elf::parse::ParsingTable::new(e, Class::ELF64, &b);
    assert!(t.get(i).is_ok() == (i < 2));
    let d: elf::dynamic::DynamicTable<'_, AnyEndian> = elf::parse::ParsingTable::new(e, Class::ELF64, &b);
    assert!(d.get(i).is_ok() == (i < 1));
}
