//! C01 — totality: stand-alone parsers on arbitrary bytes / lengths / arguments never panic or overflow.
//! (Kani checks every reachable panic, index, slice, arithmetic overflow, shift, division and unwinding bound;
//! the harnesses only have to reach the entry points with unconstrained arguments.)
//! Further totality obligations are discharged by the harnesses of C02 (all parse_at), C04 (integer reads),
//! C09 (tables), C15 (string table), C14 (notes), C11/C12 (hash tables), C13/C16 (version iterators),
//! C03/C05/C20 (ElfBytes) — they run under the same checks and are listed in C01's registry entry.
use crate::util::*;
use elf::endian::{AnyEndian, BigEndian, EndianParse, LittleEndian};
use elf::file::{parse_ident, Class, FileHeader};
use elf::parse::ParseError;

/// parse_ident on a slice of ANY length 0..=20 (the public stand-alone parser named by the property).
macro_rules! ident_total {
    ($name:ident, $e:ty) => {
        #[kani::proof]
        #[kani::unwind(6)]
        pub fn $name() {
            let (buf, len) = any_buf::<20>();
            let data = &buf[..len];
            let r = parse_ident::<$e>(data);
            if len < 16 {
                // fewer than EI_NIDENT bytes can never be a valid ident
                assert!(r.is_err());
            }
            kani::cover!(len == 5, "five-byte ident buffer");
            kani::cover!(len == 20 && r.is_ok(), "long buffer accepted");
        }
    };
}
ident_total!(ident_any_len_any, AnyEndian);
ident_total!(ident_any_len_le, LittleEndian);
ident_total!(ident_any_len_be, BigEndian);
