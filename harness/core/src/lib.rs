//! Kani proof harnesses over the real `elf` crate (path dependency on /repo).
//! Built with `default-features = false`: this is the no_std core.
#![cfg_attr(not(kani), no_std)]
#![allow(dead_code, unused_imports, unused_macros, clippy::all)]

#[cfg(kani)]
pub mod util;
#[cfg(kani)]
pub mod c02;
#[cfg(kani)]
pub mod c04;
