//! Kani proof harnesses over the real `elf` crate (path dependency on /repo).
//! Built with `default-features = false`: this is the no_std core.
#![cfg_attr(not(kani), no_std)]
#![allow(dead_code, unused_imports, unused_macros, clippy::all)]

#[cfg(kani)]
pub mod util;
#[cfg(kani)]
pub mod c01;
#[cfg(kani)]
pub mod c02;
#[cfg(kani)]
pub mod files;
#[cfg(kani)]
pub mod c03;
#[cfg(kani)]
pub mod c03t;
#[cfg(kani)]
pub mod c04;
#[cfg(kani)]
pub mod c05;
#[cfg(kani)]
pub mod c05t;
#[cfg(kani)]
pub mod c09;
#[cfg(kani)]
pub mod c09t;
#[cfg(kani)]
pub mod c10;
#[cfg(kani)]
pub mod c10t;
#[cfg(kani)]
pub mod hashref;
#[cfg(kani)]
pub mod c11;
#[cfg(kani)]
pub mod c11t;
#[cfg(kani)]
pub mod c12;
#[cfg(kani)]
pub mod c12t;
#[cfg(kani)]
pub mod c13;
#[cfg(kani)]
pub mod c13t;
#[cfg(kani)]
pub mod c14;
#[cfg(kani)]
pub mod c14t;
#[cfg(kani)]
pub mod c15;
#[cfg(kani)]
pub mod c15t;
#[cfg(kani)]
pub mod c16;
#[cfg(kani)]
pub mod c18;
#[cfg(kani)]
pub mod gen_files;
#[cfg(kani)]
pub mod c20;
#[cfg(kani)]
pub mod c20t;
#[cfg(kani)]
pub mod c18t;
#[cfg(kani)]
pub mod c16t;
