//! C13 — GNU symbol-version queries resolve to the right requirement / definition.
//! A symbolic *model* (ids, flags, hashes, hidden bits, record counts, versym entries) is serialised by a
//! reference writer (GNU symbol versioning ABI: Elfxx_Verneed 16 bytes, Vernaux 16, Verdef 20, Verdaux 8,
//! versym = u16 per symbol) at positions fixed per harness (layout = gaps between records, enumerated as
//! const parameters); the query index is ANY usize.
use crate::hashref::*;
use crate::util::*;
use elf::endian::{AnyEndian, EndianParse};
use elf::file::Class;
use elf::gnu_symver::{SymbolVersionTable, VerDefIterator, VerNeedIterator, VersionIndexTable};
use elf::parse::ParsingTable;
use elf::string_table::StringTable;

// string table: offset 1 = "a", 3 = "bc", 6 = "lib", 10 = "d"
pub const STRS: [u8; 12] = [0, b'a', 0, b'b', b'c', 0, b'l', b'i', b'b', 0, b'd', 0];

fn str_eq(s: &str, bytes: &[u8]) -> bool {
    let b = s.as_bytes();
    if b.len() != bytes.len() {
        return false;
    }
    let mut i = 0;
    while i < b.len() {
        if b[i] != bytes[i] {
            return false;
        }
        i += 1;
    }
    true
}

#[derive(Clone, Copy)]
pub struct Aux {
    pub hash: u32,
    pub flags: u16,
    pub other: u16,
}

/// One needed file with up to two auxiliary records; gap G1 between the file record and aux 0, G2 between
/// aux 0 and aux 1 (forward layout, slack bytes are symbolic garbage).
pub fn verneed_1x2<const G1: usize, const G2: usize>(class: Class, le: bool) {
    let e = if le { AnyEndian::Little } else { AnyEndian::Big };
    let mut need: [u8; 56] = [0xaa; 56];
    let cnt: u16 = kani::any();
    kani::assume(cnt <= 2);
    let a0 = Aux { hash: kani::any(), flags: kani::any(), other: kani::any() };
    let a1 = Aux { hash: kani::any(), flags: kani::any(), other: kani::any() };
    let p0 = 16 + G1;
    let p1 = p0 + 16 + G2;
    put_u16(&mut need, 0, 1, le); // vn_version
    put_u16(&mut need, 2, cnt, le); // vn_cnt
    put_u32(&mut need, 4, 6, le); // vn_file -> "lib"
    put_u32(&mut need, 8, p0 as u32, le); // vn_aux
    put_u32(&mut need, 12, 0, le); // vn_next
    put_u32(&mut need, p0, a0.hash, le);
    put_u16(&mut need, p0 + 4, a0.flags, le);
    put_u16(&mut need, p0 + 6, a0.other, le);
    put_u32(&mut need, p0 + 8, 1, le); // vna_name -> "a"
    put_u32(&mut need, p0 + 12, (16 + G2) as u32, le); // vna_next
    put_u32(&mut need, p1, a1.hash, le);
    put_u16(&mut need, p1 + 4, a1.flags, le);
    put_u16(&mut need, p1 + 6, a1.other, le);
    put_u32(&mut need, p1 + 8, 3, le); // vna_name -> "bc"
    put_u32(&mut need, p1 + 12, 0, le);
    let end = p1 + 16;
    let versym: [u16; 3] = kani::any();
    let mut vs = [0u8; 6];
    put_u16(&mut vs, 0, versym[0], le);
    put_u16(&mut vs, 2, versym[1], le);
    put_u16(&mut vs, 4, versym[2], le);
    let ids: VersionIndexTable<'_, AnyEndian> = ParsingTable::new(e, class, &vs);
    let strs = StringTable::new(&STRS);
    let table = SymbolVersionTable::new(
        ids,
        Some((VerNeedIterator::new(e, class, 1, 0, &need[..end]), strs)),
        None,
    );
    let i: usize = kani::any();
    let r = table.get_requirement(i);
    if i >= 3 {
        assert!(r.is_err());
        return;
    }
    let v = versym[i] & 0x7fff;
    let hidden = versym[i] & 0x8000 != 0;
    let exp: Option<(Aux, usize)> = if cnt >= 1 && a0.other == v {
        Some((a0, 0))
    } else if cnt >= 2 && a1.other == v {
        Some((a1, 1))
    } else {
        None
    };
    match (r, exp) {
        (Ok(None), None) => {
            kani::cover!(v == 1, "global index unlisted gives None");
        }
        (Ok(Some(req)), Some((a, which))) => {
            assert!(req.hash == a.hash && req.flags == a.flags && req.hidden == hidden);
            assert!(str_eq(req.file, b"lib"));
            if which == 0 {
                assert!(str_eq(req.name, b"a"));
            } else {
                assert!(str_eq(req.name, b"bc"));
            }
            kani::cover!(which == 1 && hidden, "second aux, hidden");
        }
        _ => {
            assert!(false);
        }
    }
    // no definitions section: definition query gives None for an in-range index
    assert!(matches!(table.get_definition(i), Ok(None)));
}

/// One definition with up to two names.
pub fn verdef_1x2<const G1: usize, const G2: usize>(class: Class, le: bool) {
    let e = if le { AnyEndian::Little } else { AnyEndian::Big };
    let mut def: [u8; 44] = [0xaa; 44];
    let cnt: u16 = kani::any();
    kani::assume(cnt <= 2);
    let flags: u16 = kani::any();
    let ndx: u16 = kani::any();
    let hash: u32 = kani::any();
    let p0 = 20 + G1;
    let p1 = p0 + 8 + G2;
    put_u16(&mut def, 0, 1, le);
    put_u16(&mut def, 2, flags, le);
    put_u16(&mut def, 4, ndx, le);
    put_u16(&mut def, 6, cnt, le);
    put_u32(&mut def, 8, hash, le);
    put_u32(&mut def, 12, p0 as u32, le); // vd_aux
    put_u32(&mut def, 16, 0, le); // vd_next
    put_u32(&mut def, p0, 3, le); // "bc"
    put_u32(&mut def, p0 + 4, (8 + G2) as u32, le);
    put_u32(&mut def, p1, 10, le); // "d"
    put_u32(&mut def, p1 + 4, 0, le);
    let end = p1 + 8;
    let versym: [u16; 3] = kani::any();
    let mut vs = [0u8; 6];
    put_u16(&mut vs, 0, versym[0], le);
    put_u16(&mut vs, 2, versym[1], le);
    put_u16(&mut vs, 4, versym[2], le);
    let ids: VersionIndexTable<'_, AnyEndian> = ParsingTable::new(e, class, &vs);
    let strs = StringTable::new(&STRS);
    let table = SymbolVersionTable::new(
        ids,
        None,
        Some((VerDefIterator::new(e, class, 1, 0, &def[..end]), strs)),
    );
    let i: usize = kani::any();
    let r = table.get_definition(i);
    if i >= 3 {
        assert!(r.is_err());
        return;
    }
    let v = versym[i] & 0x7fff;
    let hidden = versym[i] & 0x8000 != 0;
    match r {
        Ok(None) => {
            assert!(ndx != v);
        }
        Ok(Some(d)) => {
            assert!(ndx == v);
            assert!(d.hash == hash && d.flags == flags && d.hidden == hidden);
            let mut names = d.names;
            let n0 = names.next();
            if cnt >= 1 {
                assert!(matches!(n0, Some(Ok(s)) if str_eq(s, b"bc")));
                let n1 = names.next();
                if cnt >= 2 {
                    assert!(matches!(n1, Some(Ok(s)) if str_eq(s, b"d")));
                    assert!(names.next().is_none());
                    kani::cover!(hidden, "two names, hidden");
                } else {
                    assert!(n1.is_none());
                }
            } else {
                assert!(n0.is_none());
            }
        }
        Err(_) => {
            assert!(false);
        }
    }
    assert!(matches!(table.get_requirement(i), Ok(None)));
}

#[kani::proof]
#[kani::unwind(8)]
pub fn verneed_1x2_g0_g3() {
    verneed_1x2::<0, 3>(Class::ELF64, true);
}
#[kani::proof]
#[kani::unwind(8)]
pub fn verdef_1x2_g2_g0() {
    verdef_1x2::<2, 0>(Class::ELF32, false);
}

/// Two needed files with one auxiliary record each, laid out "headers first, auxiliaries after" (non-contiguous, forward links):
///   VN0 @0 (vn_aux = 32+G, vn_next = 16), VN1 @16 (vn_aux = 32+G relative to 16 -> absolute 48+G, vn_next = 0),
///   AUX0 @32+G, AUX1 @48+G.   Every id / flag / hash / count is symbolic.
pub fn verneed_2x1_headers_first<const G: usize>(class: Class, le: bool) {
    let e = if le { AnyEndian::Little } else { AnyEndian::Big };
    let mut need: [u8; 64] = [0xaa; 64];
    let a0 = Aux { hash: kani::any(), flags: kani::any(), other: kani::any() };
    let a1 = Aux { hash: kani::any(), flags: kani::any(), other: kani::any() };
    let p0 = 32 + G;
    let p1 = 48 + G;
    assert!(p1 + 16 <= 64);
    put_u16(&mut need, 0, 1, le);
    put_u16(&mut need, 2, 1, le); // vn_cnt
    put_u32(&mut need, 4, 6, le); // "lib"
    put_u32(&mut need, 8, p0 as u32, le);
    put_u32(&mut need, 12, 16, le); // vn_next
    put_u16(&mut need, 16, 1, le);
    put_u16(&mut need, 18, 1, le);
    put_u32(&mut need, 20, 10, le); // "d"
    put_u32(&mut need, 24, (p1 - 16) as u32, le);
    put_u32(&mut need, 28, 0, le);
    put_u32(&mut need, p0, a0.hash, le);
    put_u16(&mut need, p0 + 4, a0.flags, le);
    put_u16(&mut need, p0 + 6, a0.other, le);
    put_u32(&mut need, p0 + 8, 1, le); // "a"
    put_u32(&mut need, p0 + 12, 0, le);
    put_u32(&mut need, p1, a1.hash, le);
    put_u16(&mut need, p1 + 4, a1.flags, le);
    put_u16(&mut need, p1 + 6, a1.other, le);
    put_u32(&mut need, p1 + 8, 3, le); // "bc"
    put_u32(&mut need, p1 + 12, 0, le);
    let versym: [u16; 2] = kani::any();
    let mut vs = [0u8; 4];
    put_u16(&mut vs, 0, versym[0], le);
    put_u16(&mut vs, 2, versym[1], le);
    let ids: VersionIndexTable<'_, AnyEndian> = ParsingTable::new(e, class, &vs);
    let strs = StringTable::new(&STRS);
    let table = SymbolVersionTable::new(ids, Some((VerNeedIterator::new(e, class, 2, 0, &need[..p1 + 16]), strs)), None);
    let i: usize = kani::any();
    let r = table.get_requirement(i);
    if i >= 2 {
        assert!(r.is_err());
        return;
    }
    let v = versym[i] & 0x7fff;
    let hidden = versym[i] & 0x8000 != 0;
    match r {
        Ok(None) => {
            assert!(a0.other != v && a1.other != v);
        }
        Ok(Some(req)) => {
            assert!(req.hidden == hidden);
            if a0.other == v {
                assert!(req.hash == a0.hash && req.flags == a0.flags);
                assert!(str_eq(req.file, b"lib") && str_eq(req.name, b"a"));
            } else {
                assert!(a1.other == v);
                assert!(req.hash == a1.hash && req.flags == a1.flags);
                assert!(str_eq(req.file, b"d") && str_eq(req.name, b"bc"));
                kani::cover!(true, "requirement served by the second needed file");
            }
        }
        Err(_) => {
            assert!(false);
        }
    }
}

#[kani::proof]
#[kani::unwind(8)]
pub fn verneed_2x1_headers_first_g0() {
    verneed_2x1_headers_first::<0>(Class::ELF32, true);
}

/// Two definitions in chain order (not assumed sorted by index) with one name each; all indices / flags / hashes symbolic.
///   VD0 @0 (vd_aux 20, vd_next 28), VDA0 @20, VD1 @28 (vd_aux 20, vd_next 0), VDA1 @48
pub fn verdef_2x1(class: Class, le: bool) {
    let e = if le { AnyEndian::Little } else { AnyEndian::Big };
    let mut def: [u8; 56] = [0xaa; 56];
    let n0: u16 = kani::any();
    let n1: u16 = kani::any();
    let f0: u16 = kani::any();
    let f1: u16 = kani::any();
    let h0: u32 = kani::any();
    let h1: u32 = kani::any();
    put_u16(&mut def, 0, 1, le);
    put_u16(&mut def, 2, f0, le);
    put_u16(&mut def, 4, n0, le);
    put_u16(&mut def, 6, 1, le);
    put_u32(&mut def, 8, h0, le);
    put_u32(&mut def, 12, 20, le);
    put_u32(&mut def, 16, 28, le);
    put_u32(&mut def, 20, 3, le); // "bc"
    put_u32(&mut def, 24, 0, le);
    put_u16(&mut def, 28, 1, le);
    put_u16(&mut def, 30, f1, le);
    put_u16(&mut def, 32, n1, le);
    put_u16(&mut def, 34, 1, le);
    put_u32(&mut def, 36, h1, le);
    put_u32(&mut def, 40, 20, le);
    put_u32(&mut def, 44, 0, le);
    put_u32(&mut def, 48, 10, le); // "d"
    put_u32(&mut def, 52, 0, le);
    let versym: [u16; 2] = kani::any();
    let mut vs = [0u8; 4];
    put_u16(&mut vs, 0, versym[0], le);
    put_u16(&mut vs, 2, versym[1], le);
    let ids: VersionIndexTable<'_, AnyEndian> = ParsingTable::new(e, class, &vs);
    let strs = StringTable::new(&STRS);
    let table = SymbolVersionTable::new(ids, None, Some((VerDefIterator::new(e, class, 2, 0, &def), strs)));
    let i: usize = kani::any();
    let r = table.get_definition(i);
    if i >= 2 {
        assert!(r.is_err());
        return;
    }
    let v = versym[i] & 0x7fff;
    let hidden = versym[i] & 0x8000 != 0;
    match r {
        Ok(None) => {
            assert!(n0 != v && n1 != v);
        }
        Ok(Some(d)) => {
            assert!(d.hidden == hidden);
            let mut names = d.names;
            if n0 == v {
                assert!(d.hash == h0 && d.flags == f0);
                assert!(matches!(names.next(), Some(Ok(s)) if str_eq(s, b"bc")));
            } else {
                assert!(n1 == v);
                assert!(d.hash == h1 && d.flags == f1);
                assert!(matches!(names.next(), Some(Ok(s)) if str_eq(s, b"d")));
                kani::cover!(n0 > n1, "second definition found although the first one has a larger index");
            }
            assert!(names.next().is_none());
        }
        Err(_) => {
            assert!(false);
        }
    }
}

#[kani::proof]
#[kani::unwind(8)]
pub fn verdef_2x1_unsorted() {
    verdef_2x1(Class::ELF64, true);
}
