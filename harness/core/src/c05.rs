//! C05 — header tables are located exactly as the ELF header (and shdr[0]) declare.
//! H1: ElfBytes::minimal_parse with ALL header bytes symbolic over a file of symbolic length <= B.
//! Oracle computed from the raw header bytes (gABI): table present iff e_shoff/e_phoff != 0; count = e_shnum / e_phnum or,
//! with extended numbering, shdr[0].sh_size / shdr[0].sh_info; Ok iff entsize == the class's structure size and
//! off + n*entsize <= len without overflow; then len() == n and get(i) == the ABI record at off + i*entsize.
use crate::util::*;
use elf::endian::{AnyEndian, EndianParse};
use elf::file::Class;
use elf::parse::ParseAt;
use elf::section::SectionHeader;
use elf::segment::ProgramHeader;
use elf::ElfBytes;

pub const B: usize = 144;

#[derive(Clone, Copy, PartialEq)]
pub enum Case {
    Plain,   // e_shnum != 0, e_phnum != 0xffff
    ShnumX,  // e_shnum == 0  (count in shdr[0].sh_size), e_phnum != 0xffff
    PhnumX,  // e_phnum == 0xffff (count in shdr[0].sh_info), e_shnum != 0, e_shoff != 0
}

fn fits(off: u64, n: u64, es: u64, len: u64) -> bool {
    match n.checked_mul(es) {
        None => false,
        Some(sz) => match off.checked_add(sz) {
            None => false,
            Some(end) => end <= len,
        },
    }
}

pub fn h1(class: Class, case: Case) {
    let mut buf: [u8; B] = kani::any();
    let len: usize = kani::any();
    kani::assume(len <= B);
    // a valid little-endian ident of the given class (ident handling itself is C10)
    buf[0] = 0x7f;
    buf[1] = b'E';
    buf[2] = b'L';
    buf[3] = b'F';
    buf[4] = if class == Class::ELF32 { 1 } else { 2 };
    buf[5] = 1;
    buf[6] = 1;
    let data = &buf[..len];
    let is32 = class == Class::ELF32;
    let hs: usize = if is32 { 52 } else { 64 };
    let (shes, phes): (u64, u64) = if is32 { (40, 32) } else { (64, 56) };
    let rd = |pos: usize, w: usize| -> u64 { ref_uint(&buf, pos, w, true) };
    let (e_phoff, e_shoff) = if is32 { (rd(28, 4), rd(32, 4)) } else { (rd(32, 8), rd(40, 8)) };
    let b2 = if is32 { 42 } else { 54 };
    let e_phentsize = rd(b2, 2);
    let e_phnum = rd(b2 + 2, 2);
    let e_shentsize = rd(b2 + 4, 2);
    let e_shnum = rd(b2 + 6, 2);
    match case {
        Case::Plain => kani::assume(e_shnum != 0 && e_phnum != 0xffff),
        Case::ShnumX => kani::assume(e_shnum == 0 && e_phnum != 0xffff),
        Case::PhnumX => kani::assume(e_shnum != 0 && e_phnum == 0xffff && e_shoff != 0),
    }
    let lenu = len as u64;
    // shdr[0] (needed by the extended numbering rules): present iff it fits at e_shoff
    let shdr0_fits = fits(e_shoff, 1, shes, lenu);
    let (sh0_size, sh0_info) = if shdr0_fits && (case != Case::Plain) {
        let o = e_shoff as usize;
        if is32 { (rd(o + 20, 4), rd(o + 28, 4)) } else { (rd(o + 32, 8), rd(o + 44, 4)) }
    } else {
        (0, 0)
    };
    let shnum = if case == Case::ShnumX { sh0_size } else { e_shnum };
    let phnum = if case == Case::PhnumX { sh0_info } else { e_phnum };
    let sh_ok = e_shoff == 0
        || ((case != Case::ShnumX || shdr0_fits) && e_shentsize == shes && fits(e_shoff, shnum, shes, lenu));
    let ph_ok = e_phoff == 0
        || ((case != Case::PhnumX || shdr0_fits) && e_phentsize == phes && fits(e_phoff, phnum, phes, lenu));
    let expected_ok = len >= hs && sh_ok && ph_ok;
    match ElfBytes::<AnyEndian>::minimal_parse(data) {
        Ok(f) => {
            assert!(expected_ok);
            let _e = f.ehdr.endianness;
            match f.section_headers() {
                None => assert!(e_shoff == 0),
                Some(t) => {
                    assert!(e_shoff != 0);
                    assert!(t.len() as u64 == shnum);
                    let i: usize = kani::any();
                    if i < t.len() {
                        // entry i is the record at e_shoff + i*entsize: its first and last words are compared with the raw bytes
                        // (that a record's bytes decode field by field is C02; that get(i) is the record at i*entsize of the table bytes is C09)
                        let base = e_shoff as usize + i * (shes as usize);
                        let got = t.get(i);
                        assert!(got.is_ok());
                        let got = got.unwrap();
                        assert!(got.sh_name as u64 == rd(base, 4));
                        assert!(got.sh_entsize == if is32 { rd(base + 36, 4) } else { rd(base + 56, 8) });
                        kani::cover!(i == 1, "second section header compared");
                    } else {
                        assert!(t.get(i).is_err());
                    }
                    kani::cover!(e_shoff as usize + t.len() * (shes as usize) == len && t.len() > 0, "section table touching EOF");
                }
            }
            match f.segments() {
                None => assert!(e_phoff == 0),
                Some(t) => {
                    assert!(e_phoff != 0);
                    assert!(t.len() as u64 == phnum);
                    let j: usize = kani::any();
                    if j < t.len() {
                        let base = e_phoff as usize + j * (phes as usize);
                        let got = t.get(j);
                        assert!(got.is_ok());
                        assert!(got.unwrap().p_type as u64 == rd(base, 4));
                    } else {
                        assert!(t.get(j).is_err());
                    }
                    kani::cover!(t.len() == 2, "two program headers");
                }
            }
        }
        Err(_) => {
            assert!(!expected_ok);
            kani::cover!(len >= hs && e_shoff != 0 && e_shentsize != shes, "rejected for a wrong e_shentsize");
            kani::cover!(len >= hs && e_shoff != 0 && e_shentsize == shes && !fits(e_shoff, shnum, shes, lenu), "rejected: section table does not fit");
        }
    }
}

#[kani::proof]
#[kani::unwind(9)]
pub fn h1_elf64_plain() {
    h1(Class::ELF64, Case::Plain);
}
