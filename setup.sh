#!/bin/sh
# Offline setup: nothing to fetch. Warm the Kani build of the main harness crate so the first check is not slower.
set -e
cd "$(dirname "$0")"
mkdir -p .build evidence replays
export CARGO_NET_OFFLINE=true
python3 -c "import sys; sys.exit(0)"
python3-vt -c "import z3" 
cargo kani --version >/dev/null
exit 0
