#!/bin/sh
# usage: ./runseeds.sh C01 C02 ...   evaluates /tmp/wt_<ID>/seed_{1,2} against ./check <ID> --tier quick (sequential; needs /repo exclusively)
mkdir -p .build/out
for id in "$@"; do
  for k in ${SEEDS:-1 2}; do
    d=/tmp/wt_$id/seed_$k
    [ -d "$d" ] || continue
    python3 -m vlib.seedeval "$d" "${id}_seed$k" "$id" > .build/out/seed_${id}_$k.out 2>&1
    echo "${id}_seed$k $(python3 -c "
import json
m=json.load(open('seeded/${id}_seed$k/meta.json'))
c=m.get('confirmation',{})
v=m.get('checks_run_against_it',{})
print('confirmed=%s'%c.get('confirmed'), ' '.join('%s:exit=%s,detected=%s,%ss'%(p,x['exit'],x['detected'],x['wall_s']) for p,x in v.items()))
" 2>&1)" >> .build/out/seeds_summary.txt
  done
done
