#!/bin/sh
# usage: ./pareval.sh <name> <patch.diff> <PROP> [...]
# Runs ./check <PROP> --tier quick against a PRIVATE view of the changed tree, so that several seeded changes can be
# evaluated at the same time: a copy of /repo with the patch applied and a clone of the committed /verif are bind-mounted
# over /repo and /verif inside a private mount namespace (unshare -m); the checks themselves are unmodified and still read
# "/repo". Nothing outside the namespace sees the change; evidence/replays written by the run stay in the clone.
# Output: /tmp/pe_<name>/<PROP>.out, verdict line appended to /tmp/pe_summary.txt.   (VERIF_JOBS limits Kani's -j.)
name=$1; patch=$2; shift 2
d=/tmp/pe_$name
rm -rf "$d"; mkdir -p "$d"
cp -r /repo "$d/repo"
git -C "$d/repo" checkout -q -- . 2>/dev/null
git -C "$d/repo" apply "$patch" || { echo "$name patch does not apply" >> /tmp/pe_summary.txt; exit 3; }
git clone -q /verif "$d/verif"
for p in "$@"; do
  t0=$(date +%s)
  unshare -m sh -c "mount --bind $d/repo /repo && mount --bind $d/verif /verif && cd /verif && ./check $p --tier quick" > "$d/$p.out" 2>&1
  rc=$?
  t1=$(date +%s)
  echo "$name $p exit=$rc wall=$((t1-t0))s $(grep -E '^(VIOLATION|INCONCLUSIVE)' "$d/$p.out" | head -2 | tr '\n' ' ')" >> /tmp/pe_summary.txt
done
rm -rf "$d/repo" "$d/verif/.build" "$d/verif/harness"/*/target
